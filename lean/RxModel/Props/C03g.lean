/-
  Props/C03g — C03 / C19 for `straightCaps3` programs (Props/C03f: captures and back-references next to
  capture-free VARIABLE-LENGTH repeats, `(a+)(?:bc|d)+?\1`), lifted from `match_at` through the search loop
  `matches` (all five shortcuts) and up to the API functions that REPORT groups, exactly as Props/C03c lifts
  Props/C03b.

  Hypotheses, bundled in `SearchOK3 env pr lower input` (Proofs/PathCaps3ScanLemmas):
    * `StraightOK3`: `InputOK env ctx` (input side) and the decidable program side `C03f.progOK3`
      (`straightCaps3`, `wfOp`, `noEmptyAtoms`, `clsCanonB`, `C02.capsPos`, `scopeOK … [] []`, `Nodup`);
    * `InputOK` for the empty input; `SearchFacts` for the input and the empty input (what `ReProgram::new`
      records, `SearchComplete.mkProgram_searchFacts`; `searchOK3_of_mkProgram` below);
    * every precondition tree has `preShape` and `simplePre`; `input.length < usize::MAX`; the nullability
      gate `is_match("") = false` (C16).

  1. `matchAt_cases3`, `tryCands_caps3`, `matchesFrom_caps3`, `matchesFrom_caps3_false`: THE SEARCH LOOP
     (least start with a path, first path of `enumC3`, arrays represent its environment, no panic).
  2. `replace_first_match_groups3`, `replace_groups3` (+ `specSpans3_cons`, `firstMatch3_spec`):
     `replace_all` never fails on a well-formed replacement and equals the specification over the
     state-free span sequence `specSpans3`, `$N` = text of group N on the selected path.
  3. `analyze_match_groups3`, `analyze_groups3`, `groupTree_text3`, `groupTree_groups3`, `groupTree_node3`:
     the analyze answer is the explicit group tree (as in C03c: `.ok` is a hypothesis of `analyze_groups3`).
  3b. `groups_nested3`, `matchAt_nested3`, `matchesFrom_nested3`: reported spans inside the match, nested as
     the parentheses; the text of a group is a match of its sub-expression.
  4. kernel-evaluated examples on `(a+)(?:bc|d)+?\1` and `((a)b)(?:c|de)+\2\1`.
  Nothing had to be weakened or refuted.

  Re-used from C03c unchanged (generic): `ReprP`, `Good`, `HasP`, `grpOf`, `replText`, the precondition
  lemmas, the whole tree-builder verification (`processMatch_forest`, `forestOf`, `tblOK`, `outF`, …).
  Twins with `enumC3` / `straightCaps3` in place of `enumC` / `straightCaps`: everything else.
-/
import RxModel.Proofs.PathCaps3ScanLemmas
import RxModel.Proofs.PathCaps3TreeLemmas
namespace Rx.C03g
open Rx

/-! ## 1. the search loop -/

/-- one `match_at(j)` from a good state: either a path starts at `j`, `match_at` succeeds and leaves
    the first path of the priority order; or no path starts at `j`, `match_at` fails and the state is
    good again (so the next attempt starts clear) -/
theorem matchAt_cases3 (env : Env) (ctx : Ctx) (hI : InputOK env ctx) (op : Op)
    (hok : C03f.progOK3 env ctx.caseBlind ctx.multiLine ctx.hasBackrefs ctx.maxParens op = true)
    (j : Nat) (hj : j ≤ ctx.len) (st : St) (hst : Good op st) :
    (HasP ctx op j ∧ ∃ st' n e', matchAt ctx op j st = (true, st') ∧ MatchRes3 ctx op j n e' st') ∨
    (¬ HasP ctx op j ∧ ∃ st', matchAt ctx op j st = (false, st') ∧ Good op st') :=
  matchAt_casesP3 env ctx op (.of_progOK3 hI hok) j hj st hst

/-- the candidate loop: it stops at the FIRST candidate from which a path exists -/
theorem tryCands_caps3 (env : Env) (ctx : Ctx) (hI : InputOK env ctx) (op : Op)
    (hok : C03f.progOK3 env ctx.caseBlind ctx.multiLine ctx.hasBackrefs ctx.maxParens op = true)
    (cands : List Nat) (hb : ∀ j ∈ cands, j ≤ ctx.len) (st st' : St) (hst : Good op st)
    (h : tryCands ctx op cands st = (true, st')) :
    ∃ pre j post n e', cands = pre ++ j :: post ∧ (∀ k ∈ pre, ¬ HasP ctx op k) ∧
      MatchRes3 ctx op j n e' st' := by
  rcases tryCands_specP3 env ctx op (.of_progOK3 hI hok) cands st hb hst with
    ⟨pre, j, post, _, st2, n, e', h1, h2, h3, _, h5⟩ | ⟨_, st2, h3, _⟩
  · rw [h] at h3
    simp only [Prod.mk.injEq, true_and] at h3
    subst h3
    exact ⟨pre, j, post, n, e', h1, h2, h5⟩
  · rw [h] at h3; cases h3

/-- **`matches(i)` reports the captures of the leftmost, first path** — through all shortcuts: `j` is the
    LEAST start `≥ i` from which a path of the semantics (with environments) exists, `(n, e')` is the FIRST
    path of the priority order from `j` (`enumC3`: ordered choice, greedy-longest, reluctant-shortest, also
    for the variable-length repeats), group 0 = `(j, n)`, the capture arrays represent exactly `e'`,
    `get_paren(g)` is the text of `e' g`; no panic -/
theorem matchesFrom_caps3 (env : Env) (pr : Prog) (lower : Nat → Nat) (input : List Nat)
    (S : SearchOK3 env pr lower input)
    (i : Nat) (hi : i ≤ input.length) (st st' : St) (hst : st.panic = none)
    (h : matchesFrom (pr.ctx lower input) pr i st = (true, st')) :
    ∃ j n e', i ≤ j ∧ j < n ∧ n ≤ input.length ∧
      PathR (pr.ctx lower input) pr.op j CEnv.empty n e' ∧
      (enumC3 (pr.ctx lower input) pr.op j CEnv.empty).head? = some (n, e') ∧
      (∀ k, i ≤ k → k < j → ¬ ∃ n' e'', PathR (pr.ctx lower input) pr.op k CEnv.empty n' e'') ∧
      getParenStart st' 0 = some j ∧ getParenEnd st' 0 = some n ∧
      Repr (pr.ctx lower input) st' e' ∧ EnvIn e' j n ∧
      (∀ g, g ∈ capsOf pr.op ↔ (e' g).isSome = true) ∧
      (∀ g, getParen input st' g = grpOf input j n e' g) ∧ st'.panic = none := by
  have ho := S.outcome i hi st hst
  rw [h] at ho
  rcases ho with ⟨_, j, stj, n, e', h1, h2, h3, _, hres⟩ | ⟨hf, _⟩
  · simp only at hres
    have hjn := no_zero_path3 env _ _ _ pr.op S.ok.straight S.no_empty_path j n e' h2 hres.path hres.le
    exact ⟨j, n, e', h1, hjn, hres.len, hres.path, hres.first, h3, hres.start0, hres.end0, hres.repr,
      hres.env, hres.dom, getParen_matchRes3 hres input, hres.clean⟩
  · cases hf

/-- `matches(i) = false`: no path starts at or after `i`; the state stays clean -/
theorem matchesFrom_caps3_false (env : Env) (pr : Prog) (lower : Nat → Nat) (input : List Nat)
    (S : SearchOK3 env pr lower input)
    (i : Nat) (hi : i ≤ input.length) (st st' : St) (hst : st.panic = none)
    (h : matchesFrom (pr.ctx lower input) pr i st = (false, st')) :
    (∀ j, i ≤ j → j ≤ input.length → ¬ ∃ n e', PathR (pr.ctx lower input) pr.op j CEnv.empty n e') ∧
    st'.panic = none := by
  have ho := S.outcome i hi st hst
  rw [h] at ho
  rcases ho with ⟨ht, _⟩ | ⟨_, hg, hno⟩
  · cases ht
  · exact ⟨hno, hg.2⟩

/-- the hypotheses, for a program built by `ReProgram::new` (`mkProgram`): the recorded facts come
    from `SearchComplete.mkProgram_searchFacts`; what is left is decidable, up to `InputOK` -/
theorem searchOK3_of_mkProgram (env : Env) (pat : List Nat) (op : Op) (mp : Nat) (fl : CFlags) (hb : Bool)
    (lower : Nat → Nat) (input : List Nat)
    (hI : InputOK env ((mkProgram pat op mp fl hb).ctx lower input))
    (hwf : wfOp op = true) (hne : C08.noEmptyAtoms op = true) (hlen : input.length < usizeMax)
    (hok : C03f.progOK3 env (mkProgram pat op mp fl hb).caseBlind (mkProgram pat op mp fl hb).multiLine
      (mkProgram pat op mp fl hb).hasBackrefs (mkProgram pat op mp fl hb).maxParens
      (mkProgram pat op mp fl hb).op = true)
    (hpres : ∀ q ∈ (mkProgram pat op mp fl hb).pres,
      SearchComplete.preShape q.op = true ∧ C06.simplePre q.op = true)
    (hnull : (mkProgram pat op mp fl hb).isMatch lower [] = .ok false) :
    SearchOK3 env (mkProgram pat op mp fl hb) lower input :=
  ⟨.of_progOK3 hI hok, ⟨hI.hcase, hI.hce, (fun _ h => nomatch h), (fun _ h => nomatch h)⟩,
    SearchComplete.mkProgram_searchFacts pat op mp fl hb lower input hwf hne hlen,
    SearchComplete.mkProgram_searchFacts pat op mp fl hb lower [] hwf hne (by decide), hpres, hlen, hnull⟩

/-! ## 2. `replace_all` -/

/-- **one match.**  In the state of a match `(j, n, e')` the substitution yields the replacement string
    expanded as Spec/Repl prescribes, `$N` standing for the text of `e' N` (group 0 = the match; a
    group that did not participate, or a number above the number of groups, gives nothing) -/
theorem replace_first_match_groups3 (pr : Prog) (lower : Nat → Nat) (input repl : List Nat)
    (j n : Nat) (e' : CEnv) (st' : St)
    (h : MatchRes3 (pr.ctx lower input) pr.op j n e' st')
    (hmp : pr.maxParens ≠ 0) (hwf : Spec.wfRepl repl = true) :
    ∃ s', pr.subst input repl st' false =
      some ((Spec.expandSpec (pr.maxParens - 1) (grpOf input j n e') repl).getD [], s') := by
  obtain ⟨s', h1, _⟩ := subst_matchRes3 h repl hmp hwf false (fun hc => by cases hc)
  exact ⟨s', h1⟩

/-- **`replace_all`.**  For a regex that passes the nullability gate, a well-formed replacement string
    and a program without flag `q`: the call succeeds, and the result is the input with every match
    `(j, n, e')` of the state-free span sequence (`specSpans3`: least start with a path, first path of
    `enumC3`, continue from its end) replaced by the expansion in which `$N` is the text of `e' N` -/
theorem replace_groups3 (env : Env) (r : Regex) (lower : Nat → Nat) (input repl : List Nat)
    (S : SearchOK3 env r.prog lower input) (hnull : r.nullable = false)
    (hmp : r.prog.maxParens ≠ 0) (hwf : Spec.wfRepl repl = true) (hlit : r.prog.literal = false) :
    r.replaceAll lower input repl =
      .ok (Spec.replaced input 0
        ((specSpans3 (r.prog.ctx lower input) r.prog.op (input.length + 2) 0).map
          (fun x => (x.1, x.2.1, replText r.prog input repl x)))) := by
  simp only [Regex.replaceAll, hnull, Bool.false_eq_true, if_false, replaceWith]
  have := replaceLoop_straight3 S repl hmp hwf hlit (input.length + 2) 0 {} true false [] rfl (Nat.zero_le _)
    (by omega) (fun _ => ⟨rfl, rfl⟩) (fun hc => by cases hc)
  simpa using this

/-- what the span sequence is: each element is the least start at or after the previous end from
    which a path exists, with the first path of the priority order -/
theorem specSpans3_cons (ctx : Ctx) (op : Op) (f pos : Nat) (x : Nat × Nat × CEnv) (rest : List (Nat × Nat × CEnv))
    (h : specSpans3 ctx op (f + 1) pos = x :: rest) :
    pos < ctx.len ∧ firstMatch3 ctx op pos = some x ∧ rest = specSpans3 ctx op f x.2.1 := by
  unfold specSpans3 at h
  split at h
  · rename_i hlt
    split at h
    · rename_i j n e' heq
      simp only [List.cons.injEq] at h
      obtain ⟨rfl, rfl⟩ := h
      exact ⟨hlt, heq, rfl⟩
    · cases h
  · cases h

/-- `firstMatch3`: the least start at or after `pos` from which a path exists, and the first path -/
theorem firstMatch3_spec (env : Env) (ctx : Ctx) (op : Op) (H : StraightOK3 env ctx op)
    (pos j n : Nat) (e' : CEnv) (h : firstMatch3 ctx op pos = some (j, n, e')) :
    pos ≤ j ∧ j ≤ ctx.len ∧ (enumC3 ctx op j CEnv.empty).head? = some (n, e') ∧
    PathR ctx op j CEnv.empty n e' ∧ ∀ k, pos ≤ k → k < j → ¬ HasP ctx op k := by
  obtain ⟨h1, h2, h3, h4⟩ := firstFrom3_sound ctx op _ pos j n e' h
  refine ⟨h1, h2, h3, ?_, fun k hk1 hk2 hp => ?_⟩
  · have hm : (n, e') ∈ enumC3 ctx op j CEnv.empty := by
      cases hl : enumC3 ctx op j CEnv.empty with
      | nil => rw [hl] at h3; cases h3
      | cons x l =>
        rw [hl] at h3
        simp only [List.head?_cons, Option.some.injEq] at h3
        subst h3; exact List.mem_cons_self
    exact (enumC3_facts env ctx H.inputOK j op H.straight H.wf H.noEmpty H.canon [] j CEnv.empty h2
      (Nat.le_refl _) (EnvIn.empty _ _) (Dom.nil _) _ hm).path
  · have := (hasP_iff3 env ctx op H k (by omega)).1 hp
    rw [h4 k hk1 hk2] at this
    cases this

/-! ## 3. `analyze`

  `groupTree op input (j, n, e')` (Proofs/C03cTree, generic) is the tree the specification prescribes for a
  match: the capture nodes of the pattern as `Group` nodes, nested as in the pattern, each spanning the text
  of its group in `e'`, with the text in between as (non-empty) `String` leaves.  A `.rep` node contributes
  no `Group` node (it is capture-free); its text is part of the `String` leaves.
  Additional decidable hypotheses as in C03c: groups numbered in the order of their opening parentheses,
  and `tblOK` (the nesting table of the pattern text agrees with the tree).
  NOT proved (as in C03c): that `analyze` always answers `.ok` (hypothesis of `analyze_groups3`). -/

/-- **one match**: in the state of a match `(j, n, e')`, `process_matching_substring` succeeds and
    returns exactly the group tree of `e'` -/
theorem analyze_match_groups3 (env : Env) (ctx : Ctx) (hI : InputOK env ctx) (op : Op)
    (hok : C03f.progOK3 env ctx.caseBlind ctx.multiLine ctx.hasBackrefs ctx.maxParens op = true)
    (hsorted : (capsOf op).Pairwise (· < ·)) (tbl : List (Nat × Nat)) (htbl : tblOK tbl op 0 = true)
    (input : List Nat) (hin : ctx.len = input.length)
    (j n : Nat) (e' : CEnv) (st' : St) (h : MatchRes3 ctx op j n e' st') (hjn : j < n) :
    processMatch tbl st' (slice input j n) = .ok (groupTree op input (j, n, e')) :=
  processMatch_matchRes3 env ctx op (.of_progOK3 hI hok) hsorted tbl htbl input hin j n e' st' h hjn

/-- **`analyze`**: the entries are the alternating non-match / match entries over the state-free span
    sequence, the match entry of `(j, n, e')` being the group tree of `e'`; the iterator is exhausted -/
theorem analyze_groups3 (env : Env) (r : Regex) (lower : Nat → Nat) (input : List Nat)
    (S : SearchOK3 env r.prog lower input) (hnull : r.nullable = false)
    (hsorted : (capsOf r.prog.op).Pairwise (· < ·)) (tbl : List (Nat × Nat))
    (htblE : (if r.prog.literal then some [] else nestingTable r.prog.pattern) = some tbl)
    (htbl : tblOK tbl r.prog.op 0 = true)
    (limit : Nat) (hl : 2 * input.length + 1 ≤ limit) (es : List AEntry) (more : Bool)
    (h : r.analyze lower input limit = .ok (es, more)) :
    es = Spec.entries input 0
      ((specSpans3 (r.prog.ctx lower input) r.prog.op (input.length + 2) 0).map
        (fun y => (y.1, y.2.1, groupTree r.prog.op input y))) ∧ more = false := by
  simp only [Regex.analyze, hnull, Bool.false_eq_true, if_false, htblE] at h
  obtain ⟨h1, h2⟩ := C04.analyze_spec (r.prog.matcher lower input) (fun st => st.panic = none) input
    (processMatch tbl) S.goodFind {} rfl limit hl es more h
  refine ⟨?_, h2⟩
  rw [h1]
  congr 1
  exact spansOf_map3 S (fun st j n => C04.entryD (processMatch tbl) st (slice input j n))
    (groupTree r.prog.op input)
    (fun j n e' st' hres hjn => by
      simp only [C04.entryD]
      rw [processMatch_matchRes3 env _ r.prog.op S.ok hsorted tbl htbl input rfl j n e' st' hres hjn])
    (input.length + 2) 0 {} rfl (Nat.zero_le _)

/-- reading the tree (1): the `String` leaves concatenate to the matched text -/
theorem groupTree_text3 (env : Env) (cb ml : Bool) (ctx : Ctx) (op : Op) (hs : straightCaps3 env cb ml op = true)
    (hnd : (capsOf op).Nodup)
    (input : List Nat) (hin : ctx.len = input.length) (j n : Nat) (e' : CEnv)
    (hj : j ≤ ctx.len) (h : PathR ctx op j CEnv.empty n e') :
    Spec.mTextL (groupTree op input (j, n, e')) = slice input j n := by
  have hb := PathR_bounds ctx op hj h
  have hw := forestOf_within3 env cb ml ctx e' j op hs j CEnv.empty n e' hj (Nat.le_refl _) h hnd (fun _ _ => rfl)
  rw [Nat.sub_self] at hw
  have hlen : (slice input j n).length = n - j := length_slice input j n (by rw [← hin]; exact hb.2)
  unfold groupTree
  rw [outF_text _ _ 0 (n - j) hw (by rw [hlen]; exact Nat.le_refl _), slice_slice input j n 0 (n - j) (by omega)]
  congr 1
  omega

/-- reading the tree (2): exactly one `Group` node for each group of the pattern, in the order of their
    opening parentheses, and none for any other number -/
theorem groupTree_groups3 (env : Env) (cb ml : Bool) (ctx : Ctx) (op : Op) (hs : straightCaps3 env cb ml op = true)
    (input : List Nat) (j n : Nat) (e' : CEnv) (hj : j ≤ ctx.len) (h : PathR ctx op j CEnv.empty n e') :
    mGrpsL (groupTree op input (j, n, e')) = capsOf op := by
  unfold groupTree
  rw [outF_grps]
  apply forestOf_grps3 env cb ml e' j op hs
  intro g hg
  obtain ⟨a, b, he, _⟩ := PathR_inside3 env cb ml ctx op hs j CEnv.empty n e' hj h g hg
  rw [he]; rfl

/-- reading the tree (3): for every parenthesised sub-expression `(g, c)` of the pattern, bound to
    `(a, b)` in `e'`, the tree has the node `Group g kids` where `kids` is again the group tree of the
    body `c` over `[a, b)`, and the leaves of that node concatenate to `input[a..b)` -/
theorem groupTree_node3 (env : Env) (cb ml : Bool) (ctx : Ctx) (op : Op) (hs : straightCaps3 env cb ml op = true)
    (hnd : (capsOf op).Nodup)
    (input : List Nat) (hin : ctx.len = input.length) (j n : Nat) (e' : CEnv)
    (hj : j ≤ ctx.len) (h : PathR ctx op j CEnv.empty n e') (g : Nat) (c : Op) (hm : (g, c) ∈ capNodes op) :
    ∃ a b, e' g = some (a, b) ∧ j ≤ a ∧ a ≤ b ∧ b ≤ n ∧
      subL (.group g (outF (slice input j n) (a - j) (b - j) (forestOf e' j c))) (groupTree op input (j, n, e')) ∧
      Spec.mTextL (outF (slice input j n) (a - j) (b - j) (forestOf e' j c)) = slice input a b := by
  have hb := PathR_bounds ctx op hj h
  obtain ⟨a, b, ea, eb, h1, h2, h3, h4, h5⟩ := PathR_capNodes3 env cb ml ctx op hs j CEnv.empty n e' hj hnd h g c hm
  obtain ⟨a2, b2, k1, _, k3, _⟩ := PathR_inside3 env cb ml ctx op hs j CEnv.empty n e' hj h g (capNodes_sub op g c hm).1
  rw [h1] at k1
  simp only [Option.some.injEq, Prod.mk.injEq] at k1
  obtain ⟨rfl, rfl⟩ := k1
  have hdom : ∀ k ∈ capsOf op, (e' k).isSome = true := by
    intro k hk
    obtain ⟨a', b', he, _⟩ := PathR_inside3 env cb ml ctx op hs j CEnv.empty n e' hj h k hk
    rw [he]; rfl
  have hnode := forestOf_node e' j op hdom g c a b hm h1
  have hsub := outF_sub (slice input j n) _ (forestOf e' j op) 0 (n - j) hnode
  have hsc := capNodes_straight3 env cb ml op hs g c hm
  have hndc : (capsOf c).Nodup := List.Nodup.sublist (capsOf_sublist op g c hm) hnd
  have hw := forestOf_within3 env cb ml ctx e' j c hsc a ea b eb (by omega) h2 h4 hndc (fun k hk => h5 k hk)
  have hlen : (slice input j n).length = n - j := length_slice input j n (by rw [← hin]; exact hb.2)
  refine ⟨a, b, h1, h2, k3, h3, ?_, ?_⟩
  · simpa only [outT, groupTree] using hsub
  · rw [outF_text _ _ (a - j) (b - j) hw (by rw [hlen]; omega), slice_slice input j n (a - j) (b - j) (by omega)]
    congr 1 <;> omega

/-! ## 3b. nesting, in terms of the path and of the reported state (cf. `C03b.groups_nested`,
    `C03b.matchAt_nested`; the `.rep` node binds no group and has no capture node) -/

/-- **nesting and text.**  On a path of a `straightCaps3` tree with distinct group numbers, for every
    capture node `(g, c)`: group `g` is bound to a span `(a, b)` inside the path, the text of the group
    is a match of its sub-expression (`OpR ctx c a b`), and every group `g'` that is syntactically inside
    `(g, c)` is bound to a span inside `(a, b)` -/
theorem groups_nested3 (env : Env) (cb ml : Bool) (ctx : Ctx) (op : Op) (hs : straightCaps3 env cb ml op = true)
    (hnd : (capsOf op).Nodup)
    (p q : Nat) (e e' : CEnv) (hp : p ≤ ctx.len) (h : PathR ctx op p e q e') (g : Nat) (c : Op)
    (hm : (g, c) ∈ capNodes op) :
    ∃ a b, e' g = some (a, b) ∧ p ≤ a ∧ a ≤ b ∧ b ≤ q ∧ OpR ctx c a b ∧
      ∀ g', g' ∈ capsOf c → ∃ a' b', e' g' = some (a', b') ∧ a ≤ a' ∧ a' ≤ b' ∧ b' ≤ b := by
  have hsc := capNodes_straight3 env cb ml op hs g c hm
  obtain ⟨a, b, ea, eb, h1, h2, h3, h4, h5⟩ := PathR_capNodes3 env cb ml ctx op hs p e q e' hp hnd h g c hm
  have hq := (PathR_bounds ctx op hp h).2
  have hb : a ≤ b ∧ b ≤ ctx.len := by
    obtain ⟨a2, b2, k1, _, k3, _⟩ := PathR_inside3 env cb ml ctx op hs p e q e' hp h g (capNodes_sub op g c hm).1
    rw [h1] at k1
    simp only [Option.some.injEq, Prod.mk.injEq] at k1
    omega
  have ha : a ≤ ctx.len := by omega
  refine ⟨a, b, h1, h2, hb.1, h3, PathR_OpR ctx c a ea b eb ha h4, fun g' hg' => ?_⟩
  obtain ⟨a', b', k1, k2, k3, k4⟩ := PathR_inside3 env cb ml ctx c hsc a ea b eb ha h4 g' hg'
  exact ⟨a', b', by rw [h5 g' hg']; exact k1, k2, k3, k4⟩

/-- **C03 on the enlarged fragment, in terms of the reported state only.**  After a successful
    `match_at(i)`: group 0 is `(i, n)`; for every parenthesised sub-expression `(g, c)` of the pattern the
    reported span of group `g` is `(a, b)` with `i ≤ a ≤ b ≤ n`, the text `[a, b)` is a match of `c`, and
    the reported span of every group nested inside it lies inside `(a, b)` -/
theorem matchAt_nested3 (env : Env) (ctx : Ctx) (hI : InputOK env ctx) (op : Op)
    (hok : C03f.progOK3 env ctx.caseBlind ctx.multiLine ctx.hasBackrefs ctx.maxParens op = true)
    (i : Nat) (hi : i ≤ ctx.len) (st0 st' : St) (h0 : CapsClear op st0) (hp0 : st0.panic = none)
    (h : matchAt ctx op i st0 = (true, st')) :
    ∃ n, getParenStart st' 0 = some i ∧ getParenEnd st' 0 = some n ∧ i ≤ n ∧ n ≤ ctx.len ∧
      ∀ g c, (g, c) ∈ capNodes op →
        ∃ a b, getParenStart st' g = some a ∧ getParenEnd st' g = some b ∧ i ≤ a ∧ a ≤ b ∧ b ≤ n ∧
          OpR ctx c a b ∧
          ∀ g', g' ∈ capsOf c → ∃ a' b', getParenStart st' g' = some a' ∧ getParenEnd st' g' = some b' ∧
            a ≤ a' ∧ a' ≤ b' ∧ b' ≤ b := by
  have H : StraightOK3 env ctx op := .of_progOK3 hI hok
  obtain ⟨n, e', hpath, _, h1, h2, h3, h4, hrep, _, _⟩ :=
    C03f.matchAt_caps3 env ctx hI op H.straight H.wf H.noEmpty H.canonB H.capsPos H.scope i hi st0 st' h0 hp0 h
  refine ⟨n, h1, h2, h3, h4, fun g c hm => ?_⟩
  have hsub := capNodes_sub op g c hm
  obtain ⟨a, b, k1, k2, k3, k4, k5, k6⟩ := groups_nested3 env _ _ ctx op H.straight H.nodup i n _ e' hi hpath g c hm
  have hg := C03b.matchAt_groups hrep g (C03b.capsPos_capsOf op H.capsPos g hsub.1)
  rw [k1] at hg
  refine ⟨a, b, hg.1, hg.2, k2, k3, k4, k5, fun g' hg' => ?_⟩
  obtain ⟨a', b', j1, j2, j3, j4⟩ := k6 g' hg'
  have hg2 := C03b.matchAt_groups hrep g' (C03b.capsPos_capsOf op H.capsPos g' (hsub.2 g' hg'))
  rw [j1] at hg2
  exact ⟨a', b', hg2.1, hg2.2, j2, j3, j4⟩

/-- the same through the search loop: in the state `matches(i)` leaves, every parenthesised sub-expression
    `(g, c)` reports a span `(a, b)` inside the match `(j, n)`, its text a match of `c`, and every group
    nested inside reports a span inside `(a, b)` -/
theorem matchesFrom_nested3 (env : Env) (pr : Prog) (lower : Nat → Nat) (input : List Nat)
    (S : SearchOK3 env pr lower input)
    (i : Nat) (hi : i ≤ input.length) (st st' : St) (hst : st.panic = none)
    (h : matchesFrom (pr.ctx lower input) pr i st = (true, st')) :
    ∃ j n, getParenStart st' 0 = some j ∧ getParenEnd st' 0 = some n ∧ i ≤ j ∧ j < n ∧ n ≤ input.length ∧
      ∀ g c, (g, c) ∈ capNodes pr.op →
        ∃ a b, getParenStart st' g = some a ∧ getParenEnd st' g = some b ∧ j ≤ a ∧ a ≤ b ∧ b ≤ n ∧
          OpR (pr.ctx lower input) c a b ∧
          ∀ g', g' ∈ capsOf c → ∃ a' b', getParenStart st' g' = some a' ∧ getParenEnd st' g' = some b' ∧
            a ≤ a' ∧ a' ≤ b' ∧ b' ≤ b := by
  obtain ⟨j, n, e', h1, h2, h3, hpath, _, _, h4, h5, hrep, _, _, _, _⟩ :=
    matchesFrom_caps3 env pr lower input S i hi st st' hst h
  have H := S.ok
  have hj : j ≤ (pr.ctx lower input).len := by show j ≤ input.length; omega
  refine ⟨j, n, h4, h5, h1, h2, h3, fun g c hm => ?_⟩
  have hsub := capNodes_sub pr.op g c hm
  obtain ⟨a, b, k1, k2, k3, k4, k5, k6⟩ :=
    groups_nested3 env _ _ _ pr.op H.straight H.nodup j n _ e' hj hpath g c hm
  have hg := C03b.matchAt_groups hrep g (C03b.capsPos_capsOf pr.op H.capsPos g hsub.1)
  rw [k1] at hg
  refine ⟨a, b, hg.1, hg.2, k2, k3, k4, k5, fun g' hg' => ?_⟩
  obtain ⟨a', b', j1, j2, j3, j4⟩ := k6 g' hg'
  have hg2 := C03b.matchAt_groups hrep g' (C03b.capsPos_capsOf pr.op H.capsPos g' (hsub.2 g' hg'))
  rw [j1] at hg2
  exact ⟨a', b', hg2.1, hg2.2, j2, j3, j4⟩

/-! ## 4. examples -/
section examples

private def env0 : Env :=
  { lower := id, closure := fun _ => [], category := fun _ => none, block := fun _ => none,
    digit := [], word := [], nameStart := [], nameChar := [] }

/-- `(a+)(?:bc|d)+?\1` -/
private def pat1 : List Nat := [40, 97, 43, 41, 40, 63, 58, 98, 99, 124, 100, 41, 43, 63, 92, 49]
private def t1 : Op :=
  .seq [.capture 1 (.gfixed (.atom [97]) 1 usizeMax 1),
        .rep 1 (.choice [.atom [98, 99], .atom [100]]) 1 usizeMax false, .backref 1, .endProgram]
def exProg1 : Prog := mkProgram pat1 t1 2 {} true
def exRegex1 : Regex := { prog := exProg1, nullable := false }

/-- this is the regex `Regex::new` builds from the pattern text -/
example : (match Regex.new env0 pat1 [] false with
    | .ok r => progEq r.prog exProg1 && (r.nullable == false)
    | _ => false) = true := by decide +kernel

theorem ex1_searchOK (input : List Nat) (hlen : input.length < usizeMax)
    (h1 : ∀ c ∈ input, c < cpLimit) (h2 : ∀ c ∈ input, isSurrogate c = false) :
    SearchOK3 env0 exProg1 id input :=
  searchOK3_of_mkProgram env0 pat1 t1 2 {} true id input
    (.of_caseSensitive (show (mkProgram pat1 t1 2 {} true).caseBlind = false by decide +kernel)
      (fun _ _ h => by cases h) h1 h2)
    (by decide) (by decide) hlen (by decide +kernel)
    (by
      have h : (mkProgram pat1 t1 2 {} true).pres.all
          (fun q => SearchComplete.preShape q.op && C06.simplePre q.op) = true := by decide +kernel
      intro q hq
      have := List.all_eq_true.1 h q hq
      simpa only [Bool.and_eq_true] using this)
    (by decide +kernel)

/-- the program-side hypothesis of `matchAt_cases3` / `matchAt_nested3` / `analyze_match_groups3` holds -/
example : C03f.progOK3 env0 exProg1.caseBlind exProg1.multiLine exProg1.hasBackrefs exProg1.maxParens
    exProg1.op = true := by decide +kernel

/-- "xaabcdaay-adaz", replacement `[$1]` -/
private def in1 : List Nat := [120, 97, 97, 98, 99, 100, 97, 97, 121, 45, 97, 100, 97, 122]
private def repl1 : List Nat := [91, 36, 49, 93]

/-- the hypotheses of `matchesFrom_caps3` are satisfiable … -/
example : SearchOK3 env0 exProg1 id in1 := ex1_searchOK in1 (by decide) (by decide) (by decide)
/-- … and `matches(0)` does succeed on this input (from position 1, ending at 8, group 1 = `aa`) -/
example : (let r := matchesFrom (exProg1.ctx id in1) exProg1 0 {}
    (r.1, getParenStart r.2 0, getParenEnd r.2 0, getParenStart r.2 1, getParenEnd r.2 1)) =
    (true, some 1, some 8, some 1, some 3) := by decide +kernel

/-- the theorem applied … -/
theorem ex1_replace :
    exRegex1.replaceAll id in1 repl1 =
      .ok (Spec.replaced in1 0
        ((specSpans3 (exProg1.ctx id in1) exProg1.op (in1.length + 2) 0).map
          (fun x => (x.1, x.2.1, replText exProg1 in1 repl1 x)))) :=
  replace_groups3 env0 exRegex1 id in1 repl1 (ex1_searchOK in1 (by decide) (by decide) (by decide)) rfl
    (by decide) (by decide) (by decide)

/-- … the span sequence it talks about: `aabcdaa` at 1 with `$1 = aa` (the reluctant repeat took TWO
    iterations), and `ada` at 10 with `$1 = a` … -/
example : (specSpans3 (exProg1.ctx id in1) exProg1.op (in1.length + 2) 0).map
    (fun x => (x.1, x.2.1, x.2.2 1)) = [(1, 8, some (1, 3)), (10, 13, some (10, 11))] := by decide +kernel
/-- … the described result `x[aa]y-[a]z` … -/
example : Spec.replaced in1 0
    ((specSpans3 (exProg1.ctx id in1) exProg1.op (in1.length + 2) 0).map
      (fun x => (x.1, x.2.1, replText exProg1 in1 repl1 x))) =
    [120, 91, 97, 97, 93, 121, 45, 91, 97, 93, 122] := by decide +kernel
/-- … and the computed answer of the model -/
example : exRegex1.replaceAll id in1 repl1 = .ok [120, 91, 97, 97, 93, 121, 45, 91, 97, 93, 122] := by
  decide +kernel

/-! `analyze` on the same regex and input: `x`, match `aabcdaa`, `y-`, match `ada`, `z` -/

private def expect1 : List AEntry :=
  [.nonMatch [120],
   .isMatch [.group 1 [.str [97, 97]], .str [98, 99, 100, 97, 97]],
   .nonMatch [121, 45],
   .isMatch [.group 1 [.str [97]], .str [100, 97]],
   .nonMatch [122]]

/-- the theorem applied: whatever `analyze` answers with `.ok` is the described entry list -/
theorem ex1_analyze (es : List AEntry) (more : Bool) (h : exRegex1.analyze id in1 100 = .ok (es, more)) :
    es = Spec.entries in1 0
      ((specSpans3 (exProg1.ctx id in1) exProg1.op (in1.length + 2) 0).map
        (fun y => (y.1, y.2.1, groupTree exProg1.op in1 y))) ∧ more = false :=
  analyze_groups3 env0 exRegex1 id in1 (ex1_searchOK in1 (by decide) (by decide) (by decide)) rfl
    (by decide +kernel) [(1, 0)] (by decide +kernel) (by decide +kernel) 100 (by decide) es more h

/-- the described entry list, computed … -/
example : aEqL (Spec.entries in1 0
    ((specSpans3 (exProg1.ctx id in1) exProg1.op (in1.length + 2) 0).map
      (fun y => (y.1, y.2.1, groupTree exProg1.op in1 y)))) expect1 = true := by decide +kernel
/-- … and the computed answer of the model -/
example : (match exRegex1.analyze id in1 100 with
    | .ok (es, more) => aEqL es expect1 && !more
    | _ => false) = true := by decide +kernel

/-- `matchesFrom_nested3` applied: the hypotheses hold and `matches(0)` succeeds (computed above) -/
example (st' : St) (h : matchesFrom (exProg1.ctx id in1) exProg1 0 {} = (true, st')) :
    ∃ j n, getParenStart st' 0 = some j ∧ getParenEnd st' 0 = some n ∧ 0 ≤ j ∧ j < n ∧ n ≤ in1.length ∧
      ∀ g c, (g, c) ∈ capNodes exProg1.op →
        ∃ a b, getParenStart st' g = some a ∧ getParenEnd st' g = some b ∧ j ≤ a ∧ a ≤ b ∧ b ≤ n ∧
          OpR (exProg1.ctx id in1) c a b ∧
          ∀ g', g' ∈ capsOf c → ∃ a' b', getParenStart st' g' = some a' ∧ getParenEnd st' g' = some b' ∧
            a ≤ a' ∧ a' ≤ b' ∧ b' ≤ b :=
  matchesFrom_nested3 env0 exProg1 id in1 (ex1_searchOK in1 (by decide) (by decide) (by decide)) 0
    (by decide) {} st' rfl h
/-- the tree of the example has one capture node (group 1, body `a+`) next to the repeat -/
example : (capNodes exProg1.op).map (·.1) = [1] ∧ capsOf exProg1.op = [1] := by decide +kernel

/-! `((a)b)(?:c|de)+\2\1` on "abcdeaab": NESTED groups followed by a greedy variable-length repeat -/

private def pat2 : List Nat := [40, 40, 97, 41, 98, 41, 40, 63, 58, 99, 124, 100, 101, 41, 43, 92, 50, 92, 49]
private def t2 : Op :=
  .seq [.capture 1 (.seq [.capture 2 (.atom [97]), .atom [98]]),
        .rep 1 (.choice [.atom [99], .atom [100, 101]]) 1 usizeMax true, .backref 2, .backref 1, .endProgram]
def exProg2 : Prog := mkProgram pat2 t2 3 {} true
def exRegex2 : Regex := { prog := exProg2, nullable := false }

example : (match Regex.new env0 pat2 [] false with
    | .ok r => progEq r.prog exProg2 && (r.nullable == false)
    | _ => false) = true := by decide +kernel

theorem ex2_searchOK (input : List Nat) (hlen : input.length < usizeMax)
    (h1 : ∀ c ∈ input, c < cpLimit) (h2 : ∀ c ∈ input, isSurrogate c = false) :
    SearchOK3 env0 exProg2 id input :=
  searchOK3_of_mkProgram env0 pat2 t2 3 {} true id input
    (.of_caseSensitive (show (mkProgram pat2 t2 3 {} true).caseBlind = false by decide +kernel)
      (fun _ _ h => by cases h) h1 h2)
    (by decide) (by decide) hlen (by decide +kernel)
    (by
      have h : (mkProgram pat2 t2 3 {} true).pres.all
          (fun q => SearchComplete.preShape q.op && C06.simplePre q.op) = true := by decide +kernel
      intro q hq
      have := List.all_eq_true.1 h q hq
      simpa only [Bool.and_eq_true] using this)
    (by decide +kernel)

private def in2 : List Nat := [97, 98, 99, 100, 101, 97, 97, 98]      -- "abcdeaab"

private def expect2 : List AEntry :=
  [.isMatch [.group 1 [.group 2 [.str [97]], .str [98]], .str [99, 100, 101, 97, 97, 98]]]

theorem ex2_analyze (es : List AEntry) (more : Bool) (h : exRegex2.analyze id in2 100 = .ok (es, more)) :
    es = Spec.entries in2 0
      ((specSpans3 (exProg2.ctx id in2) exProg2.op (in2.length + 2) 0).map
        (fun y => (y.1, y.2.1, groupTree exProg2.op in2 y))) ∧ more = false :=
  analyze_groups3 env0 exRegex2 id in2 (ex2_searchOK in2 (by decide) (by decide) (by decide)) rfl
    (by decide +kernel) [(2, 1), (1, 0)] (by decide +kernel) (by decide +kernel) 100 (by decide) es more h

example : aEqL (Spec.entries in2 0
    ((specSpans3 (exProg2.ctx id in2) exProg2.op (in2.length + 2) 0).map
      (fun y => (y.1, y.2.1, groupTree exProg2.op in2 y)))) expect2 = true := by decide +kernel
example : (match exRegex2.analyze id in2 100 with
    | .ok (es, more) => aEqL es expect2 && !more
    | _ => false) = true := by decide +kernel

end examples

end Rx.C03g
