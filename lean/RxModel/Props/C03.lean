/-
  Props/C03 — captured groups (the part that is a theorem about E): the analyze tree builder
  keeps the text, the group events are processed without panics when the capture state is
  well-nested, groups are numbered by their opening parenthesis.  That the capture *state* the
  engine leaves is the one of the selected match path is false of the pinned tree in the listed
  findings (K5, K6) and is otherwise decided by correspondence + the ordered reference.

  `stackText` (the text held by a handler stack, outermost group first) is defined, unchanged, in
  `Proofs/AnalyzeLemmas` (same namespace) because the helper lemmas need it.
-/
import RxModel.Model.Compile
import RxModel.Spec.Pieces
import RxModel.Proofs.AnalyzeLemmas
namespace Rx.C03
open Rx Rx.Spec

/-- pushing characters adds exactly those characters -/
theorem hChars_text (stk stk' : HStack) (s : List Nat) (h : hChars stk s = some stk') :
    stackText stk' = stackText stk ++ s :=
  hChars_text' stk stk' s h

/-- group start / end events move entries between levels but keep the text -/
theorem hEvents_text (evs : List Ev) (stk stk' : HStack) (h : hEvents evs stk = some stk') :
    stackText stk' = stackText stk :=
  hEvents_text' evs stk stk' h

/-- the walk over the matched substring emits every character exactly once, in order -/
theorem walk_text (acts : Actions) (rest : List Nat) (i : Nat) (buf : Option (List Nat)) (stk stk' : HStack)
    (h : walk acts rest i buf stk = some stk') :
    stackText stk' = stackText stk ++ buf.getD [] ++ rest :=
  walk_text' acts rest i buf stk stk' h

/-- hence: when every group that was opened inside the match is closed inside it, the String leaves
    of the Match entry concatenate to the matched substring -/
theorem processMatch_text (tbl : List (Nat × Nat)) (st : St) (cur : List Nat) (es : List MEntry)
    (acts : Actions) (start0 : Nat)
    (hpc : st.cap.parenCount ≠ 0) (hc : st.cap.parenCount - 1 ≠ 0)
    (hs0 : getParenStart st 0 = some start0)
    (hacts : buildActions st tbl start0 (st.cap.parenCount - 1) 1 [] = some acts)
    (hclosed : ∃ nr, walk acts cur 0 none [(0, [])] = some [(nr, es)]) :
    processMatch tbl st cur = .ok es ∧ mTextL es = cur := by
  obtain ⟨nr, hw⟩ := hclosed
  refine ⟨?_, ?_⟩
  · unfold processMatch
    simp [hpc, hc, hs0, hacts, hw]
  · have := walk_text' acts cur 0 none [(0, [])] [(nr, es)] hw
    simpa [stackText_cons, stackText_nil, mTextL_nil] using this

/-- without groups the Match entry is the matched text -/
theorem processMatch_plain (tbl : List (Nat × Nat)) (st : St) (cur : List Nat) (h : st.cap.parenCount = 1) :
    processMatch tbl st cur = .ok [.str cur] := by
  unfold processMatch
  simp [h]

/-- groups are numbered by their opening parenthesis: a capturing group opened when `n` groups
    (incl. group 0) have been opened so far is group `n`, and inner groups get larger numbers -/
theorem group_numbering (c : PC) (f : Nat) (s s' : PS) (op : Op)
    (hopen : c.at s.idx = 40)
    (hcap : ¬ (s.idx + 2 < c.len ∧ c.at (s.idx + 1) = 63 ∧ c.at (s.idx + 2) = 58))
    (h : parseExpr c (f + 1) s false = .ok op s') :
    ∃ body, op = .capture s.parens body ∧ s.parens < s'.parens ∧ s.parens ∈ s'.captures :=
  group_numbering' c f s s' op hopen hcap h

/-- the nesting table maps every group to a smaller group number (its enclosing group, 0 = none) -/
theorem nesting_parent_lt (pat : List Nat) (tbl : List (Nat × Nat)) (h : nestingTable pat = some tbl) :
    ∀ g p, (g, p) ∈ tbl → p < g :=
  nestingGo_inv pat pat.length (pat.length + 1) 0 [0] [] 1 0 [] tbl (Nat.le_refl 1)
    (by intro x hx; simp at hx; omega) (by intro g p hgp; cases hgp) h

example : nestingTable [40, 97, 40, 98, 41, 41, 40, 99, 41] = some [(3, 0), (2, 1), (1, 0)] := by decide

end Rx.C03
