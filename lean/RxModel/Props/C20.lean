/-
  Props/C20 — equivalent spellings of a pattern behave identically.

  The laws of regular-expression algebra, as theorems about the compositional language `OpR` of
  compiled trees (so they hold whatever iterator implements a repeat), plus the spellings the
  compiler itself identifies (`r{1}` is `r`, `r{0}` is nothing).  That the *engine* agrees on both
  spellings (completeness) is decided by correspondence + oracle; known deviations are catalogued.
-/
import RxModel.Spec.OpLang
import RxModel.Model.Parser
import RxModel.Props.C09
import RxModel.Proofs.LawLemmas
namespace Rx.C20
open Rx

abbrev R (ctx : Ctx) (c : Op) : Nat → Nat → Prop := fun a b => OpR ctx c a b

/-- `IterR` composes: m-fold then n-fold is (m+n)-fold -/
theorem iter_add (Rel : Nat → Nat → Prop) (m n p q r : Nat) (h1 : IterR Rel m p q) (h2 : IterR Rel n q r) :
    IterR Rel (m + n) p r := IterR.add h1 h2

theorem iter_split (Rel : Nat → Nat → Prop) (m n p r : Nat) (h : IterR Rel (m + n) p r) :
    ∃ q, IterR Rel m p q ∧ IterR Rel n q r := IterR.split m n h

/-- `r{1}` = r -/
theorem rep_one (ctx : Ctx) (id : Nat) (c : Op) (g : Bool) (p q : Nat) :
    OpR ctx (.rep id c 1 1 g) p q ↔ OpR ctx c p q := by
  simp only [OpR]
  constructor
  · rintro ⟨k, h1, h2, h⟩
    obtain rfl : k = 1 := by omega
    exact IterR.one_iff.1 h
  · intro h; exact ⟨1, Nat.le_refl _, Nat.le_refl _, IterR.single h⟩

/-- `r{0}` = empty -/
theorem rep_zero (ctx : Ctx) (id : Nat) (c : Op) (g : Bool) (p q : Nat) :
    OpR ctx (.rep id c 0 0 g) p q ↔ q = p := by
  simp only [OpR]
  constructor
  · rintro ⟨k, h1, h2, h⟩
    obtain rfl : k = 0 := by omega
    exact IterR.zero_iff.1 h
  · intro h; exact ⟨0, Nat.le_refl _, Nat.le_refl _, IterR.zero_iff.2 h⟩

/-- `r{n,m}` = n copies of r followed by at most m-n copies (`(?:r)?` each) -/
theorem rep_range (ctx : Ctx) (id : Nat) (c : Op) (g : Bool) (n m : Nat) (hnm : n ≤ m) (p q : Nat) :
    OpR ctx (.rep id c n m g) p q ↔
      ∃ mid, IterR (R ctx c) n p mid ∧ ∃ k, k ≤ m - n ∧ IterR (R ctx c) k mid q := by
  simp only [OpR]
  constructor
  · rintro ⟨k, h1, h2, h⟩
    obtain ⟨j, rfl⟩ : ∃ j, k = n + j := ⟨k - n, by omega⟩
    obtain ⟨mid, ha, hb⟩ := IterR.split n j h
    exact ⟨mid, ha, j, by omega, hb⟩
  · rintro ⟨mid, ha, k, hk, hb⟩
    exact ⟨n + k, by omega, by omega, IterR.add ha hb⟩

/-- `r{n,n+m}` = `r{n}` followed by `r{0,m}` (with m = ∞ this is `r{n,}` = n copies then `r*`) -/
theorem rep_concat (ctx : Ctx) (id id2 id3 : Nat) (c : Op) (g g2 g3 : Bool) (n m : Nat) (p q : Nat) :
    OpR ctx (.rep id c n (n + m) g) p q ↔ OpR ctx (.seq [.rep id2 c n n g2, .rep id3 c 0 m g3]) p q := by
  simp only [OpR, OpRSeq]
  constructor
  · rintro ⟨k, h1, h2, h⟩
    obtain ⟨j, rfl⟩ : ∃ j, k = n + j := ⟨k - n, by omega⟩
    obtain ⟨mid, ha, hb⟩ := IterR.split n j h
    exact ⟨mid, ⟨n, Nat.le_refl _, Nat.le_refl _, ha⟩, q, ⟨j, Nat.zero_le _, by omega, hb⟩, rfl⟩
  · rintro ⟨mid, ⟨k, hk1, hk2, ha⟩, q', ⟨j, _, hj, hb⟩, rfl⟩
    obtain rfl : k = n := by omega
    exact ⟨k + j, by omega, by omega, IterR.add ha hb⟩

/-- `r+` = `r r*` -/
theorem rep_plus (ctx : Ctx) (id id2 : Nat) (c : Op) (g g2 : Bool) (mx : Nat) (hmx : 1 ≤ mx) (p q : Nat) :
    OpR ctx (.rep id c 1 mx g) p q ↔ OpR ctx (.seq [c, .rep id2 c 0 (mx - 1) g2]) p q := by
  simp only [OpR, OpRSeq]
  constructor
  · rintro ⟨k, h1, h2, h⟩
    obtain ⟨j, rfl⟩ : ∃ j, k = j + 1 := ⟨k - 1, by omega⟩
    obtain ⟨mid, ha, hb⟩ := IterR.uncons h
    exact ⟨mid, ha, q, ⟨j, Nat.zero_le _, by omega, hb⟩, rfl⟩
  · rintro ⟨mid, ha, q', ⟨j, _, hj, hb⟩, rfl⟩
    exact ⟨j + 1, by omega, by omega, IterR.cons ha hb⟩

/-- `r|r` = r -/
theorem alt_idem (ctx : Ctx) (c : Op) (p q : Nat) : OpR ctx (.choice [c, c]) p q ↔ OpR ctx c p q := by
  simp only [OpR, OpRAny, or_false, or_self]

/-- `(?:r|s)t` = `rt|st` -/
theorem alt_distrib (ctx : Ctx) (r s t : Op) (p q : Nat) :
    OpR ctx (.seq [.choice [r, s], t]) p q ↔ OpR ctx (.choice [.seq [r, t], .seq [s, t]]) p q := by
  simp only [OpR, OpRAny, OpRSeq, or_false]
  constructor
  · rintro ⟨m, h | h, ht⟩
    · exact Or.inl ⟨m, h, ht⟩
    · exact Or.inr ⟨m, h, ht⟩
  · rintro (⟨m, h, ht⟩ | ⟨m, h, ht⟩)
    · exact ⟨m, Or.inl h, ht⟩
    · exact ⟨m, Or.inr h, ht⟩

/-- a capturing group denotes the same language as the non-capturing one -/
theorem capture_transparent (ctx : Ctx) (g : Nat) (c : Op) (p q : Nat) :
    OpR ctx (.capture g c) p q ↔ OpR ctx c p q := by
  simp only [OpR]

/-- a one-element sequence is its element: wrapping in `(?:…)` changes nothing -/
theorem seq_singleton (ctx : Ctx) (c : Op) (p q : Nat) : OpR ctx (.seq [c]) p q ↔ OpR ctx c p q := by
  simp only [OpR, OpRSeq]
  constructor
  · rintro ⟨m, h, rfl⟩; exact h
  · intro h; exact ⟨q, h, rfl⟩

/-- all four repetition operators denote the same language -/
theorem rep_kinds_agree (ctx : Ctx) (id : Nat) (c : Op) (mn mx len : Nat) (g : Bool) (p q : Nat) :
    (OpR ctx (.rep id c mn mx g) p q ↔ OpR ctx (.gfixed c mn mx len) p q) ∧
    (OpR ctx (.gfixed c mn mx len) p q ↔ OpR ctx (.rfixed c mn mx len) p q) ∧
    (OpR ctx (.rfixed c mn mx len) p q ↔ OpR ctx (.unamb c mn mx) p q) := by
  refine ⟨?_, ?_, ?_⟩ <;> simp only [OpR]

/-- `[xy]` = `(?:x|y)` -/
theorem class_union (ctx : Ctx) (a b : Ranges) (ha : C09.Canon a) (hb : C09.Canon b) (p q : Nat) :
    OpR ctx (.cls (unionR a b)) p q ↔ OpR ctx (.choice [.cls a, .cls b]) p q := by
  simp only [OpR, OpRAny, or_false, C09.contains_unionR a b ha hb, Bool.or_eq_true]
  constructor
  · rintro ⟨rfl, x, hx, h | h⟩
    · exact Or.inl ⟨rfl, x, hx, h⟩
    · exact Or.inr ⟨rfl, x, hx, h⟩
  · rintro (⟨rfl, x, hx, h⟩ | ⟨rfl, x, hx, h⟩)
    · exact ⟨rfl, x, hx, Or.inl h⟩
    · exact ⟨rfl, x, hx, Or.inr h⟩

/-- `x` = `[x]` (case-sensitive matching) -/
theorem class_single (ctx : Ctx) (hcb : ctx.caseBlind = false) (x : Nat) (p q : Nat) :
    OpR ctx (.cls (addChar x [])) p q ↔ OpR ctx (.atom [x]) p q := by
  simp only [OpR, List.length_cons, List.length_nil, Nat.zero_add, Ctx.len]
  have hc : ∀ c, clsContains (addChar x []) c = decide (c = x) := by
    intro c; rw [C09.contains_addChar [] trivial x c]; simp [clsContains]
  cases hp : ctx.input[p]? with
  | none =>
    have : ctx.input.length ≤ p := List.getElem?_eq_none_iff.1 hp
    constructor
    · rintro ⟨_, c, hc', _⟩; cases hc'
    · rintro ⟨rfl, hle, _⟩; omega
  | some y =>
    obtain ⟨hlt, hy⟩ := List.getElem?_eq_some_iff.1 hp
    have h2 : prefixMatch ctx [x] (List.drop p ctx.input) = (y == x) := by
      rw [List.drop_eq_getElem_cons hlt, hy]
      simp [prefixMatch, Ctx.eqAt, hcb]
    rw [h2]
    constructor
    · rintro ⟨rfl, c, hc', hcc⟩
      cases hc'
      rw [hc] at hcc
      exact ⟨rfl, by omega, by simpa using hcc⟩
    · rintro ⟨rfl, _, hyx⟩
      exact ⟨rfl, y, rfl, by rw [hc]; simpa using hyx⟩

/-! the spellings the compiler itself identifies -/

/-- `r{1}` compiles to `r` itself -/
theorem compile_rep_one (c : PC) (ret : Op) (s : PS) (rest : List Nat)
    (hpat : c.pat.drop s.idx = 123 :: 49 :: 125 :: rest)
    (hnr : rest.head? ≠ some 63) (hna : isAnchor ret = false) (hnz : mzs ret ≠ ZLS_ANYWHERE) :
    ∃ s', pieceQuant c ret s = .ok ret s' ∧ s'.idx = s.idx + 3 := by
  obtain ⟨hlt, hq, hb, hr⟩ := bracket_one_digit c s 49 rest (by decide) (by decide) hpat hnr
  exact ⟨_, pieceQuant_brace_one c ret s _ hlt hq hb rfl rfl hr hna hnz, rfl⟩

/-- `r{0}` compiles to nothing -/
theorem compile_rep_zero (c : PC) (ret : Op) (s : PS) (rest : List Nat)
    (hpat : c.pat.drop s.idx = 123 :: 48 :: 125 :: rest)
    (hnr : rest.head? ≠ some 63) (hnz : mzs ret ≠ ZLS_ANYWHERE) :
    ∃ s', pieceQuant c ret s = .ok .nothing s' ∧ s'.idx = s.idx + 3 := by
  obtain ⟨hlt, hq, hb, hr⟩ := bracket_one_digit c s 48 rest (by decide) (by decide) hpat hnr
  exact ⟨_, pieceQuant_brace_zero c ret s _ hlt hq hb rfl rfl hr hnz, rfl⟩

end Rx.C20
