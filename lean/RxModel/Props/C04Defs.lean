/-
  Props/C04Defs — the definitions used by the C04 statements (moved here unchanged from
  Props/C04 so that the helper lemmas in Proofs/ScanLemmas can refer to them).
-/
import RxModel.Spec.Pieces
namespace Rx.C04
open Rx Rx.Spec

variable {σ : Type}

/-- the hypothesis on the matcher: while it does not fail, a successful `find st pos` reports a
    span `pos ≤ a < b ≤ len`, and the invariant `Inv` on its internal state is kept -/
structure GoodFind (M : MatcherI σ) (len : Nat) (Inv : σ → Prop) : Prop where
  step : ∀ st pos st' m, Inv st → pos ≤ len → M.find st pos = (m, st') → M.failed st' = none →
    Inv st' ∧ (m = true → ∃ a b, M.start0 st' = some a ∧ M.end0 st' = some b ∧ pos ≤ a ∧ a < b ∧ b ≤ len)

/-- the sequence of spans (with the matcher state after each) obtained by searching from `pos`,
    then from the end of each match -/
def spansOf (M : MatcherI σ) (len : Nat) : (fuel : Nat) → Nat → σ → List (Nat × Nat × σ)
  | 0, _, _ => []
  | f+1, pos, st =>
    if pos < len then
      match M.find st pos with
      | (true, st') =>
        match M.start0 st', M.end0 st' with
        | some a, some b => (a, b, st') :: spansOf M len f b st'
        | _, _ => []
      | (false, _) => []
    else []

def spanPairs (l : List (Nat × Nat × σ)) : List (Nat × Nat) := l.map (fun x => (x.1, x.2.1))

end Rx.C04

namespace Rx.C04
open Rx Rx.Spec
variable {σ : Type}

/-- default-valued view of `entry` (all calls on a run that ends in `.ok` returned `.ok`) -/
def entryD (entry : σ → List Nat → Out (List MEntry)) (st : σ) (t : List Nat) : List MEntry :=
  match entry st t with
  | .ok es => es
  | _ => []

/-! ### the span sequence is strictly left to right, non-empty, inside the input -/

/-- spans `(a, b)` listed left to right from `pos`: `pos ≤ a < b ≤ len`, next one starts at or after `b` -/
def Ordered (len : Nat) : Nat → List (Nat × Nat) → Prop
  | _, [] => True
  | pos, (a, b) :: rest => pos ≤ a ∧ a < b ∧ b ≤ len ∧ Ordered len b rest

end Rx.C04
