/-
  Props/SearchComplete — the search loop of `ReMatcher::matches` loses no match and invents none:
  COMPLETENESS of the whole loop (five shortcuts included), PARAMETRISED over completeness of the
  per-position engine test.

  C01 proves soundness (`is_match = true` ⇒ some substring is in the language `OpR`), C08/C08b/C08c
  prove of each shortcut that it "skips no member" of `OpR`.  Here the two are connected through
  the loop itself: for every program whose engine test decides membership at each start
  (`CompleteAt`, to be instantiated on any fragment for which the iterators are proved complete)

      matches(i) = true   ⇔   some start j ≥ i has a match,   and the start reported is the LEAST,

  on every branch of `matchesFrom` (start anchor in single-line and multi-line mode, minimum length, literal
  prefix, initial class, preconditions + plain scan); `is_match` is `.ok` of that Boolean; and the
  search with shortcuts agrees with the search without (`matchesNaive`, `mkBareProgram`) — property
  C08 "optimisations never change a result" as a theorem on that class of programs.

  The definitions `CompleteAt`, `Quiet`, `QuietAll`, `SearchFacts`, `Outcome` are in
  Proofs/SearchLemmas (namespace `Rx.SearchComplete`), because the helper lemmas need them:

    CompleteAt ctx o :  ∀ j ≤ len, ∀ st with clear panic marker,
                          (first1 (sem ctx o j st)).1.isSome ↔ ∃ q, OpR ctx o j q
    Quiet ctx o      :  … sem ctx o j st ≠ .diverge  and the state handed on has a clear marker
                        (from C05 + C06: `quiet_of_wf`;  `QuietAll`: at every start, for
                        precondition trees: `quietAll_of_simplePre`)

  `match_at`, `preHolds`, `findFrom` all test exactly "the stream is a `cons`"; `match_at` first
  re-initialises the capture state — covered by quantifying over every state.  The marker has to be
  CLEAR (not merely "no real panic", `C05.NoPanic`): with the divergence marker set the loops stop
  at the first failing candidate.

  No shortcut loses a match in the model: nothing had to be excluded.  Side conditions beyond the
  requested ones, all decidable and established by the compiler (Props/WF, Props/Api):
    * `noEmptyAtoms op`  (hypothesis of `C08.preconditions_sound`; an empty literal recorded as a
      precondition could never be found in an empty input)
    * `smallMin len op`  (C06: the model's loop fuel covers the tree, so "does not terminate" is
      excluded; with it the divergence marker would stop the candidate loop)
    * `capsPos op`       (C02; only for the statements about the recorded start of group 0).
-/
import RxModel.Proofs.SearchLemmas
namespace Rx.SearchComplete
open Rx

/-! ## 1. the candidate loop -/

/-- `tryCands` succeeds iff some candidate has a match (candidates inside the input, clean state) -/
theorem tryCands_complete (ctx : Ctx) (op : Op) (hC : CompleteAt ctx op) (hQ : Quiet ctx op)
    (cands : List Nat) (hb : ∀ j ∈ cands, j ≤ ctx.len) (st : St) (hst : st.panic = none) :
    (tryCands ctx op cands st).1 = true ↔ ∃ j ∈ cands, ∃ q, OpR ctx op j q := by
  rcases tryCands_spec hC hQ cands st hb hst with
    ⟨pre, j, post, stj, st', hcs, _, hmj, ht, _, _⟩ | ⟨hall, st', ht, _⟩
  · rw [ht]
    exact ⟨fun _ => ⟨j, by rw [hcs]; simp, hmj⟩, fun _ => rfl⟩
  · rw [ht]
    constructor
    · intro h; cases h
    · rintro ⟨j, hj, hm⟩
      exact absurd hm (hall j hj)

/-- … and neither panics nor diverges -/
theorem tryCands_clean (ctx : Ctx) (op : Op) (hC : CompleteAt ctx op) (hQ : Quiet ctx op)
    (cands : List Nat) (hb : ∀ j ∈ cands, j ≤ ctx.len) (st : St) (hst : st.panic = none) :
    (tryCands ctx op cands st).2.panic = none := by
  rcases tryCands_spec hC hQ cands st hb hst with
    ⟨_, _, _, _, st', _, _, _, ht, hc, _⟩ | ⟨_, st', ht, hc⟩ <;> (rw [ht]; exact hc)

/-- the start it reports is the FIRST candidate in the list that has a match (strengthens
    `C02.tryCands_first`, which only says "first candidate at which `match_at` succeeds") -/
theorem tryCands_first_match (ctx : Ctx) (op : Op) (hC : CompleteAt ctx op) (hQ : Quiet ctx op)
    (hwf : wfOp op = true) (hcp : C02.capsPos op = true)
    (cands : List Nat) (hb : ∀ j ∈ cands, j ≤ ctx.len) (st st' : St) (hst : st.panic = none)
    (h : tryCands ctx op cands st = (true, st')) :
    ∃ pre j post, cands = pre ++ j :: post ∧ (∀ k ∈ pre, ¬ ∃ q, OpR ctx op k q) ∧
      (∃ q, OpR ctx op j q) ∧ getParenStart st' 0 = some j := by
  rcases tryCands_spec hC hQ cands st hb hst with
    ⟨pre, j, post, stj, st1, hcs, hpre, hmj, ht, _, hma⟩ | ⟨_, st1, ht, _⟩
  · rw [h] at ht
    simp only [Prod.mk.injEq, true_and] at ht
    subst ht
    have hj : j ≤ ctx.len := hb j (by rw [hcs]; simp)
    exact ⟨pre, j, post, hcs, hpre, hmj, (C02.matchAt_span ctx op hwf hcp j hj stj st' hma).1⟩
  · rw [h] at ht; cases ht

/-- the same with the decidable side conditions of C05 / C06 in place of `Quiet` -/
theorem tryCands_complete_wf (ctx : Ctx) (op : Op) (hC : CompleteAt ctx op)
    (hb : ctx.hasBackrefs = false) (hop : hasBackref op = false) (hwf : wfOp op = true)
    (hs : C06.smallMin ctx.len op = true)
    (cands : List Nat) (hc : ∀ j ∈ cands, j ≤ ctx.len) (st : St) (hst : st.panic = none) :
    (tryCands ctx op cands st).1 = true ↔ ∃ j ∈ cands, ∃ q, OpR ctx op j q :=
  tryCands_complete ctx op hC (quiet_of_wf ctx hb op hop hwf hs) cands hc st hst

/-! ## 2. preconditions -/

/-- `check_preconditions(start)` answers true iff every precondition is satisfiable where it is
    tested: at its fixed position, or at some position `k` with `start ≤ k`, `minPos ≤ k`, `k < len`
    (this is `C08.PreOK`).  Both directions; fixed positions inside the input. -/
theorem checkPre_complete (ctx : Ctx) (start : Nat) (pres : List Pre)
    (hP : ∀ q ∈ pres, CompleteAt ctx q.op ∧ Quiet ctx q.op)
    (hfix : ∀ q ∈ pres, ∀ f, q.fixed = some f → f ≤ ctx.len) (st : St) (hst : st.panic = none) :
    (checkPre ctx start pres st).1 = true ↔
      ∀ q ∈ pres, (match q.fixed with
        | some f => ∃ n, OpR ctx q.op f n
        | none => ∃ k n, start ≤ k ∧ q.minPos ≤ k ∧ k < ctx.len ∧ OpR ctx q.op k n) := by
  rcases checkPre_spec start pres st hP hfix hst with ⟨hall, st', he, _⟩ | ⟨hno, st', he, _⟩
  · rw [he]
    exact ⟨fun _ => hall, fun _ => rfl⟩
  · rw [he]
    constructor
    · intro h; cases h
    · intro h; exact absurd h hno

theorem checkPre_clean' (ctx : Ctx) (start : Nat) (pres : List Pre)
    (hP : ∀ q ∈ pres, QuietAll ctx q.op) (st : St) (hst : st.panic = none) :
    (checkPre ctx start pres st).2.panic = none :=
  checkPre_clean start pres st hP hst

/-! ## 3. the search loop with all five shortcuts -/

/-- generic form: ANY program whose recorded facts are true of its language (`SearchFacts`) -/
theorem matchesFrom_complete_of_facts (ctx : Ctx) (pr : Prog) (F : SearchFacts ctx pr)
    (hlen : ctx.len < usizeMax) (hC : CompleteAt ctx pr.op) (hQ : Quiet ctx pr.op)
    (hP : ∀ q ∈ pr.pres, CompleteAt ctx q.op ∧ QuietAll ctx q.op)
    (i : Nat) (hi : i ≤ ctx.len) (st : St) (hst : st.panic = none) :
    ((matchesFrom ctx pr i st).1 = true ↔ ∃ j q, i ≤ j ∧ j ≤ ctx.len ∧ OpR ctx pr.op j q) ∧
    (matchesFrom ctx pr i st).2.panic = none :=
  let h := matchesFrom_outcome F hlen hC hQ hP i hi st hst
  ⟨h.iff, h.clean⟩

/-- generic form of leftmost-ness -/
theorem matchesFrom_leftmost_of_facts (ctx : Ctx) (pr : Prog) (F : SearchFacts ctx pr)
    (hlen : ctx.len < usizeMax) (hC : CompleteAt ctx pr.op) (hQ : Quiet ctx pr.op)
    (hP : ∀ q ∈ pr.pres, CompleteAt ctx q.op ∧ QuietAll ctx q.op)
    (hwf : wfOp pr.op = true) (hcp : C02.capsPos pr.op = true)
    (i : Nat) (hi : i ≤ ctx.len) (st st' : St) (hst : st.panic = none)
    (h : matchesFrom ctx pr i st = (true, st')) :
    ∃ j n, getParenStart st' 0 = some j ∧ getParenEnd st' 0 = some n ∧
      i ≤ j ∧ j ≤ n ∧ n ≤ ctx.len ∧ OpR ctx pr.op j n ∧
      ∀ k q, i ≤ k → k < j → ¬ OpR ctx pr.op k q := by
  have := (matchesFrom_outcome F hlen hC hQ hP i hi st hst).leftmost hwf hcp (by rw [h])
  rw [h] at this
  exact this

/-- `ReProgram::new` establishes the facts -/
theorem mkProgram_facts (pat : List Nat) (op : Op) (mp : Nat) (fl : CFlags) (hb : Bool)
    (lower : Nat → Nat) (input : List Nat)
    (hwf : wfOp op = true) (hne : C08.noEmptyAtoms op = true) (hlen : input.length < usizeMax) :
    SearchFacts ((mkProgram pat op mp fl hb).ctx lower input) (mkProgram pat op mp fl hb) :=
  mkProgram_searchFacts pat op mp fl hb lower input hwf hne hlen

/-- NO shortcut ever loses a match and none invents one: on a program built by `ReProgram::new`,
    `matches(i)` is true iff some start `j ≥ i` has a match — relative to completeness of the
    engine test on the main tree and the precondition trees -/
theorem matchesFrom_complete (pat : List Nat) (op : Op) (mp : Nat) (fl : CFlags)
    (lower : Nat → Nat) (input : List Nat)
    (hwf : wfOp op = true) (hnb : hasBackref op = false) (hne : C08.noEmptyAtoms op = true)
    (hsm : C06.smallMin input.length op = true) (hlen : input.length < usizeMax)
    (hC : CompleteAt ((mkProgram pat op mp fl false).ctx lower input) (mkProgram pat op mp fl false).op)
    (hP : ∀ pre ∈ (mkProgram pat op mp fl false).pres,
      CompleteAt ((mkProgram pat op mp fl false).ctx lower input) pre.op)
    (i : Nat) (hi : i ≤ input.length) (st : St) (hst : st.panic = none) :
    (matchesFrom ((mkProgram pat op mp fl false).ctx lower input) (mkProgram pat op mp fl false) i st).1 = true ↔
      ∃ j q, i ≤ j ∧ j ≤ input.length ∧
        OpR ((mkProgram pat op mp fl false).ctx lower input) (mkProgram pat op mp fl false).op j q :=
  (mkProgram_outcome pat op mp fl lower input hwf hnb hne hsm hlen hC hP i hi st hst).iff

/-- … and it neither panics nor diverges -/
theorem matchesFrom_clean (pat : List Nat) (op : Op) (mp : Nat) (fl : CFlags)
    (lower : Nat → Nat) (input : List Nat)
    (hwf : wfOp op = true) (hnb : hasBackref op = false) (hne : C08.noEmptyAtoms op = true)
    (hsm : C06.smallMin input.length op = true) (hlen : input.length < usizeMax)
    (hC : CompleteAt ((mkProgram pat op mp fl false).ctx lower input) (mkProgram pat op mp fl false).op)
    (hP : ∀ pre ∈ (mkProgram pat op mp fl false).pres,
      CompleteAt ((mkProgram pat op mp fl false).ctx lower input) pre.op)
    (i : Nat) (hi : i ≤ input.length) (st : St) (hst : st.panic = none) :
    (matchesFrom ((mkProgram pat op mp fl false).ctx lower input) (mkProgram pat op mp fl false) i st).2.panic = none :=
  (mkProgram_outcome pat op mp fl lower input hwf hnb hne hsm hlen hC hP i hi st hst).clean

/-- LEFTMOST, on the path with shortcuts (strengthens `C02.matchesNaive_leftmost`): when
    `matches(i)` is true, group 0 starts at the LEAST `j ≥ i` that has a match, and ends at a
    member of the language from there -/
theorem matchesFrom_leftmost (pat : List Nat) (op : Op) (mp : Nat) (fl : CFlags)
    (lower : Nat → Nat) (input : List Nat)
    (hwf : wfOp op = true) (hnb : hasBackref op = false) (hne : C08.noEmptyAtoms op = true)
    (hcp : C02.capsPos op = true)
    (hsm : C06.smallMin input.length op = true) (hlen : input.length < usizeMax)
    (hC : CompleteAt ((mkProgram pat op mp fl false).ctx lower input) (mkProgram pat op mp fl false).op)
    (hP : ∀ pre ∈ (mkProgram pat op mp fl false).pres,
      CompleteAt ((mkProgram pat op mp fl false).ctx lower input) pre.op)
    (i : Nat) (hi : i ≤ input.length) (st st' : St) (hst : st.panic = none)
    (h : matchesFrom ((mkProgram pat op mp fl false).ctx lower input) (mkProgram pat op mp fl false) i st
      = (true, st')) :
    ∃ j n, getParenStart st' 0 = some j ∧ getParenEnd st' 0 = some n ∧
      i ≤ j ∧ j ≤ n ∧ n ≤ input.length ∧
      OpR ((mkProgram pat op mp fl false).ctx lower input) (mkProgram pat op mp fl false).op j n ∧
      ∀ k q, i ≤ k → k < j →
        ¬ OpR ((mkProgram pat op mp fl false).ctx lower input) (mkProgram pat op mp fl false).op k q := by
  have ho := mkProgram_outcome pat op mp fl lower input hwf hnb hne hsm hlen hC hP i hi st hst
  obtain ⟨hop, _⟩ := WF.mkProgram_op pat op mp fl false
  have hw : wfOp (mkProgram pat op mp fl false).op = true := by
    rw [hop, WF.wfOp_numberReps]; exact hwf
  have hc : C02.capsPos (mkProgram pat op mp fl false).op = true := by
    rw [hop, WF.capsPos_numberReps]; exact hcp
  have := ho.leftmost hw hc (by rw [h])
  rw [h] at this
  exact this

/-! ## 4. `is_match` -/

/-- `is_match` is `.ok` of "some substring is in the language" — never a panic, never divergence -/
theorem isMatch_eq (pat : List Nat) (op : Op) (mp : Nat) (fl : CFlags)
    (lower : Nat → Nat) (input : List Nat)
    (hwf : wfOp op = true) (hnb : hasBackref op = false) (hne : C08.noEmptyAtoms op = true)
    (hsm : C06.smallMin input.length op = true) (hlen : input.length < usizeMax)
    (hC : CompleteAt ((mkProgram pat op mp fl false).ctx lower input) (mkProgram pat op mp fl false).op)
    (hP : ∀ pre ∈ (mkProgram pat op mp fl false).pres,
      CompleteAt ((mkProgram pat op mp fl false).ctx lower input) pre.op) :
    ∃ b, (mkProgram pat op mp fl false).isMatch lower input = .ok b ∧
      (b = true ↔ ∃ j q, j ≤ input.length ∧
        OpR ((mkProgram pat op mp fl false).ctx lower input) (mkProgram pat op mp fl false).op j q) := by
  have ho := mkProgram_outcome pat op mp fl lower input hwf hnb hne hsm hlen hC hP 0 (Nat.zero_le _) {} rfl
  have hiff := ho.iff
  have hcl := ho.clean
  unfold Prog.isMatch
  generalize matchesFrom ((mkProgram pat op mp fl false).ctx lower input) (mkProgram pat op mp fl false) 0 {} = r at *
  obtain ⟨m, st⟩ := r
  simp only at hcl hiff ⊢
  rw [hcl]
  refine ⟨m, rfl, hiff.trans ?_⟩
  constructor
  · rintro ⟨j, q, _, h2, h3⟩; exact ⟨j, q, h2, h3⟩
  · rintro ⟨j, q, h2, h3⟩; exact ⟨j, q, Nat.zero_le _, h2, h3⟩

theorem isMatch_iff (pat : List Nat) (op : Op) (mp : Nat) (fl : CFlags)
    (lower : Nat → Nat) (input : List Nat)
    (hwf : wfOp op = true) (hnb : hasBackref op = false) (hne : C08.noEmptyAtoms op = true)
    (hsm : C06.smallMin input.length op = true) (hlen : input.length < usizeMax)
    (hC : CompleteAt ((mkProgram pat op mp fl false).ctx lower input) (mkProgram pat op mp fl false).op)
    (hP : ∀ pre ∈ (mkProgram pat op mp fl false).pres,
      CompleteAt ((mkProgram pat op mp fl false).ctx lower input) pre.op) :
    (mkProgram pat op mp fl false).isMatch lower input = .ok true ↔
      ∃ j q, j ≤ input.length ∧
        OpR ((mkProgram pat op mp fl false).ctx lower input) (mkProgram pat op mp fl false).op j q := by
  obtain ⟨b, hb, hiff⟩ := isMatch_eq pat op mp fl lower input hwf hnb hne hsm hlen hC hP
  rw [hb]
  constructor
  · intro h
    simp only [Out.ok.injEq] at h
    exact hiff.1 h
  · intro h
    rw [hiff.2 h]

/-- … and `.ok false` otherwise -/
theorem isMatch_false (pat : List Nat) (op : Op) (mp : Nat) (fl : CFlags)
    (lower : Nat → Nat) (input : List Nat)
    (hwf : wfOp op = true) (hnb : hasBackref op = false) (hne : C08.noEmptyAtoms op = true)
    (hsm : C06.smallMin input.length op = true) (hlen : input.length < usizeMax)
    (hC : CompleteAt ((mkProgram pat op mp fl false).ctx lower input) (mkProgram pat op mp fl false).op)
    (hP : ∀ pre ∈ (mkProgram pat op mp fl false).pres,
      CompleteAt ((mkProgram pat op mp fl false).ctx lower input) pre.op)
    (hno : ¬ ∃ j q, j ≤ input.length ∧
        OpR ((mkProgram pat op mp fl false).ctx lower input) (mkProgram pat op mp fl false).op j q) :
    (mkProgram pat op mp fl false).isMatch lower input = .ok false := by
  obtain ⟨b, hb, hiff⟩ := isMatch_eq pat op mp fl lower input hwf hnb hne hsm hlen hC hP
  rw [hb]
  cases b with
  | false => rfl
  | true => exact absurd (hiff.1 rfl) hno

/-! ## 5. optimisations never change a result (C08, as a theorem on this class of programs) -/

/-- the search with every shortcut off has the same characterisation -/
theorem matchesNaive_complete (ctx : Ctx) (op : Op) (hC : CompleteAt ctx op) (hQ : Quiet ctx op)
    (i : Nat) (st : St) (hst : st.panic = none) :
    (matchesNaive ctx op i st).1 = true ↔ ∃ j q, i ≤ j ∧ j ≤ ctx.len ∧ OpR ctx op j q :=
  (matchesNaive_outcome hC hQ i st hst).iff

/-- generic form -/
theorem opt_eq_noopt_of_facts (ctx : Ctx) (pr : Prog) (F : SearchFacts ctx pr)
    (hlen : ctx.len < usizeMax) (hC : CompleteAt ctx pr.op) (hQ : Quiet ctx pr.op)
    (hP : ∀ q ∈ pr.pres, CompleteAt ctx q.op ∧ QuietAll ctx q.op)
    (hwf : wfOp pr.op = true) (hcp : C02.capsPos pr.op = true)
    (i : Nat) (hi : i ≤ ctx.len) (st1 st2 : St) (h1 : st1.panic = none) (h2 : st2.panic = none) :
    (matchesFrom ctx pr i st1).1 = (matchesNaive ctx pr.op i st2).1 ∧
    ((matchesFrom ctx pr i st1).1 = true →
      getParenStart (matchesFrom ctx pr i st1).2 0 = getParenStart (matchesNaive ctx pr.op i st2).2 0 ∧
      ∃ j, getParenStart (matchesFrom ctx pr i st1).2 0 = some j) :=
  (matchesFrom_outcome F hlen hC hQ hP i hi st1 h1).agree hwf hcp (matchesNaive_outcome hC hQ i st2 h2)

/-- the search with all shortcuts and the search with none give the same Boolean and, on success,
    the same recorded start of group 0 — from any two clean states (the end of the match is the
    engine's first result at that start and may depend on the zero-length-match memo, i.e. on
    which positions were tried before: no claim) -/
theorem opt_eq_noopt (pat : List Nat) (op : Op) (mp : Nat) (fl : CFlags)
    (lower : Nat → Nat) (input : List Nat)
    (hwf : wfOp op = true) (hnb : hasBackref op = false) (hne : C08.noEmptyAtoms op = true)
    (hcp : C02.capsPos op = true)
    (hsm : C06.smallMin input.length op = true) (hlen : input.length < usizeMax)
    (hC : CompleteAt ((mkProgram pat op mp fl false).ctx lower input) (mkProgram pat op mp fl false).op)
    (hP : ∀ pre ∈ (mkProgram pat op mp fl false).pres,
      CompleteAt ((mkProgram pat op mp fl false).ctx lower input) pre.op)
    (i : Nat) (hi : i ≤ input.length) (st1 st2 : St) (h1 : st1.panic = none) (h2 : st2.panic = none) :
    let pr := mkProgram pat op mp fl false
    let ctx := pr.ctx lower input
    (matchesFrom ctx pr i st1).1 = (matchesNaive ctx pr.op i st2).1 ∧
    ((matchesFrom ctx pr i st1).1 = true →
      getParenStart (matchesFrom ctx pr i st1).2 0 = getParenStart (matchesNaive ctx pr.op i st2).2 0 ∧
      ∃ j, getParenStart (matchesFrom ctx pr i st1).2 0 = some j) := by
  intro pr ctx
  have ho := mkProgram_outcome pat op mp fl lower input hwf hnb hne hsm hlen hC hP i hi st1 h1
  obtain ⟨hop, hbr⟩ := WF.mkProgram_op pat op mp fl false
  have hw : wfOp pr.op = true := by
    show wfOp (mkProgram pat op mp fl false).op = true
    rw [hop, WF.wfOp_numberReps]; exact hwf
  have hc : C02.capsPos pr.op = true := by
    show C02.capsPos (mkProgram pat op mp fl false).op = true
    rw [hop, WF.capsPos_numberReps]; exact hcp
  have hn : hasBackref pr.op = false := by
    show hasBackref (mkProgram pat op mp fl false).op = false
    rw [hop, hasBackref_numberReps]; exact hnb
  have hs : C06.smallMin ctx.len pr.op = true := by
    show C06.smallMin input.length (mkProgram pat op mp fl false).op = true
    rw [hop, smallMin_numberReps]; exact hsm
  have hQ : Quiet ctx pr.op := quiet_of_wf ctx hbr pr.op hn hw hs
  exact ho.agree hw hc (matchesNaive_outcome hC hQ i st2 h2)

/-- the bare program the verification hook builds (optimisations off) runs the naive search … -/
theorem bare_eq_naive (pat : List Nat) (op : Op) (mp : Nat) (fl : CFlags) (hb : Bool)
    (ctx : Ctx) (i : Nat) (hi : i ≤ ctx.len) (st : St) :
    matchesFrom ctx (mkBareProgram pat op mp fl hb) i st =
      matchesNaive ctx (numberReps op 0).1 i st := by
  unfold matchesFrom matchesNaive mkBareProgram
  have h1 : ¬ i > ctx.len := by omega
  simp only [Bool.false_eq_true, if_false, h1, Nat.not_lt_zero, checkPre]

/-- … on the same operation tree, under the same context as the optimised program -/
theorem bare_same (pat : List Nat) (op : Op) (mp : Nat) (fl : CFlags) (hb : Bool)
    (lower : Nat → Nat) (input : List Nat) :
    (mkBareProgram pat op mp fl hb).op = (mkProgram pat op mp fl hb).op ∧
    (mkBareProgram pat op mp fl hb).ctx lower input = (mkProgram pat op mp fl hb).ctx lower input := by
  obtain ⟨hop, hcb, hml, hhb, hmp, _⟩ := mkProgram_shape pat op mp fl hb
  refine ⟨hop.symm, ?_⟩
  unfold Prog.ctx
  rw [hcb, hml, hhb, hmp]
  rfl

/-- C08 for `is_match`-style searches: optimised program vs. bare program -/
theorem opt_eq_bare (pat : List Nat) (op : Op) (mp : Nat) (fl : CFlags)
    (lower : Nat → Nat) (input : List Nat)
    (hwf : wfOp op = true) (hnb : hasBackref op = false) (hne : C08.noEmptyAtoms op = true)
    (hcp : C02.capsPos op = true)
    (hsm : C06.smallMin input.length op = true) (hlen : input.length < usizeMax)
    (hC : CompleteAt ((mkProgram pat op mp fl false).ctx lower input) (mkProgram pat op mp fl false).op)
    (hP : ∀ pre ∈ (mkProgram pat op mp fl false).pres,
      CompleteAt ((mkProgram pat op mp fl false).ctx lower input) pre.op)
    (i : Nat) (hi : i ≤ input.length) (st1 st2 : St) (h1 : st1.panic = none) (h2 : st2.panic = none) :
    let pr := mkProgram pat op mp fl false
    let bare := mkBareProgram pat op mp fl false
    (matchesFrom (pr.ctx lower input) pr i st1).1 = (matchesFrom (bare.ctx lower input) bare i st2).1 ∧
    ((matchesFrom (pr.ctx lower input) pr i st1).1 = true →
      getParenStart (matchesFrom (pr.ctx lower input) pr i st1).2 0 =
        getParenStart (matchesFrom (bare.ctx lower input) bare i st2).2 0) := by
  intro pr bare
  obtain ⟨hbo, hbc⟩ := bare_same pat op mp fl false lower input
  obtain ⟨hop, _⟩ := WF.mkProgram_op pat op mp fl false
  have hb : matchesFrom (bare.ctx lower input) bare i st2 = matchesNaive (pr.ctx lower input) pr.op i st2 := by
    show matchesFrom ((mkBareProgram pat op mp fl false).ctx lower input) (mkBareProgram pat op mp fl false) i st2
      = matchesNaive ((mkProgram pat op mp fl false).ctx lower input) (mkProgram pat op mp fl false).op i st2
    rw [hbc, hop]
    exact bare_eq_naive pat op mp fl false ((mkProgram pat op mp fl false).ctx lower input) i hi st2
  rw [hb]
  have := opt_eq_noopt pat op mp fl lower input hwf hnb hne hcp hsm hlen hC hP i hi st1 st2 h1 h2
  exact ⟨this.1, fun ht => (this.2 ht).1⟩

/-! ## 6. non-vacuity: concrete compiled programs for which `CompleteAt` is PROVED, one per branch
    of `matchesFrom`; the trees are what the model's compiler produces for the pattern texts
    (checked by `decide +kernel` for the first one) -/

section nonvacuity

/-- `ab|ac` — plain scan behind the minimum-length cut-off, no preconditions -/
def opAbAc : Op := .seq [.choice [.atom [97, 98], .atom [97, 99]], .endProgram]
/-- `a(?:b|c)` — literal prefix (and one recorded precondition) -/
def opPrefix : Op := .seq [.atom [97], .choice [.atom [98], .atom [99]], .endProgram]
/-- `[ab]c` — initial character class (and two recorded preconditions) -/
def opIcc : Op := .seq [.cls [(97, 99)], .atom [99], .endProgram]
/-- `^a(?:b|c)` — start anchor (single-line: one `match_at(0)` behind `check_preconditions`;
    multi-line: after every newline) -/
def opBol : Op := .seq [.bol, .atom [97], .choice [.atom [98], .atom [99]], .endProgram]

private def env0 : Env :=
  { lower := id, closure := fun _ => [], category := fun _ => none, block := fun _ => none,
    digit := [], word := [], nameStart := [], nameChar := [] }

/-- the tree really is what the model's compiler builds for the pattern text `ab|ac` -/
theorem opAbAc_compiled :
    (match compileCore env0 {} [97, 98, 124, 97, 99] true with
     | .ok pr =>
       (match pr.op with
        | .seq [.choice [.atom [97, 98], .atom [97, 99]], .endProgram] => true
        | _ => false) && pr.pres.isEmpty && pr.minLen == 2
     | _ => false) = true := by decide +kernel

theorem quiet_atom (ctx : Ctx) (hb : ctx.hasBackrefs = false) (cs : List Nat) : Quiet ctx (.atom cs) :=
  quiet_of_wf ctx hb _ rfl rfl rfl

theorem completeAt_atoms2 (ctx : Ctx) (hb : ctx.hasBackrefs = false) (a b : List Nat) :
    CompleteAt ctx (.choice [.atom a, .atom b]) := by
  apply completeAt_choice
  intro o ho
  simp only [List.mem_cons, List.not_mem_nil, or_false] at ho
  rcases ho with rfl | rfl
  · exact ⟨completeAt_atom ctx _, quiet_atom ctx hb _⟩
  · exact ⟨completeAt_atom ctx _, quiet_atom ctx hb _⟩

theorem completeAt_opAbAc (ctx : Ctx) (hb : ctx.hasBackrefs = false) : CompleteAt ctx opAbAc :=
  completeAt_seq_end ctx _ (completeAt_atoms2 ctx hb _ _)

theorem completeAt_opPrefix (ctx : Ctx) (hb : ctx.hasBackrefs = false) : CompleteAt ctx opPrefix :=
  completeAt_seq_det ctx _ _ _ _ (det1_atom ctx _) (completeAt_atom ctx _)
    (completeAt_seq_end ctx _ (completeAt_atoms2 ctx hb _ _))

theorem completeAt_opIcc (ctx : Ctx) : CompleteAt ctx opIcc :=
  completeAt_seq_det ctx _ _ _ _ (det1_cls ctx _) (completeAt_cls ctx _)
    (completeAt_seq_end ctx _ (completeAt_atom ctx _))

theorem completeAt_opBol (ctx : Ctx) (hb : ctx.hasBackrefs = false) : CompleteAt ctx opBol :=
  completeAt_seq_det ctx _ _ _ _ (det1_bol ctx) (completeAt_bol ctx) (completeAt_opPrefix ctx hb)

/-- `ab|ac`: `is_match` decides "some substring is in the language", on every input -/
theorem nonvacuous_abac (pat : List Nat) (lower : Nat → Nat) (input : List Nat)
    (hlen : input.length < usizeMax) :
    (mkProgram pat opAbAc 1 {} false).isMatch lower input = .ok true ↔
      ∃ j q, j ≤ input.length ∧ OpR ((mkProgram pat opAbAc 1 {} false).ctx lower input) opAbAc j q := by
  have h := isMatch_iff pat opAbAc 1 {} lower input rfl rfl rfl rfl hlen
    (completeAt_opAbAc _ rfl) (fun pre hpre => by cases hpre)
  exact h

/-- `a(?:b|c)`: the literal-prefix scan -/
theorem nonvacuous_prefix (pat : List Nat) (lower : Nat → Nat) (input : List Nat)
    (hlen : input.length < usizeMax) :
    (mkProgram pat opPrefix 1 {} false).prefix_ = some [97] ∧
    ((mkProgram pat opPrefix 1 {} false).isMatch lower input = .ok true ↔
      ∃ j q, j ≤ input.length ∧ OpR ((mkProgram pat opPrefix 1 {} false).ctx lower input) opPrefix j q) := by
  refine ⟨rfl, ?_⟩
  have h := isMatch_iff pat opPrefix 1 {} lower input rfl rfl rfl rfl hlen
    (completeAt_opPrefix _ rfl) (fun pre hpre => by
      have hp : (mkProgram pat opPrefix 1 {} false).pres = [{ op := .atom [97], fixed := none, minPos := 0 }] := rfl
      rw [hp] at hpre
      simp only [List.mem_cons, List.not_mem_nil, or_false] at hpre
      subst hpre
      exact completeAt_atom _ _)
  exact h

/-- `[ab]c`: the initial-character-class filter -/
theorem nonvacuous_icc (pat : List Nat) (lower : Nat → Nat) (input : List Nat)
    (hlen : input.length < usizeMax) :
    (mkProgram pat opIcc 1 {} false).icc = some [(97, 99)] ∧
    ((mkProgram pat opIcc 1 {} false).isMatch lower input = .ok true ↔
      ∃ j q, j ≤ input.length ∧ OpR ((mkProgram pat opIcc 1 {} false).ctx lower input) opIcc j q) := by
  refine ⟨rfl, ?_⟩
  have h := isMatch_iff pat opIcc 1 {} lower input rfl rfl rfl rfl hlen
    (completeAt_opIcc _) (fun pre hpre => by
      have hp : (mkProgram pat opIcc 1 {} false).pres =
          [{ op := .cls [(97, 99)], fixed := none, minPos := 0 },
           { op := .atom [99], fixed := none, minPos := 1 }] := rfl
      rw [hp] at hpre
      simp only [List.mem_cons, List.not_mem_nil, or_false] at hpre
      rcases hpre with rfl | rfl
      · exact completeAt_cls _ _
      · exact completeAt_atom _ _)
  exact h

/-- `^a(?:b|c)`, single-line and multi-line: the start-anchor path (with a precondition at the
    fixed position 0 in single-line mode) -/
theorem nonvacuous_bol (ml : Bool) (pat : List Nat) (lower : Nat → Nat) (input : List Nat)
    (hlen : input.length < usizeMax) :
    (mkProgram pat opBol 1 { multiLine := ml } false).hasBol = true ∧
    ((mkProgram pat opBol 1 { multiLine := ml } false).isMatch lower input = .ok true ↔
      ∃ j q, j ≤ input.length ∧
        OpR ((mkProgram pat opBol 1 { multiLine := ml } false).ctx lower input) opBol j q) := by
  refine ⟨rfl, ?_⟩
  have h := isMatch_iff pat opBol 1 { multiLine := ml } lower input rfl rfl rfl rfl hlen
    (completeAt_opBol _ rfl) (fun pre hpre => by
      have hp : ∃ fp, (mkProgram pat opBol 1 { multiLine := ml } false).pres =
          [{ op := .atom [97], fixed := fp, minPos := 0 }] := by
        cases ml
        · exact ⟨some 0, rfl⟩
        · exact ⟨none, rfl⟩
      obtain ⟨fp, hp⟩ := hp
      rw [hp] at hpre
      simp only [List.mem_cons, List.not_mem_nil, or_false] at hpre
      subst hpre
      exact completeAt_atom _ _)
  exact h

/-- and C08 on a concrete program: the prefix scan and the plain scan report the same start -/
theorem nonvacuous_opt_eq (pat : List Nat) (lower : Nat → Nat) (input : List Nat)
    (hlen : input.length < usizeMax) (i : Nat) (hi : i ≤ input.length) :
    (matchesFrom ((mkProgram pat opPrefix 1 {} false).ctx lower input) (mkProgram pat opPrefix 1 {} false) i {}).1 =
      (matchesNaive ((mkProgram pat opPrefix 1 {} false).ctx lower input) opPrefix i {}).1 := by
  have h := opt_eq_noopt pat opPrefix 1 {} lower input rfl rfl rfl rfl rfl hlen
    (completeAt_opPrefix _ rfl) (fun pre hpre => by
      have hp : (mkProgram pat opPrefix 1 {} false).pres = [{ op := .atom [97], fixed := none, minPos := 0 }] := rfl
      rw [hp] at hpre
      simp only [List.mem_cons, List.not_mem_nil, or_false] at hpre
      subst hpre
      exact completeAt_atom _ _) i hi {} {} rfl rfl
  exact h.1

end nonvacuity

/-! ## the hypotheses are needed -/

section needed

/-- the shape of `CompleteAt` asked for originally: quantified over the states of `C05.NoPanic`
    (marker clear OR the divergence marker).  It implies the one used here. -/
def CompleteAtNP (ctx : Ctx) (o : Op) : Prop :=
  ∀ j st, j ≤ ctx.len → C05.NoPanic st →
    (((first1 (sem ctx o j st)).1.isSome = true) ↔ ∃ q, OpR ctx o j q)

theorem CompleteAtNP.completeAt {ctx : Ctx} {o : Op} (h : CompleteAtNP ctx o) : CompleteAt ctx o :=
  fun j st hj hst => h j st hj (.inl hst)

/-- ORIGINAL STATEMENT of `matchesFrom_complete` with the start state only required to satisfy
    `C05.NoPanic` — FALSE as stated: `NoPanic` allows the divergence marker, and with the marker set
    the candidate loop gives up after the first failing candidate (`if st'.panic.isSome then …`).
    Kept as a `Prop`, refuted by `matchesFrom_complete_noPanic_false`; the true statement
    (marker clear: `st.panic = none`, which is what every API entry point starts from and what the
    loop preserves) is `matchesFrom_complete`. -/
def matchesFrom_complete_noPanic : Prop :=
  ∀ (pat : List Nat) (op : Op) (mp : Nat) (fl : CFlags) (lower : Nat → Nat) (input : List Nat),
    wfOp op = true → hasBackref op = false → C08.noEmptyAtoms op = true →
    C06.smallMin input.length op = true → input.length < usizeMax →
    CompleteAt ((mkProgram pat op mp fl false).ctx lower input) (mkProgram pat op mp fl false).op →
    (∀ pre ∈ (mkProgram pat op mp fl false).pres,
      CompleteAt ((mkProgram pat op mp fl false).ctx lower input) pre.op) →
    ∀ (i : Nat), i ≤ input.length → ∀ (st : St), C05.NoPanic st →
    ((matchesFrom ((mkProgram pat op mp fl false).ctx lower input) (mkProgram pat op mp fl false) i st).1 = true ↔
      ∃ j q, i ≤ j ∧ j ≤ input.length ∧
        OpR ((mkProgram pat op mp fl false).ctx lower input) (mkProgram pat op mp fl false).op j q)

/-- `ab|ac` on "xab" from a state carrying the divergence marker: no match reported, one exists -/
theorem matchesFrom_complete_noPanic_false : ¬ matchesFrom_complete_noPanic := by
  intro h
  have h1 := h [] opAbAc 1 {} id [120, 97, 98] rfl rfl rfl rfl (by decide)
    (completeAt_opAbAc _ rfl) (fun pre hpre => by cases hpre) 0 (Nat.zero_le _)
    { panic := some panicDiverge } (.inr rfl)
  have h2 : (matchesFrom ((mkProgram [] opAbAc 1 {} false).ctx id [120, 97, 98])
      (mkProgram [] opAbAc 1 {} false) 0 { panic := some panicDiverge }).1 = false := by decide +kernel
  rw [h2] at h1
  have h3 := h1.2 ⟨1, 3, Nat.zero_le _, by decide, by
    show OpR _ opAbAc 1 3
    simp only [opAbAc, OpR, OpRSeq, OpRAny]
    exact ⟨3, .inl ⟨rfl, by decide, by decide⟩, 3, rfl, rfl⟩⟩
  cases h3

/-- a tree with an EMPTY literal behind a non-literal first element (the compiler never builds
    one: it emits `nothing` for every empty construct; the only compiled tree with an empty literal
    is the literal program for the pattern "" under flag `q`, which has a prefix and is the subject
    of Proofs/LiteralLemmas) -/
def opEmptyAtom : Op := .seq [.nothing, .atom [], .endProgram]

theorem completeAt_opEmptyAtom (ctx : Ctx) : CompleteAt ctx opEmptyAtom :=
  completeAt_seq_det ctx _ _ _ _ (det1_nothing ctx) (completeAt_nothing ctx)
    (completeAt_seq_end ctx _ (completeAt_atom ctx _))

/-- why `noEmptyAtoms` is a hypothesis: on such a tree the PRECONDITION shortcut loses a match.
    `add_precondition` records the empty literal as "must occur at some position `< len`"; on the
    empty input there is no such position, `check_preconditions` refuses, although the tree
    matches the empty string at 0 — the engine test is complete there, and the bare program
    finds it. -/
theorem noEmptyAtoms_needed :
    C08.noEmptyAtoms opEmptyAtom = false ∧
    CompleteAt ((mkProgram [] opEmptyAtom 1 {} false).ctx id []) opEmptyAtom ∧
    (mkProgram [] opEmptyAtom 1 {} false).isMatch id [] = .ok false ∧
    (mkBareProgram [] opEmptyAtom 1 {} false).isMatch id [] = .ok true ∧
    OpR ((mkProgram [] opEmptyAtom 1 {} false).ctx id []) opEmptyAtom 0 0 := by
  refine ⟨rfl, completeAt_opEmptyAtom _, by decide +kernel, by decide +kernel, ?_⟩
  simp only [opEmptyAtom, OpR, OpRSeq]
  exact ⟨0, rfl, 0, ⟨rfl, Nat.zero_le _, rfl⟩, 0, rfl, rfl⟩

end needed

end Rx.SearchComplete
