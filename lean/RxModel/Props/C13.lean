/-
  Props/C13 — flag q turns pattern and replacement into plain literal strings.
-/
import RxModel.Model.Compile
import RxModel.Props.C04
import RxModel.Props.C11
import RxModel.Proofs.LiteralLemmas
namespace Rx.C13
open Rx Rx.Spec

/-- the program the compiler emits for a literal pattern: one atom and the end marker, whatever
    metacharacters the pattern contains and whatever the other flags are -/
theorem literal_program (env : Env) (fl : CFlags) (hq : fl.literal = true) (pat : List Nat) :
    compileCore env fl pat true = .ok (mkProgram pat (.seq [.atom pat, .endProgram]) 1 fl false) := by
  simp [compileCore, hq, makeSequence]

/-- the facts of that program -/
theorem literal_facts (fl : CFlags) (pat : List Nat) (hlen : pat.length < usizeMax) :
    let pr := mkProgram pat (.seq [.atom pat, .endProgram]) 1 fl false
    pr.op = .seq [.atom pat, .endProgram] ∧ pr.prefix_ = some pat ∧ pr.minLen = pat.length ∧
    pr.hasBol = false ∧ pr.hasBackrefs = false ∧ pr.maxParens = 1 ∧ pr.icc = none ∧
    pr.caseBlind = fl.caseBlind ∧ pr.literal = fl.literal := by
  obtain ⟨pres, e⟩ := Lit.mkProgram_lit fl pat hlen
  simp only [Lit.litOp] at e
  rw [e]
  exact ⟨rfl, rfl, rfl, rfl, rfl, rfl, rfl, rfl, rfl⟩

/-- is_match on a literal regex: true iff the pattern occurs as a contiguous substring -/
theorem literal_is_match (fl : CFlags) (hcb : fl.caseBlind = false) (pat : List Nat) (hlen : pat.length < usizeMax)
    (lower : Nat → Nat) (s : List Nat) :
    (mkProgram pat (.seq [.atom pat, .endProgram]) 1 fl false).isMatch lower s = .ok (decide (pat <:+: s)) := by
  obtain ⟨b, ctx, h1, _, hm, hb⟩ := Lit.isMatch_lit fl pat hlen lower s
  simp only [Lit.litOp] at hm
  rw [hm]
  simp only [C11.atom_exact ctx (h1.trans hcb), Lit.infix_iff_drop] at hb
  congr 1
  rw [Bool.eq_iff_iff, hb, decide_eq_true_iff]

/-- with flag i as well: true iff some substring equals the pattern up to case -/
theorem literal_is_match_ci (fl : CFlags) (hcb : fl.caseBlind = true) (pat : List Nat) (hlen : pat.length < usizeMax)
    (lower : Nat → Nat) (s : List Nat) :
    ∃ b, (mkProgram pat (.seq [.atom pat, .endProgram]) 1 fl false).isMatch lower s = .ok b ∧
      (b = true ↔ ∃ j, j + pat.length ≤ s.length ∧
            ∀ k (hk : k < pat.length), ∃ x, s[j + k]? = some x ∧ eqCB lower x pat[k] = true) := by
  obtain ⟨b, ctx, h1, h2, hm, hb⟩ := Lit.isMatch_lit fl pat hlen lower s
  refine ⟨b, hm, hb.trans ?_⟩
  subst h2
  constructor
  · rintro ⟨j, hj, h⟩
    exact ⟨j, hj, (Lit.ci_iff_drop ctx (h1.trans hcb) pat s j hj).1 h⟩
  · rintro ⟨j, hj, h⟩
    exact ⟨j, hj, (Lit.ci_iff_drop ctx (h1.trans hcb) pat s j hj).2 h⟩

/-- the result does not depend on the flags m, s (x is stripped before: C14.q_ignores_x) -/
theorem literal_ignores_ms (fl : CFlags) (pat : List Nat) (hlen : pat.length < usizeMax) (lower : Nat → Nat) (s : List Nat)
    (m1 s1 : Bool) :
    (mkProgram pat (.seq [.atom pat, .endProgram]) 1 { fl with multiLine := m1, singleLine := s1 } false).isMatch lower s =
    (mkProgram pat (.seq [.atom pat, .endProgram]) 1 fl false).isMatch lower s := by
  rcases Bool.eq_false_or_eq_true fl.caseBlind with hcb | hcb
  rotate_left
  · rw [literal_is_match fl hcb pat hlen, literal_is_match _ (by exact hcb) pat hlen]
  · obtain ⟨b1, e1, h1⟩ := literal_is_match_ci fl hcb pat hlen lower s
    obtain ⟨b2, e2, h2⟩ := literal_is_match_ci { fl with multiLine := m1, singleLine := s1 } (by exact hcb)
      pat hlen lower s
    rw [e1, e2]
    congr 1
    rw [Bool.eq_iff_iff, h1, h2]

/-- the replacement string is used verbatim: `$` and `\` are ordinary characters, nothing is ever
    rejected, and the result is the pieces between matches joined by the replacement -/
theorem literal_replace_verbatim {σ : Type} (M : MatcherI σ) (Inv : σ → Prop) (input repl : List Nat)
    (subst : Subst σ) (hM : C04.GoodFind M input.length Inv)
    (hsub : ∀ st, subst st true = some (repl, true))
    (st0 : σ) (h0 : Inv st0) (r : List Nat)
    (hr : replaceWith M subst input true st0 = .ok r) :
    r = joinWith repl (pieces input 0 (C04.spanPairs (C04.spansOf M input.length (input.length + 2) 0 st0))) := by
  rw [Lit.replaceWith_lit_congr M subst input repl hsub] at hr
  exact C04.replace_plain M Inv input true _ repl hM (fun _ _ _ => ⟨true, rfl⟩) st0 h0 r hr

/-- with flag q, replace_all never reports InvalidReplacementString -/
theorem literal_replace_no_error {σ : Type} (M : MatcherI σ) (input repl : List Nat)
    (subst : Subst σ) (hsub : ∀ st, subst st true = some (repl, true)) (st0 : σ) :
    replaceWith M subst input true st0 ≠ .err .invalidReplacement := by
  rw [Lit.replaceWith_lit_congr M subst input repl hsub]
  exact Lit.replaceLoop_const_no_error M input repl true _ _ _ _ _ _

/-- there are no capture groups: a match entry of analyze is one string -/
theorem literal_no_groups (tbl : List (Nat × Nat)) (st : St) (cur : List Nat) (h : st.cap.parenCount = 1) :
    processMatch tbl st cur = .ok [.str cur] := by
  simp [processMatch, h]

/-- analyze on a literal regex does not look at the pattern's parentheses -/
theorem literal_analyze_no_scan (r : Regex) (hq : r.prog.literal = true) (hn : r.nullable = false)
    (lower : Nat → Nat) (input : List Nat) (limit : Nat) :
    r.analyze lower input limit =
      analyzeLoop (r.prog.matcher lower input) (processMatch []) input limit { st := ({} : St) } [] := by
  simp [Regex.analyze, hq, hn]

end Rx.C13
