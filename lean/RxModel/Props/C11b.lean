/-
  Props/C11b — flag i, whole-tree consequence: the LANGUAGE of a compiled operation tree
  (`OpR`, Spec/OpLang) is invariant under replacing input characters, or pattern letters, by their
  simple case counterparts.

  Hypotheses, and why each is there:
    * `ctx.caseBlind = true`                     — flag i;
    * `allClsClosed lower op`                    — every class node is closed under case.  Under flag i
      the class parser closes the characters and ranges it adds (`C11.class_member_ci`), but "class
      escapes are unaffected by the flag": `\p{Lu}` stays `Lu` under i, and a tree containing it is
      NOT invariant (`OpR_input_case_invariant_any_class_false` below).  The statements are proved relative to an alphabet `A`
      (`…_on`; inputs over `A`, classes closed on `A`); the requested unrestricted forms are the
      instance `A = everything`.  The alphabet matters for the real data: the class closure of the
      compiler and the comparison of literals disagree on U+0130 (`dotted_I_finding`), so a compiled
      class containing `i` is closed only on alphabets without U+0130.  `clsClosedOnB` is a
      decidable sufficient check for the real ICU table, run on compiled programs in the examples;
    * `NewlineCaseless lower`                    — `^` / `$` under flag m compare the neighbouring
      character with U+000A exactly (needed: `OpR_input_case_invariant_any_newline_false`); proved for the real table (`newlineCaseless_std`).
  Back-references: `OpR` constrains them only to stay inside the input (C19 refines that), so they
  are invariant because the two inputs have the same length.
-/
import RxModel.Proofs.CaseLemmas
namespace Rx.C11b
open Rx

/-! ### definitions -/

/-- two inputs (or two literals) of the same length, pointwise equal up to case -/
def CaseEquivInputs (lower : Nat → Nat) (xs ys : List Nat) : Prop :=
  xs.length = ys.length ∧ ∀ k (h1 : k < xs.length) (h2 : k < ys.length), eqCB lower xs[k] ys[k] = true

/-- a class closed under case: case-blind equal characters are both in or both out -/
def clsClosed (lower : Nat → Nat) (rs : Ranges) : Prop :=
  ∀ a b, eqCB lower a b = true → clsContains rs a = clsContains rs b

/-- … for characters of the alphabet `A` -/
def clsClosedOn (A : Nat → Bool) (lower : Nat → Nat) (rs : Ranges) : Prop :=
  ∀ a b, A a = true → A b = true → eqCB lower a b = true → clsContains rs a = clsContains rs b

mutual
/-- every class node of the tree satisfies `P` -/
def allCls (P : Ranges → Prop) : Op → Prop
  | .cls rs => P rs
  | .capture _ c => allCls P c
  | .choice bs => allClsL P bs
  | .seq ops => allClsL P ops
  | .rep _ c _ _ _ => allCls P c
  | .gfixed c _ _ _ => allCls P c
  | .rfixed c _ _ _ => allCls P c
  | .unamb c _ _ => allCls P c
  | _ => True
termination_by structural o => o
def allClsL (P : Ranges → Prop) : List Op → Prop
  | [] => True
  | o :: os => allCls P o ∧ allClsL P os
termination_by structural l => l
end

/-- every class node of the tree is closed under case -/
def allClsClosed (lower : Nat → Nat) (op : Op) : Prop := allCls (clsClosed lower) op
/-- … on the alphabet `A` -/
def allClsClosedOn (A : Nat → Bool) (lower : Nat → Nat) (op : Op) : Prop := allCls (clsClosedOn A lower) op

/-- all characters of the list are in the alphabet -/
def Over (A : Nat → Bool) (xs : List Nat) : Prop := ∀ x ∈ xs, A x = true

/-- no other character is a case counterpart of U+000A -/
def NewlineCaseless (lower : Nat → Nat) : Prop := ∀ a, eqCB lower a 10 = true → a = 10

mutual
/-- two trees of the same shape, with the same classes, bounds and ids, whose literals have equal
    lengths and are pointwise equal up to case -/
def CaseEquivOps (lower : Nat → Nat) : Op → Op → Prop
  | .bol, o => match o with | .bol => True | _ => False
  | .eol, o => match o with | .eol => True | _ => False
  | .nothing, o => match o with | .nothing => True | _ => False
  | .endProgram, o => match o with | .endProgram => True | _ => False
  | .atom cs, o => match o with | .atom ds => CaseEquivInputs lower cs ds | _ => False
  | .cls rs, o => match o with | .cls rs' => rs = rs' | _ => False
  | .backref g, o => match o with | .backref g' => g = g' | _ => False
  | .capture g c, o => match o with | .capture g' c' => g = g' ∧ CaseEquivOps lower c c' | _ => False
  | .choice bs, o => match o with | .choice bs' => CaseEquivOpsL lower bs bs' | _ => False
  | .seq ops, o => match o with | .seq ops' => CaseEquivOpsL lower ops ops' | _ => False
  | .rep id c mn mx gr, o =>
    match o with
    | .rep id' c' mn' mx' gr' => id = id' ∧ mn = mn' ∧ mx = mx' ∧ gr = gr' ∧ CaseEquivOps lower c c'
    | _ => False
  | .gfixed c mn mx len, o =>
    match o with
    | .gfixed c' mn' mx' len' => mn = mn' ∧ mx = mx' ∧ len = len' ∧ CaseEquivOps lower c c'
    | _ => False
  | .rfixed c mn mx len, o =>
    match o with
    | .rfixed c' mn' mx' len' => mn = mn' ∧ mx = mx' ∧ len = len' ∧ CaseEquivOps lower c c'
    | _ => False
  | .unamb c mn mx, o =>
    match o with
    | .unamb c' mn' mx' => mn = mn' ∧ mx = mx' ∧ CaseEquivOps lower c c'
    | _ => False
termination_by structural o => o
def CaseEquivOpsL (lower : Nat → Nat) : List Op → List Op → Prop
  | [], l => match l with | [] => True | _ => False
  | o :: os, l => match l with | o' :: os' => CaseEquivOps lower o o' ∧ CaseEquivOpsL lower os os' | _ => False
termination_by structural l => l
end

/-- the two contexts agree on everything `OpR` reads except the input -/
structure SameSettings (ctx ctx' : Ctx) : Prop where
  caseBlind : ctx'.caseBlind = ctx.caseBlind
  multiLine : ctx'.multiLine = ctx.multiLine
  lower : ctx'.lower = ctx.lower

theorem sameSettings_input (ctx : Ctx) (ys : List Nat) : SameSettings ctx { ctx with input := ys } :=
  ⟨rfl, rfl, rfl⟩

/-! ### the relations are equivalences -/

theorem CaseEquivInputs.refl (lower : Nat → Nat) (xs : List Nat) : CaseEquivInputs lower xs xs :=
  ⟨rfl, fun _ _ _ => C11.eqCB_refl _ _⟩

theorem CaseEquivInputs.symm {lower : Nat → Nat} {xs ys : List Nat} (h : CaseEquivInputs lower xs ys) :
    CaseEquivInputs lower ys xs :=
  ⟨h.1.symm, fun k h1 h2 => by rw [C11.eqCB_symm]; exact h.2 k h2 h1⟩

theorem CaseEquivInputs.trans {lower : Nat → Nat} {xs ys zs : List Nat}
    (h1 : CaseEquivInputs lower xs ys) (h2 : CaseEquivInputs lower ys zs) : CaseEquivInputs lower xs zs :=
  ⟨h1.1.trans h2.1, fun k hx hz =>
    C11.eqCB_trans _ _ _ _ (h1.2 k hx (by have := h1.1; omega)) (h2.2 k (by have := h1.1; omega) hz)⟩

/-- lower-casing every character gives an equivalent input (`lower` idempotent) -/
theorem CaseEquivInputs.map_lower (lower : Nat → Nat) (hidem : ∀ x, lower (lower x) = lower x) (xs : List Nat) :
    CaseEquivInputs lower xs (xs.map lower) := by
  refine ⟨by simp, fun k h1 h2 => ?_⟩
  rw [C11.eqCB_iff_lower, List.getElem_map, hidem]

mutual
theorem CaseEquivOps.refl (lower : Nat → Nat) : (op : Op) → CaseEquivOps lower op op
  | .bol => by simp only [CaseEquivOps]
  | .eol => by simp only [CaseEquivOps]
  | .nothing => by simp only [CaseEquivOps]
  | .endProgram => by simp only [CaseEquivOps]
  | .atom cs => by simp only [CaseEquivOps]; exact CaseEquivInputs.refl lower cs
  | .cls rs => by simp only [CaseEquivOps]
  | .backref g => by simp only [CaseEquivOps]
  | .capture g c => by simp only [CaseEquivOps]; exact ⟨trivial, CaseEquivOps.refl lower c⟩
  | .choice bs => by simp only [CaseEquivOps]; exact CaseEquivOpsL.refl lower bs
  | .seq ops => by simp only [CaseEquivOps]; exact CaseEquivOpsL.refl lower ops
  | .rep id c mn mx gr => by
    simp only [CaseEquivOps]; exact ⟨trivial, trivial, trivial, trivial, CaseEquivOps.refl lower c⟩
  | .gfixed c mn mx len => by
    simp only [CaseEquivOps]; exact ⟨trivial, trivial, trivial, CaseEquivOps.refl lower c⟩
  | .rfixed c mn mx len => by
    simp only [CaseEquivOps]; exact ⟨trivial, trivial, trivial, CaseEquivOps.refl lower c⟩
  | .unamb c mn mx => by
    simp only [CaseEquivOps]; exact ⟨trivial, trivial, CaseEquivOps.refl lower c⟩
theorem CaseEquivOpsL.refl (lower : Nat → Nat) : (l : List Op) → CaseEquivOpsL lower l l
  | [] => by simp only [CaseEquivOpsL]
  | o :: os => by simp only [CaseEquivOpsL]; exact ⟨CaseEquivOps.refl lower o, CaseEquivOpsL.refl lower os⟩
end

/-! ### `allCls` is monotone -/

mutual
theorem allCls_mono {P Q : Ranges → Prop} (h : ∀ rs, P rs → Q rs) : (op : Op) → allCls P op → allCls Q op
  | .bol, _ => by simp only [allCls]
  | .eol, _ => by simp only [allCls]
  | .nothing, _ => by simp only [allCls]
  | .endProgram, _ => by simp only [allCls]
  | .atom _, _ => by simp only [allCls]
  | .backref _, _ => by simp only [allCls]
  | .cls rs, hp => by simp only [allCls] at hp ⊢; exact h rs hp
  | .capture _ c, hp => by simp only [allCls] at hp ⊢; exact allCls_mono h c hp
  | .choice bs, hp => by simp only [allCls] at hp ⊢; exact allClsL_mono h bs hp
  | .seq ops, hp => by simp only [allCls] at hp ⊢; exact allClsL_mono h ops hp
  | .rep _ c _ _ _, hp => by simp only [allCls] at hp ⊢; exact allCls_mono h c hp
  | .gfixed c _ _ _, hp => by simp only [allCls] at hp ⊢; exact allCls_mono h c hp
  | .rfixed c _ _ _, hp => by simp only [allCls] at hp ⊢; exact allCls_mono h c hp
  | .unamb c _ _, hp => by simp only [allCls] at hp ⊢; exact allCls_mono h c hp
theorem allClsL_mono {P Q : Ranges → Prop} (h : ∀ rs, P rs → Q rs) : (l : List Op) → allClsL P l → allClsL Q l
  | [], _ => by simp only [allClsL]
  | o :: os, hp => by
    simp only [allClsL] at hp ⊢
    exact ⟨allCls_mono h o hp.1, allClsL_mono h os hp.2⟩
end

theorem clsClosed.on {lower : Nat → Nat} {rs : Ranges} (h : clsClosed lower rs) (A : Nat → Bool) :
    clsClosedOn A lower rs := fun a b _ _ hab => h a b hab

theorem allClsClosed.on {lower : Nat → Nat} {op : Op} (h : allClsClosed lower op) (A : Nat → Bool) :
    allClsClosedOn A lower op := allCls_mono (fun _ hr => hr.on A) op h

theorem over_all (xs : List Nat) : Over (fun _ => true) xs := fun _ _ => rfl

/-! ### leaves under case-equivalent inputs -/

theorem len_eq {ctx ctx' : Ctx} (hin : CaseEquivInputs ctx.lower ctx.input ctx'.input) : ctx'.len = ctx.len :=
  hin.1.symm

theorem atom_leaf {ctx ctx' : Ctx} (hs : SameSettings ctx ctx') (hcb : ctx.caseBlind = true)
    (hin : CaseEquivInputs ctx.lower ctx.input ctx'.input) (cs : List Nat) (p : Nat) :
    prefixMatch ctx' cs (ctx'.input.drop p) = prefixMatch ctx cs (ctx.input.drop p) := by
  rw [CaseL.prefixMatch_settings ctx ctx' hs.caseBlind hs.lower]
  obtain ⟨hl, hx⟩ := CaseL.drop_pointwise ctx.lower ctx.input ctx'.input hin.1 hin.2 p
  exact (CaseL.prefixMatch_case_congr ctx hcb cs cs _ _ rfl (fun _ _ _ => C11.eqCB_refl _ _) hl hx).symm

theorem nl_leaf {ctx ctx' : Ctx} (hin : CaseEquivInputs ctx.lower ctx.input ctx'.input)
    (hnl : NewlineCaseless ctx.lower) (i : Nat) :
    ctx'.input[i]? = some 10 ↔ ctx.input[i]? = some 10 :=
  (CaseL.nl_congr ctx.lower hnl ctx.input ctx'.input hin.1 hin.2 i).symm

theorem cls_leaf {ctx ctx' : Ctx} (A : Nat → Bool) (hin : CaseEquivInputs ctx.lower ctx.input ctx'.input)
    (hA : Over A ctx.input) (hA' : Over A ctx'.input)
    (rs : Ranges) (hcl : clsClosedOn A ctx.lower rs) (i : Nat) :
    (∃ c, ctx'.input[i]? = some c ∧ clsContains rs c = true) ↔
      (∃ c, ctx.input[i]? = some c ∧ clsContains rs c = true) :=
  (CaseL.cls_congr A ctx.lower rs hcl ctx.input ctx'.input hin.1 hin.2 hA hA' i).symm

/-! ### 2. replacing input characters by case counterparts -/

mutual
theorem input_inv_op (A : Nat → Bool) (ctx ctx' : Ctx) (hs : SameSettings ctx ctx') (hcb : ctx.caseBlind = true)
    (hin : CaseEquivInputs ctx.lower ctx.input ctx'.input) (hA : Over A ctx.input) (hA' : Over A ctx'.input)
    (hnl : NewlineCaseless ctx.lower) :
    (op : Op) → allClsClosedOn A ctx.lower op → ∀ p q, OpR ctx op p q ↔ OpR ctx' op p q
  | .bol, _, p, q => by
    simp only [OpR, hs.multiLine, len_eq hin, nl_leaf hin hnl]
  | .eol, _, p, q => by
    simp only [OpR, hs.multiLine, len_eq hin, nl_leaf hin hnl]
  | .nothing, _, p, q => by simp only [OpR]
  | .endProgram, _, p, q => by simp only [OpR]
  | .atom cs, _, p, q => by
    simp only [OpR, len_eq hin, atom_leaf hs hcb hin]
  | .cls rs, hc, p, q => by
    simp only [allClsClosedOn, allCls] at hc
    simp only [OpR, cls_leaf A hin hA hA' rs hc]
  | .backref _, _, p, q => by simp only [OpR, len_eq hin]
  | .capture _ c, hc, p, q => by
    simp only [allClsClosedOn, allCls] at hc
    simp only [OpR]
    exact input_inv_op A ctx ctx' hs hcb hin hA hA' hnl c hc p q
  | .choice bs, hc, p, q => by
    simp only [allClsClosedOn, allCls] at hc
    simp only [OpR]
    exact input_inv_any A ctx ctx' hs hcb hin hA hA' hnl bs hc p q
  | .seq ops, hc, p, q => by
    simp only [allClsClosedOn, allCls] at hc
    simp only [OpR]
    exact input_inv_seq A ctx ctx' hs hcb hin hA hA' hnl ops hc p q
  | .rep _ c mn mx _, hc, p, q => by
    simp only [allClsClosedOn, allCls] at hc
    simp only [OpR]
    exact CaseL.rep_congr (fun a b => input_inv_op A ctx ctx' hs hcb hin hA hA' hnl c hc a b) mn mx p q
  | .gfixed c mn mx _, hc, p, q => by
    simp only [allClsClosedOn, allCls] at hc
    simp only [OpR]
    exact CaseL.rep_congr (fun a b => input_inv_op A ctx ctx' hs hcb hin hA hA' hnl c hc a b) mn mx p q
  | .rfixed c mn mx _, hc, p, q => by
    simp only [allClsClosedOn, allCls] at hc
    simp only [OpR]
    exact CaseL.rep_congr (fun a b => input_inv_op A ctx ctx' hs hcb hin hA hA' hnl c hc a b) mn mx p q
  | .unamb c mn mx, hc, p, q => by
    simp only [allClsClosedOn, allCls] at hc
    simp only [OpR]
    exact CaseL.rep_congr (fun a b => input_inv_op A ctx ctx' hs hcb hin hA hA' hnl c hc a b) mn mx p q
theorem input_inv_any (A : Nat → Bool) (ctx ctx' : Ctx) (hs : SameSettings ctx ctx') (hcb : ctx.caseBlind = true)
    (hin : CaseEquivInputs ctx.lower ctx.input ctx'.input) (hA : Over A ctx.input) (hA' : Over A ctx'.input)
    (hnl : NewlineCaseless ctx.lower) :
    (bs : List Op) → allClsL (clsClosedOn A ctx.lower) bs → ∀ p q, OpRAny ctx bs p q ↔ OpRAny ctx' bs p q
  | [], _, p, q => by simp only [OpRAny]
  | b :: bs, hc, p, q => by
    simp only [allClsL] at hc
    simp only [OpRAny]
    exact or_congr (input_inv_op A ctx ctx' hs hcb hin hA hA' hnl b hc.1 p q)
      (input_inv_any A ctx ctx' hs hcb hin hA hA' hnl bs hc.2 p q)
theorem input_inv_seq (A : Nat → Bool) (ctx ctx' : Ctx) (hs : SameSettings ctx ctx') (hcb : ctx.caseBlind = true)
    (hin : CaseEquivInputs ctx.lower ctx.input ctx'.input) (hA : Over A ctx.input) (hA' : Over A ctx'.input)
    (hnl : NewlineCaseless ctx.lower) :
    (ops : List Op) → allClsL (clsClosedOn A ctx.lower) ops → ∀ p q, OpRSeq ctx ops p q ↔ OpRSeq ctx' ops p q
  | [], _, p, q => by simp only [OpRSeq]
  | o :: os, hc, p, q => by
    simp only [allClsL] at hc
    simp only [OpRSeq]
    exact exists_congr (fun m => and_congr (input_inv_op A ctx ctx' hs hcb hin hA hA' hnl o hc.1 p m)
      (input_inv_seq A ctx ctx' hs hcb hin hA hA' hnl os hc.2 m q))
end

/-- **input case invariance of the language, relative to an alphabet**: under flag i, for a tree
    whose classes are closed under case on `A`, replacing the characters of an input over `A` by case
    counterparts in `A` changes no span of the language — for every operation, back-references
    included -/
theorem OpR_input_case_invariant_on (A : Nat → Bool) (ctx : Ctx) (ys : List Nat) (hcb : ctx.caseBlind = true)
    (hin : CaseEquivInputs ctx.lower ctx.input ys) (hA : Over A ctx.input) (hA' : Over A ys)
    (hnl : NewlineCaseless ctx.lower)
    (op : Op) (hc : allClsClosedOn A ctx.lower op) (p q : Nat) :
    OpR ctx op p q ↔ OpR { ctx with input := ys } op p q :=
  input_inv_op A ctx { ctx with input := ys } (sameSettings_input ctx ys) hcb hin hA hA' hnl op hc p q

/-- **input case invariance of the language** (the alphabet is everything) -/
theorem OpR_input_case_invariant (ctx : Ctx) (ys : List Nat) (hcb : ctx.caseBlind = true)
    (hin : CaseEquivInputs ctx.lower ctx.input ys) (hnl : NewlineCaseless ctx.lower)
    (op : Op) (hc : allClsClosed ctx.lower op) (p q : Nat) :
    OpR ctx op p q ↔ OpR { ctx with input := ys } op p q :=
  OpR_input_case_invariant_on (fun _ => true) ctx ys hcb hin (over_all _) (over_all _) hnl op (hc.on _) p q

/-- the set of spans `(p, q)` of the language is the same for both inputs -/
theorem language_case_invariant_on (A : Nat → Bool) (ctx : Ctx) (ys : List Nat) (hcb : ctx.caseBlind = true)
    (hin : CaseEquivInputs ctx.lower ctx.input ys) (hA : Over A ctx.input) (hA' : Over A ys)
    (hnl : NewlineCaseless ctx.lower) (op : Op) (hc : allClsClosedOn A ctx.lower op) :
    OpR ctx op = OpR { ctx with input := ys } op := by
  funext p q
  exact propext (OpR_input_case_invariant_on A ctx ys hcb hin hA hA' hnl op hc p q)

theorem language_case_invariant (ctx : Ctx) (ys : List Nat) (hcb : ctx.caseBlind = true)
    (hin : CaseEquivInputs ctx.lower ctx.input ys) (hnl : NewlineCaseless ctx.lower)
    (op : Op) (hc : allClsClosed ctx.lower op) :
    OpR ctx op = OpR { ctx with input := ys } op :=
  language_case_invariant_on (fun _ => true) ctx ys hcb hin (over_all _) (over_all _) hnl op (hc.on _)

/-- in particular the input may be lower-cased as a whole -/
theorem language_lowercased_input (ctx : Ctx) (hcb : ctx.caseBlind = true)
    (hidem : ∀ x, ctx.lower (ctx.lower x) = ctx.lower x) (hnl : NewlineCaseless ctx.lower)
    (op : Op) (hc : allClsClosed ctx.lower op) :
    OpR ctx op = OpR { ctx with input := ctx.input.map ctx.lower } op :=
  language_case_invariant ctx _ hcb (CaseEquivInputs.map_lower ctx.lower hidem ctx.input) hnl op hc

/-- for a program: the matcher context of `pr` on `ys` is that on `xs` with the input replaced, so
    the language of a case-blind program is the same on case-equivalent inputs -/
theorem prog_language_case_invariant_on (A : Nat → Bool) (pr : Prog) (lower : Nat → Nat) (xs ys : List Nat)
    (hcb : pr.caseBlind = true) (hin : CaseEquivInputs lower xs ys) (hA : Over A xs) (hA' : Over A ys)
    (hnl : NewlineCaseless lower) (hc : allClsClosedOn A lower pr.op) :
    OpR (pr.ctx lower xs) pr.op = OpR (pr.ctx lower ys) pr.op :=
  language_case_invariant_on A (pr.ctx lower xs) ys hcb hin hA hA' hnl pr.op hc

/-! ### 3. replacing pattern letters by case counterparts -/

mutual
theorem pattern_inv_op (ctx : Ctx) (hcb : ctx.caseBlind = true) :
    (op op' : Op) → CaseEquivOps ctx.lower op op' → ∀ p q, OpR ctx op p q ↔ OpR ctx op' p q
  | .bol, op', he, p, q => by
    cases op' <;> simp only [CaseEquivOps] at he
    exact Iff.rfl
  | .eol, op', he, p, q => by
    cases op' <;> simp only [CaseEquivOps] at he
    exact Iff.rfl
  | .nothing, op', he, p, q => by
    cases op' <;> simp only [CaseEquivOps] at he
    exact Iff.rfl
  | .endProgram, op', he, p, q => by
    cases op' <;> simp only [CaseEquivOps] at he
    exact Iff.rfl
  | .atom cs, op', he, p, q => by
    cases op' <;> simp only [CaseEquivOps] at he
    rename_i ds
    simp only [OpR, he.1,
      CaseL.prefixMatch_case_congr ctx hcb cs ds _ _ he.1 he.2 rfl (fun _ _ _ => C11.eqCB_refl _ _)]
  | .cls rs, op', he, p, q => by
    cases op' <;> simp only [CaseEquivOps] at he
    subst he
    exact Iff.rfl
  | .backref g, op', he, p, q => by
    cases op' <;> simp only [CaseEquivOps] at he
    simp only [OpR]
  | .capture g c, op', he, p, q => by
    cases op' <;> simp only [CaseEquivOps] at he
    simp only [OpR]
    exact pattern_inv_op ctx hcb c _ he.2 p q
  | .choice bs, op', he, p, q => by
    cases op' <;> simp only [CaseEquivOps] at he
    simp only [OpR]
    exact pattern_inv_any ctx hcb bs _ he p q
  | .seq ops, op', he, p, q => by
    cases op' <;> simp only [CaseEquivOps] at he
    simp only [OpR]
    exact pattern_inv_seq ctx hcb ops _ he p q
  | .rep id c mn mx gr, op', he, p, q => by
    cases op' <;> simp only [CaseEquivOps] at he
    obtain ⟨_, rfl, rfl, _, hec⟩ := he
    simp only [OpR]
    exact CaseL.rep_congr (fun a b => pattern_inv_op ctx hcb c _ hec a b) _ _ p q
  | .gfixed c mn mx len, op', he, p, q => by
    cases op' <;> simp only [CaseEquivOps] at he
    obtain ⟨rfl, rfl, _, hec⟩ := he
    simp only [OpR]
    exact CaseL.rep_congr (fun a b => pattern_inv_op ctx hcb c _ hec a b) _ _ p q
  | .rfixed c mn mx len, op', he, p, q => by
    cases op' <;> simp only [CaseEquivOps] at he
    obtain ⟨rfl, rfl, _, hec⟩ := he
    simp only [OpR]
    exact CaseL.rep_congr (fun a b => pattern_inv_op ctx hcb c _ hec a b) _ _ p q
  | .unamb c mn mx, op', he, p, q => by
    cases op' <;> simp only [CaseEquivOps] at he
    obtain ⟨rfl, rfl, hec⟩ := he
    simp only [OpR]
    exact CaseL.rep_congr (fun a b => pattern_inv_op ctx hcb c _ hec a b) _ _ p q
theorem pattern_inv_any (ctx : Ctx) (hcb : ctx.caseBlind = true) :
    (bs bs' : List Op) → CaseEquivOpsL ctx.lower bs bs' → ∀ p q, OpRAny ctx bs p q ↔ OpRAny ctx bs' p q
  | [], bs', he, p, q => by
    cases bs' <;> simp only [CaseEquivOpsL] at he
    exact Iff.rfl
  | b :: bs, bs', he, p, q => by
    cases bs' <;> simp only [CaseEquivOpsL] at he
    simp only [OpRAny]
    exact or_congr (pattern_inv_op ctx hcb b _ he.1 p q) (pattern_inv_any ctx hcb bs _ he.2 p q)
theorem pattern_inv_seq (ctx : Ctx) (hcb : ctx.caseBlind = true) :
    (ops ops' : List Op) → CaseEquivOpsL ctx.lower ops ops' → ∀ p q, OpRSeq ctx ops p q ↔ OpRSeq ctx ops' p q
  | [], ops', he, p, q => by
    cases ops' <;> simp only [CaseEquivOpsL] at he
    exact Iff.rfl
  | o :: os, ops', he, p, q => by
    cases ops' <;> simp only [CaseEquivOpsL] at he
    simp only [OpRSeq]
    exact exists_congr (fun m => and_congr (pattern_inv_op ctx hcb o _ he.1 p m)
      (pattern_inv_seq ctx hcb os _ he.2 m q))
end

/-- **pattern case invariance of the language**: under flag i, two trees that differ only in the
    case of their literal characters have the same language (no condition on classes or on U+000A) -/
theorem OpR_pattern_case_invariant (ctx : Ctx) (hcb : ctx.caseBlind = true) (op op' : Op)
    (he : CaseEquivOps ctx.lower op op') (p q : Nat) : OpR ctx op p q ↔ OpR ctx op' p q :=
  pattern_inv_op ctx hcb op op' he p q

/-- both at once: case variants of the pattern letters AND of the input characters -/
theorem OpR_case_invariant (ctx : Ctx) (ys : List Nat) (hcb : ctx.caseBlind = true)
    (hin : CaseEquivInputs ctx.lower ctx.input ys) (hnl : NewlineCaseless ctx.lower)
    (op op' : Op) (he : CaseEquivOps ctx.lower op op') (hc : allClsClosed ctx.lower op) (p q : Nat) :
    OpR ctx op p q ↔ OpR { ctx with input := ys } op' p q :=
  (OpR_input_case_invariant ctx ys hcb hin hnl op hc p q).trans
    (OpR_pattern_case_invariant { ctx with input := ys } hcb op op' he p q)

/-! ### 4. without flag i -/

/-- without flag i a literal matches only the identical characters, at the level of the language -/
theorem OpR_exact_without_i (ctx : Ctx) (hcb : ctx.caseBlind = false) (cs : List Nat) (p q : Nat) :
    OpR ctx (.atom cs) p q ↔
      q = p + cs.length ∧ q ≤ ctx.len ∧ (ctx.input.drop p).take cs.length = cs := by
  simp only [OpR, C11.atom_exact ctx hcb, List.prefix_iff_eq_take]
  exact and_congr Iff.rfl (and_congr Iff.rfl eq_comm)

/-! ### 5. the real table -/

/-- `Env.std.lower` is the table function of the generated ICU table -/
theorem stdLower_eq : Env.std.lower = CaseL.tableLower Gen.lowerTable := rfl

/-- no entry of the ICU simple-lower-case table has U+000A as key or value … -/
theorem lowerTable_avoids_nl : Gen.lowerTable.all (fun e => e.1 != 10 && e.2 != 10) = true := by decide +kernel

/-- … so U+000A has no case counterpart in the real data -/
theorem newlineCaseless_std : NewlineCaseless Env.std.lower := by
  intro a h
  rw [stdLower_eq] at h
  exact CaseL.tableLower_isolated Gen.lowerTable 10 lowerTable_avoids_nl a h

/-- a decidable sufficient check of `clsClosedOn A` for the real table: key and value of every
    table entry whose key is in `A` agree on membership -/
def clsClosedOnB (A : Nat → Bool) (rs : Ranges) : Bool :=
  Gen.lowerTable.all (fun e => !A e.1 || clsContains rs e.1 == clsContains rs e.2)

theorem clsClosedOn_of_check (A : Nat → Bool) (rs : Ranges) (h : clsClosedOnB A rs = true) :
    clsClosedOn A Env.std.lower rs := by
  intro a b ha hb hab
  rw [stdLower_eq] at hab
  exact CaseL.tableLower_closed A Gen.lowerTable rs h a b ha hb hab

theorem clsClosed_of_check (rs : Ranges) (h : clsClosedOnB (fun _ => true) rs = true) :
    clsClosed Env.std.lower rs :=
  fun a b hab => clsClosedOn_of_check _ rs h a b rfl rfl hab

mutual
/-- a Boolean test on every class node of the tree -/
def allClsB (f : Ranges → Bool) : Op → Bool
  | .cls rs => f rs
  | .capture _ c => allClsB f c
  | .choice bs => allClsBL f bs
  | .seq ops => allClsBL f ops
  | .rep _ c _ _ _ => allClsB f c
  | .gfixed c _ _ _ => allClsB f c
  | .rfixed c _ _ _ => allClsB f c
  | .unamb c _ _ => allClsB f c
  | _ => true
termination_by structural o => o
def allClsBL (f : Ranges → Bool) : List Op → Bool
  | [] => true
  | o :: os => allClsB f o && allClsBL f os
termination_by structural l => l
end

mutual
theorem allCls_of_B {f : Ranges → Bool} {P : Ranges → Prop} (h : ∀ rs, f rs = true → P rs) :
    (op : Op) → allClsB f op = true → allCls P op
  | .bol, _ => by simp only [allCls]
  | .eol, _ => by simp only [allCls]
  | .nothing, _ => by simp only [allCls]
  | .endProgram, _ => by simp only [allCls]
  | .atom _, _ => by simp only [allCls]
  | .backref _, _ => by simp only [allCls]
  | .cls rs, hb => by simp only [allClsB] at hb; simp only [allCls]; exact h rs hb
  | .capture _ c, hb => by simp only [allClsB] at hb; simp only [allCls]; exact allCls_of_B h c hb
  | .choice bs, hb => by simp only [allClsB] at hb; simp only [allCls]; exact allClsL_of_B h bs hb
  | .seq ops, hb => by simp only [allClsB] at hb; simp only [allCls]; exact allClsL_of_B h ops hb
  | .rep _ c _ _ _, hb => by simp only [allClsB] at hb; simp only [allCls]; exact allCls_of_B h c hb
  | .gfixed c _ _ _, hb => by simp only [allClsB] at hb; simp only [allCls]; exact allCls_of_B h c hb
  | .rfixed c _ _ _, hb => by simp only [allClsB] at hb; simp only [allCls]; exact allCls_of_B h c hb
  | .unamb c _ _, hb => by simp only [allClsB] at hb; simp only [allCls]; exact allCls_of_B h c hb
theorem allClsL_of_B {f : Ranges → Bool} {P : Ranges → Prop} (h : ∀ rs, f rs = true → P rs) :
    (l : List Op) → allClsBL f l = true → allClsL P l
  | [], _ => by simp only [allClsL]
  | o :: os, hb => by
    simp only [allClsBL, Bool.and_eq_true] at hb
    simp only [allClsL]
    exact ⟨allCls_of_B h o hb.1, allClsL_of_B h os hb.2⟩
end

/-- the decidable check for a whole tree, against the real table -/
theorem allClsClosedOn_of_check (A : Nat → Bool) (op : Op) (h : allClsB (clsClosedOnB A) op = true) :
    allClsClosedOn A Env.std.lower op :=
  allCls_of_B (clsClosedOn_of_check A) op h

theorem allClsClosed_of_check (op : Op) (h : allClsB (clsClosedOnB (fun _ => true)) op = true) :
    allClsClosed Env.std.lower op :=
  allCls_of_B clsClosed_of_check op h

/-! ### 6. non-vacuity, and the hypotheses are needed -/

theorem CaseEquivInputs.nil (lower : Nat → Nat) : CaseEquivInputs lower [] [] := CaseEquivInputs.refl lower []

theorem CaseEquivInputs.cons {lower : Nat → Nat} {x y : Nat} {xs ys : List Nat}
    (h : eqCB lower x y = true) (ht : CaseEquivInputs lower xs ys) : CaseEquivInputs lower (x :: xs) (y :: ys) := by
  refine ⟨by simp only [List.length_cons, ht.1], fun k h1 h2 => ?_⟩
  cases k with
  | zero => exact h
  | succ k =>
    simp only [List.getElem_cons_succ]
    simp only [List.length_cons] at h1 h2
    exact ht.2 k (by omega) (by omega)

/-- ASCII lower-casing -/
def asciiLower (c : Nat) : Nat := if 65 ≤ c ∧ c ≤ 90 then c + 32 else c

/-- `[A-Za-z]` -/
def letters : Ranges := [(65, 91), (97, 123)]

theorem letters_closed : clsClosed asciiLower letters := by
  intro a b h
  rw [C11.eqCB_iff_lower] at h
  unfold asciiLower at h
  rw [Bool.eq_iff_iff]
  simp only [letters, clsContains, Bool.or_false, Bool.or_eq_true, Bool.and_eq_true, decide_eq_true_eq]
  split at h <;> split at h <;> omega

theorem newlineCaseless_ascii : NewlineCaseless asciiLower := by
  intro a h
  rw [C11.eqCB_iff_lower] at h
  unfold asciiLower at h
  split at h <;> simp at h <;> omega

/-- `^Hi[A-Za-z]*\1$` as a tree (with a back-reference node) -/
def exTree : Op :=
  .seq [.bol, .capture 1 (.atom [72, 105]), .rep 1 (.cls letters) 0 usizeMax true, .backref 1, .eol, .endProgram]
/-- the same with the literal in the other case -/
def exTree' : Op :=
  .seq [.bol, .capture 1 (.atom [104, 73]), .rep 1 (.cls letters) 0 usizeMax true, .backref 1, .eol, .endProgram]

def exCtx (input : List Nat) : Ctx :=
  { input := input, caseBlind := true, multiLine := true, hasBackrefs := true, maxParens := 2, lower := asciiLower }

example : allClsClosed asciiLower exTree := by
  simp only [exTree, allClsClosed, allCls, allClsL, and_true, true_and]
  exact letters_closed

example : CaseEquivOps asciiLower exTree exTree' := by
  simp only [exTree, exTree', CaseEquivOps, CaseEquivOpsL, and_true, true_and]
  exact .cons (by decide) (.cons (by decide) (.nil _))

/-- "Hi\nxY" and "hI\nXy" -/
example : CaseEquivInputs asciiLower [72, 105, 10, 120, 89] [104, 73, 10, 88, 121] :=
  .cons (by decide) (.cons (by decide) (.cons (by decide) (.cons (by decide) (.cons (by decide) (.nil _)))))

/-- the theorems applied: same language for `exTree` on "HiabHi" and `exTree'` on "hIAbhi" -/
example (p q : Nat) :
    OpR (exCtx [72, 105, 97, 98, 72, 105]) exTree p q ↔ OpR (exCtx [104, 73, 65, 98, 104, 105]) exTree' p q :=
  OpR_case_invariant (exCtx [72, 105, 97, 98, 72, 105]) [104, 73, 65, 98, 104, 105] rfl
    (.cons (by decide) (.cons (by decide) (.cons (by decide) (.cons (by decide) (.cons (by decide)
      (.cons (by decide) (.nil _)))))))
    newlineCaseless_ascii exTree exTree'
    (by simp only [exTree, exTree', CaseEquivOps, CaseEquivOpsL, and_true, true_and]
        exact .cons (by decide) (.cons (by decide) (.nil _)))
    (by simp only [exTree, allClsClosed, allCls, allClsL, and_true, true_and]; exact letters_closed)
    p q

/-- … and that language is not empty: a small tree with a span in it, transported to the variant -/
def smallTree : Op := .seq [.atom [72, 105], .cls letters]
theorem small_span : OpR (exCtx [104, 73, 120]) smallTree 0 3 := by
  simp only [smallTree, OpR, OpRSeq]
  exact ⟨2, ⟨rfl, by decide, by decide⟩, 3, ⟨rfl, 120, rfl, by decide⟩, rfl⟩
example : OpR (exCtx [72, 105, 88]) smallTree 0 3 :=
  (OpR_input_case_invariant (exCtx [104, 73, 120]) [72, 105, 88] rfl
    (.cons (by decide) (.cons (by decide) (.cons (by decide) (.nil _)))) newlineCaseless_ascii smallTree
    (by simp only [smallTree, allClsClosed, allCls, allClsL, and_true, true_and]; exact letters_closed) 0 3).1 small_span

/-- the statement WITHOUT the hypothesis on classes … -/
def OpR_input_case_invariant_any_class : Prop :=
  ∀ (ctx : Ctx) (ys : List Nat), ctx.caseBlind = true → CaseEquivInputs ctx.lower ctx.input ys →
    NewlineCaseless ctx.lower → ∀ op p q, OpR ctx op p q ↔ OpR { ctx with input := ys } op p q

/-- … is false: a class that is not closed under case (as `\p{Lu}` is not — "class escapes are
    unaffected by the flag") tells "A" from "a" also under flag i -/
theorem OpR_input_case_invariant_any_class_false : ¬ OpR_input_case_invariant_any_class := by
  intro h
  have h1 := (h (exCtx [65]) [97] rfl (.cons (by decide) (.nil _)) newlineCaseless_ascii (.cls [(65, 91)]) 0 1).1
    (by simp only [OpR]; exact ⟨by decide, 65, rfl, by decide⟩)
  simp only [OpR] at h1
  obtain ⟨_, c, hc, hm⟩ := h1
  have : c = 97 := by simpa [exCtx] using hc.symm
  subst this
  exact absurd hm (by decide)

/-- the statement WITHOUT the hypothesis on U+000A … -/
def OpR_input_case_invariant_any_newline : Prop :=
  ∀ (ctx : Ctx) (ys : List Nat), ctx.caseBlind = true → CaseEquivInputs ctx.lower ctx.input ys →
    ∀ op, allClsClosed ctx.lower op → ∀ p q, OpR ctx op p q ↔ OpR { ctx with input := ys } op p q

/-- … is false for a lower-casing function that maps some other character to U+000A: `^` under
    flag m compares with U+000A exactly -/
theorem OpR_input_case_invariant_any_newline_false : ¬ OpR_input_case_invariant_any_newline := by
  intro h
  let ctx : Ctx := { input := [10, 97], caseBlind := true, multiLine := true, hasBackrefs := false,
                     maxParens := 1, lower := fun c => if c = 11 then 10 else c }
  have h1 := (h ctx [11, 97] rfl (.cons (by decide) (.cons (by decide) (.nil _))) .bol
    (by simp only [allClsClosed, allCls]) 1 1).1
    (by simp only [OpR]; exact ⟨by decide, .inr ⟨rfl, rfl, by decide⟩⟩)
  simp only [OpR] at h1
  rcases h1.2 with h0 | ⟨_, h2, _⟩
  · cases h0
  · exact absurd h2 (by decide)

/-! ### the real data: compiled programs, and U+0130 -/

mutual
/-- the class nodes of a tree, left to right -/
def clsList : Op → List Ranges
  | .cls rs => [rs]
  | .capture _ c => clsList c
  | .choice bs => clsListL bs
  | .seq ops => clsListL ops
  | .rep _ c _ _ _ => clsList c
  | .gfixed c _ _ _ => clsList c
  | .rfixed c _ _ _ => clsList c
  | .unamb c _ _ => clsList c
  | _ => []
termination_by structural o => o
def clsListL : List Op → List Ranges
  | [] => []
  | o :: os => clsList o ++ clsListL os
termination_by structural l => l
end

/-- everything but U+0130 LATIN CAPITAL LETTER I WITH DOT ABOVE -/
def notDottedI (c : Nat) : Bool := c != 304

/-- `^[a-k]+x$` compiled by the model's compiler with flags i, m against the real tables -/
def compiledEx : Out Prog :=
  compileCore Env.std { caseBlind := true, multiLine := true } [94, 91, 97, 45, 107, 93, 43, 120, 36] true

/-- it compiles, is case-blind, and its one class is `[A-Ka-k]` plus U+212A KELVIN SIGN -/
theorem compiledEx_cls : (match compiledEx with
    | .ok pr => pr.caseBlind && pr.multiLine && (clsList pr.op == [[(65, 76), (97, 108), (8490, 8491)]])
    | _ => false) = true := by decide +kernel

/-- a real compiled program meets the class hypothesis on every alphabet without U+0130 … -/
theorem compiledEx_closed : (match compiledEx with
    | .ok pr => allClsB (clsClosedOnB notDottedI) pr.op
    | _ => false) = true := by decide +kernel

/-- … but not on the full alphabet (see `dotted_I_finding`) -/
theorem compiledEx_not_closed : (match compiledEx with
    | .ok pr => allClsB (clsClosedOnB (fun _ => true)) pr.op
    | _ => true) = false := by decide +kernel

/-- so its language is the same on all case-equivalent inputs that avoid U+0130 -/
theorem compiledEx_invariant (pr : Prog) (hpr : compiledEx = .ok pr) (xs ys : List Nat)
    (hin : CaseEquivInputs Env.std.lower xs ys) (hx : Over notDottedI xs) (hy : Over notDottedI ys) :
    OpR (pr.ctx Env.std.lower xs) pr.op = OpR (pr.ctx Env.std.lower ys) pr.op := by
  have h1 := compiledEx_cls
  have h2 := compiledEx_closed
  rw [hpr] at h1 h2
  simp only [Bool.and_eq_true] at h1
  exact prog_language_case_invariant_on notDottedI pr Env.std.lower xs ys h1.1.1 hin hx hy
    newlineCaseless_std (allClsClosedOn_of_check notDottedI pr.op h2)

/-- `^[a-h]+x$`: a compiled program whose class is closed on the full alphabet -/
def compiledEx2 : Out Prog :=
  compileCore Env.std { caseBlind := true, multiLine := true } [94, 91, 97, 45, 104, 93, 43, 120, 36] true
theorem compiledEx2_closed : (match compiledEx2 with
    | .ok pr => allClsB (clsClosedOnB (fun _ => true)) pr.op && pr.caseBlind
    | _ => false) = true := by decide +kernel

/-- FINDING (the mirror image of finding 18, "`[s]`/i matches U+017F, `s`/i does not"): under flag i
    the literal `i` matches U+0130 — ICU simple lower-casing maps U+0130 to `i` — while the class
    `[i]` does not — the case closure of `i` is `{I}`.  So "a literal character, a character or
    range inside a class … match an input character whenever the two are … simple upper/lower-case
    counterparts" fails for the class at U+0130, outside the property's stated alphabets.
    (The real engine answers the same: `i`/i on "İ" → true, `[i]`/i on "İ" → false.) -/
theorem dotted_I_finding :
    (match compileCore Env.std { caseBlind := true } [105] true with
      | .ok pr => pr.isMatch Env.std.lower [304]
      | _ => .diverge) = .ok true ∧
    (match compileCore Env.std { caseBlind := true } [91, 105, 93] true with
      | .ok pr => pr.isMatch Env.std.lower [304]
      | _ => .diverge) = .ok false ∧
    (match compileCore Env.std { caseBlind := true } [91, 105, 93] true with
      | .ok pr => pr.isMatch Env.std.lower [73]
      | _ => .diverge) = .ok true := by decide +kernel

/-- the table entry behind it: U+0130 is the only key of the lower-case table that maps to `i`
    besides `I`, and `[i]` under flag i is `{I, i}` -/
theorem dotted_I_entry : Env.std.lower 304 = 105 ∧ Env.std.closure 105 = [73] ∧ Env.std.closure 304 = [] := by
  decide +kernel

end Rx.C11b
