/-
  Props/WF — the compiler establishes the hypotheses of the engine theorems.

  C01 / C02 / C05 / C06 / C08 assume decidable predicates of the compiled program (`wfOp`,
  `capsPos`, `FactsOK`, "back-reference ⇒ OPT_HASBACKREFS").  Here: every program `compileCore`
  produces satisfies them, provided no recorded body length is saturated (`noSat`: quantifier
  bounds whose products stay below 2^64 — the driver counts the exceptions at run time).
-/
import RxModel.Model.Compile
import RxModel.Spec.OpLang
import RxModel.Props.C02
import RxModel.Props.C05
namespace Rx.WF
open Rx

mutual
/-- no recorded body length of a fixed-length repeat is saturated -/
def noSat : Op → Bool
  | .capture _ c => noSat c
  | .choice bs => noSatL bs
  | .seq ops => noSatL ops
  | .rep _ c _ _ _ => noSat c
  | .gfixed c _ _ len => noSat c && decide (len < usizeMax)
  | .rfixed c _ _ len => noSat c && decide (len < usizeMax)
  | .unamb c _ _ => noSat c
  | _ => true
termination_by structural o => o
def noSatL : List Op → Bool
  | [] => true
  | o :: os => noSat o && noSatL os
termination_by structural l => l
end

/-- what the parser builds is well-formed, numbers its groups from 1 upward, and raises the
    back-reference flag whenever it emits a back-reference -/
theorem parse_wf (c : PC) (fuel : Nat) (s : PS) (top : Bool) (op : Op) (s' : PS)
    (h : parseExpr c fuel s top = .ok op s') (hs : 1 ≤ s.parens) (hns : noSat op = true) :
    wfOp op = true ∧ C02.capsPos op = true ∧ (hasBackref op = true → s'.hasBackrefs = true) := by
  sorry

/-- `optimize` keeps trees well-formed … -/
theorem optimize_wf (env : Env) (fl : CFlags) (op : Op) (h : wfOp op = true) : wfOp (optimize env fl op) = true := by
  sorry

/-- … keeps a fixed match length … -/
theorem optimize_matchLen (env : Env) (fl : CFlags) (op : Op) (h : wfOp op = true) (l : Nat)
    (hl : matchLen op = some l) : matchLen (optimize env fl op) = some l := by
  sorry

/-- … keeps group numbers positive and introduces no back-reference -/
theorem optimize_caps (env : Env) (fl : CFlags) (op : Op) (h : C02.capsPos op = true) :
    C02.capsPos (optimize env fl op) = true := by
  sorry

theorem optimize_backref (env : Env) (fl : CFlags) (op : Op) (h : hasBackref (optimize env fl op) = true) :
    hasBackref op = true := by
  sorry

/-- numbering the repeat nodes changes none of the predicates -/
theorem numberReps_wf (op : Op) (n : Nat) :
    wfOp (numberReps op n).1 = wfOp op ∧ C02.capsPos (numberReps op n).1 = C02.capsPos op ∧
    hasBackref (numberReps op n).1 = hasBackref op := by
  sorry

/-- every optimised program the compiler produces satisfies the hypotheses of the engine theorems -/
theorem compile_wf (env : Env) (fl : CFlags) (pat : List Nat) (pr : Prog)
    (h : compileCore env fl pat true = .ok pr)
    (hns : ∀ op s, parseExpr { pat := pat, fl := fl, env := env } (4 * pat.length + 16) {} true = .ok op s →
              noSat (optimize env fl op) = true ∧ noSat op = true) :
    wfOp pr.op = true ∧ C02.capsPos pr.op = true ∧ (hasBackref pr.op = true → pr.hasBackrefs = true) ∧
    (hasBackref pr.op = false → C05.FactsOK pr) := by
  sorry

end Rx.WF
