/-
  Props/WF — the compiler establishes the hypotheses of the engine theorems.

  C01 / C02 / C05 / C06 / C08 assume decidable predicates of the compiled program (`wfOp`,
  `capsPos`, `FactsOK`, "back-reference ⇒ OPT_HASBACKREFS").  Here: every program `compileCore`
  produces satisfies them, provided no recorded body length is saturated (`noSat`: quantifier
  bounds whose products stay below 2^64 — the driver counts the exceptions at run time).
-/
import RxModel.Model.Compile
import RxModel.Spec.OpLang
import RxModel.Props.C02
import RxModel.Props.C05
import RxModel.Proofs.WFLemmas
namespace Rx.WF
open Rx

/- `noSat` / `noSatL` ("no recorded body length of a fixed-length repeat is saturated") are defined,
   unchanged, in Proofs/WFLemmas (the helper lemmas need them). -/

/-- what the parser builds is well-formed, numbers its groups from 1 upward, and raises the
    back-reference flag whenever it emits a back-reference -/
theorem parse_wf (c : PC) (fuel : Nat) (s : PS) (top : Bool) (op : Op) (s' : PS)
    (h : parseExpr c fuel s top = .ok op s') (hs : 1 ≤ s.parens) (hns : noSat op = true) :
    wfOp op = true ∧ C02.capsPos op = true ∧ (hasBackref op = true → s'.hasBackrefs = true) := by
  have g := (parse_G c fuel).1 s top hs op s' h
  exact ⟨g.1 hns, g.2.1, g.2.2⟩

/-- `optimize` keeps trees well-formed … -/
theorem optimize_wf (env : Env) (fl : CFlags) (op : Op) (h : wfOp op = true) : wfOp (optimize env fl op) = true :=
  (wm_optimize env fl op h).1

/-- ORIGINAL STATEMENT, FALSE AS STATED (kept visible; refuted by `optimize_matchLen_false`):
    `optimize` keeps a fixed match length.  It fails at saturation: `matchLen (.seq [o])` is
    `satAdd (matchLen o) 0`, which is `usizeMax` for an atom of more than `usizeMax` characters,
    and `optimize` rewrites `.seq [o]` to `o`, whose `matchLen` is the unsaturated length.
    True for every length below `usizeMax`: `optimize_matchLen_partial`. -/
def optimize_matchLen : Prop :=
  ∀ (env : Env) (fl : CFlags) (op : Op), wfOp op = true → ∀ (l : Nat),
    matchLen op = some l → matchLen (optimize env fl op) = some l

/-- the original `optimize_matchLen` is false -/
theorem optimize_matchLen_false : ¬ optimize_matchLen := by
  intro h
  let env : Env :=
    { lower := id, closure := fun _ => [], category := fun _ => none, block := fun _ => none,
      digit := [], word := [], nameStart := [], nameChar := [] }
  obtain ⟨h1, h2, h3⟩ := optimize_matchLen_cex env {}
  have h4 := h env {} _ h1 _ h2
  rw [h3] at h4
  simp only [Option.some.injEq] at h4
  omega

/-- … keeps a fixed match length that is not saturated … -/
theorem optimize_matchLen_partial (env : Env) (fl : CFlags) (op : Op) (h : wfOp op = true) (l : Nat)
    (hlt : l < usizeMax) (hl : matchLen op = some l) : matchLen (optimize env fl op) = some l :=
  (wm_optimize env fl op h).2 l hlt hl

/-- … keeps group numbers positive and introduces no back-reference -/
theorem optimize_caps (env : Env) (fl : CFlags) (op : Op) (h : C02.capsPos op = true) :
    C02.capsPos (optimize env fl op) = true :=
  capsPos_optimize env fl op h

theorem optimize_backref (env : Env) (fl : CFlags) (op : Op) (h : hasBackref (optimize env fl op) = true) :
    hasBackref op = true :=
  hasBackref_optimize env fl op h

/-- numbering the repeat nodes changes none of the predicates -/
theorem numberReps_wf (op : Op) (n : Nat) :
    wfOp (numberReps op n).1 = wfOp op ∧ C02.capsPos (numberReps op n).1 = C02.capsPos op ∧
    hasBackref (numberReps op n).1 = hasBackref op :=
  ⟨wfOp_numberReps op n, capsPos_numberReps op n, hasBackref_numberReps op n⟩

/-- every optimised program the compiler produces satisfies the hypotheses of the engine theorems -/
theorem compile_wf (env : Env) (fl : CFlags) (pat : List Nat) (pr : Prog)
    (h : compileCore env fl pat true = .ok pr)
    (hns : ∀ op s, parseExpr { pat := pat, fl := fl, env := env } (4 * pat.length + 16) {} true = .ok op s →
              noSat (optimize env fl op) = true ∧ noSat op = true) :
    wfOp pr.op = true ∧ C02.capsPos pr.op = true ∧ (hasBackref pr.op = true → pr.hasBackrefs = true) ∧
    (hasBackref pr.op = false → C05.FactsOK pr) := by
  unfold compileCore at h
  by_cases hl : fl.literal = true
  · rw [if_pos hl] at h
    simp only [if_true, Out.ok.injEq] at h
    subst h
    obtain ⟨e1, e2⟩ := mkProgram_op pat (makeSequence (.atom pat) .endProgram) 1 fl false
    obtain ⟨n1, n2, n3⟩ := numberReps_wf (makeSequence (.atom pat) .endProgram) 0
    rw [e1, e2, n1, n2, n3]
    have hb : hasBackref (makeSequence (.atom pat) .endProgram) = false := by
      simp [makeSequence, hasBackref, hasBackrefL]
    refine ⟨by simp [makeSequence, wfOp, wfOps], by simp [makeSequence, C02.capsPos, C02.capsPosL],
      ?_, fun _ => C05.mkProgram_factsOK _ _ _ _ hb⟩
    intro hh
    rw [hb] at hh
    cases hh
  · rw [if_neg hl] at h
    dsimp only at h
    cases hp : parseExpr { pat := pat, fl := fl, env := env } (4 * pat.length + 16) {} true with
    | err e => rw [hp] at h; cases h
    | ok op s =>
      rw [hp] at h
      dsimp only at h
      split at h
      · cases h
      · simp only [if_true, Out.ok.injEq] at h
        subst h
        obtain ⟨_, hns2⟩ := hns op s hp
        obtain ⟨w1, w2, w3⟩ := parse_wf _ _ _ _ _ _ hp (Nat.le_refl 1) hns2
        obtain ⟨e1, e2⟩ := mkProgram_op pat (optimize env fl op) s.parens fl s.hasBackrefs
        obtain ⟨n1, n2, n3⟩ := numberReps_wf (optimize env fl op) 0
        rw [e1, e2, n1, n2, n3]
        exact ⟨optimize_wf env fl op w1, optimize_caps env fl op w2,
          fun hb => w3 (optimize_backref env fl op hb),
          fun hb => mkProgram_factsOK_any _ _ _ _ _ hb⟩

end Rx.WF
