/-
  Props/Clean4End — the END across the optimiser for patterns with general repeats (fragment of Spec/Enum4):
  completes the tree-level two-compilations theorem of Props/Clean4Opt.

  For a parser tree `t` with `Src4 env fl t` (Props/Clean4Opt), no empty literal, canonical classes:

    * `optimize_enum4_eq`     on a tree without EndProgram the enumerations of the optimised and the
                              un-optimised tree are EQUAL AS LISTS: `enum4 ctx (optimize env fl t) p = enum4 ctx t p`
                              (the `.rep` node: `optimize_rep` + congruence of `greedyIter` / `reluctIter` in the
                              body enumeration, the body being a tree of the old fragment: `Clean2End.optimize_enum_eq`)
    * `optimize_enum4_head`   on a whole program (root sequence closed by EndProgram) they have the same HEAD
                              (only the head: `x*` in front of EndProgram lists one end optimised, all ends not)
    * `clean4_opt_eq_unopt_tree`  the optimised and the un-optimised tree, searched by the plain loop
                              `matchesNaive` from every position and every pair of panic-free states, report the
                              same Boolean, the same START and the same END of group 0.

    * `enum4_renumber`        first piece of the program level: `enum4` does not read the ids of `.rep` nodes
                              (`numberReps` leaves the enumeration unchanged).

  NOT DONE HERE (item 2 of the task, time): invariance of `cleanProg4`, `OpR`, `initialClass`, `mzs` under
  `numberReps` and the program-level statement through `mkProgram` / `mkBareProgram`.
-/
import RxModel.Props.Clean4Opt
import RxModel.Proofs.Clean4EndLemmas
namespace Rx.Clean4End
open Rx Rx.Clean2Opt Rx.Clean4OptL Rx.Clean4Opt Rx.Clean4EndL
open Rx.Clean2End (Setting)
open Rx.C08 (noEmptyAtoms)

theorem Src4.tree4 {env : Env} {fl : CFlags} {t : Op} (h : Src4 env fl t) (hne : noEmptyAtoms t = true)
    (hcan : clsCanonB t = true) : Tree4OK env fl t := ⟨h.src, h.wf, h.ge2, hne, hcan⟩

/-- sub-trees without EndProgram: optimised and un-optimised enumerations are EQUAL AS LISTS -/
theorem optimize_enum4_eq (env : Env) (fl : CFlags) (ctx : Ctx) (S : Setting env fl ctx) (t : Op)
    (h : Src4 env fl t) (hne : noEmptyAtoms t = true) (hcan : clsCanonB t = true) (he : noEnd t = true)
    (p : Nat) (hp : p ≤ ctx.len) : enum4 ctx (optimize env fl t) p = enum4 ctx t p :=
  enumEq4_op ctx S t (Src4.tree4 h hne hcan) he p hp

/-- a whole program: optimised and un-optimised enumerations have the same HEAD -/
theorem optimize_enum4_head (env : Env) (fl : CFlags) (ctx : Ctx) (S : Setting env fl ctx) (t : Op)
    (h : Src4 env fl t) (hne : noEmptyAtoms t = true) (hcan : clsCanonB t = true)
    (p : Nat) (hp : p ≤ ctx.len) : (enum4 ctx (optimize env fl t) p).head? = (enum4 ctx t p).head? := by
  have ht := Src4.tree4 h hne hcan
  by_cases hseq : ∃ l, t = .seq l
  · obtain ⟨l, rfl⟩ := hseq
    obtain ⟨hl, h2⟩ := ht.seq
    have he := h.endTop
    simp only [endTop] at he
    obtain ⟨o, o2, os, rfl⟩ : ∃ o o2 os, l = o :: o2 :: os := by
      cases l with
      | nil => simp at h2
      | cons o t =>
        cases t with
        | nil => simp at h2
        | cons o2 os => exact ⟨o, o2, os, rfl⟩
    simp only [optimize, enum4]
    exact headEq4_seq ctx S (o :: o2 :: os) hl he p hp
  · have he : noEnd t = true := by
      have := h.endTop
      cases t with
      | seq l => exact absurd ⟨l, rfl⟩ hseq
      | _ => exact this
    rw [enumEq4_op ctx S t ht he p hp]

/-- `clean4_opt_eq_unopt`, TREE LEVEL, full result: the optimised tree and the un-optimised tree of one pattern,
    searched by the plain loop `matchesNaive` from every position and every pair of panic-free states, report
    the same Boolean and, on success, the same START and the same END of group 0. -/
theorem clean4_opt_eq_unopt_tree (env : Env) (fl : CFlags) (ctx : Ctx) (hI : InputOK env ctx)
    (hcb : ctx.caseBlind = fl.caseBlind) (hml : ctx.multiLine = fl.multiLine) (hbr : ctx.hasBackrefs = false)
    (t : Op) (h : Src4 env fl t) (hne : noEmptyAtoms t = true) (hcan : clsCanonB t = true)
    (hcp : C02.capsPos t = true)
    (i : Nat) (st1 st2 : St) (h1 : st1.panic = none) (h2 : st2.panic = none) :
    (matchesNaive ctx (optimize env fl t) i st1).1 = (matchesNaive ctx t i st2).1 ∧
    ((matchesNaive ctx (optimize env fl t) i st1).1 = true →
      getParenStart (matchesNaive ctx (optimize env fl t) i st1).2 0 =
        getParenStart (matchesNaive ctx t i st2).2 0 ∧
      getParenEnd (matchesNaive ctx (optimize env fl t) i st1).2 0 =
        getParenEnd (matchesNaive ctx t i st2).2 0) := by
  have S : Setting env fl ctx := ⟨hI, hcb, hml⟩
  have c1 : cleanProg4 env ctx.caseBlind ctx.multiLine (optimize env fl t) = true := by
    rw [hcb, hml]; exact optimize_clean4 env fl t h
  have c0 : cleanProg4 env ctx.caseBlind ctx.multiLine t = true := by
    rw [hcb, hml]; exact unopt_clean4 env fl t h
  have w1 := WF.optimize_wf env fl t h.wf
  have n1 := SearchComplete.optimize_NE env fl t hne
  have k1 := optimize_clsCanonB env fl t hcan
  have p1 := WF.optimize_caps env fl t hcp
  have o1 := naive_outcome4 env ctx hI hbr _ c1 w1 n1 k1 i st1 h1
  have o0 := naive_outcome4 env ctx hI hbr _ c0 h.wf hne hcan i st2 h2
  have hlang : ∀ p q, p ≤ ctx.len → (OpR ctx (optimize env fl t) p q ↔ OpR ctx t p q) :=
    fun p q hp => optimize_lang4 env fl ctx t h p q hp
  generalize matchesNaive ctx (optimize env fl t) i st1 = r1 at o1 ⊢
  generalize matchesNaive ctx t i st2 = r2 at o0 ⊢
  have hbool : r1.1 = r2.1 := by
    rw [Bool.eq_iff_iff, o1.iff, o0.iff]
    constructor
    · rintro ⟨j, q, a, b, c⟩; exact ⟨j, q, a, b, (hlang j q b).1 c⟩
    · rintro ⟨j, q, a, b, c⟩; exact ⟨j, q, a, b, (hlang j q b).2 c⟩
  refine ⟨hbool, fun ht => ?_⟩
  obtain ⟨j1, n1', hs1, he1, hh1, a1, b1, c1', hm1, hl1⟩ := o1.span_clean4 hI c1 w1 n1 k1 p1 ht
  obtain ⟨j2, n2', hs2, he2, hh2, a2, b2, c2', hm2, hl2⟩ :=
    o0.span_clean4 hI c0 h.wf hne hcan hcp (hbool ▸ ht)
  have hj : j1 = j2 := by
    rcases Nat.lt_trichotomy j1 j2 with hlt | heq | hgt
    · exact absurd ((hlang j1 n1' (by omega)).1 hm1) (hl2 j1 n1' a1 hlt)
    · exact heq
    · exact absurd ((hlang j2 n2' (by omega)).2 hm2) (hl1 j2 n2' a2 hgt)
  subst hj
  have hhead := optimize_enum4_head env fl ctx S t h hne hcan j1 (by omega)
  rw [hh1, hh2] at hhead
  simp only [Option.some.injEq] at hhead
  subst hhead
  exact ⟨by rw [hs1, hs2], by rw [he1, he2]⟩

/-- `numberReps` changes only the ids of `.rep` nodes, which `enum4` does not read -/
theorem enum4_renumber (ctx : Ctx) (t : Op) (n : Nat) : enum4 ctx (numberReps t n).1 = enum4 ctx t :=
  enum4_numberReps ctx t n

/-! ### non-vacuity: `x*(?:ab|c)+?d` on "zxxabcd" (the data of Props/Clean4Opt) -/
section examples

theorem exS : Setting exEnv {} exCtx :=
  ⟨.of_caseSensitive rfl (fun _ _ h => by cases h) (by decide) (by decide), rfl, rfl⟩

/-- `optimize_enum4_eq` on the repeat `(?:ab|c)+?` alone (a tree without EndProgram): the hypotheses hold, and
    both enumerations from 3 in "zxxabcd" are [5, 6] — FEWEST iterations first -/
example : enum4 exCtx (optimize exEnv {} (.rep 0 (.choice [.atom [97, 98], .atom [99]]) 1 usizeMax false)) 3 =
      enum4 exCtx (.rep 0 (.choice [.atom [97, 98], .atom [99]]) 1 usizeMax false) 3 ∧
    enum4 exCtx (.rep 0 (.choice [.atom [97, 98], .atom [99]]) 1 usizeMax false) 3 = [5, 6] :=
  ⟨optimize_enum4_eq exEnv {} exCtx exS _
      ⟨by decide +kernel, by decide +kernel, by decide +kernel, by decide +kernel⟩
      (by decide +kernel) (by decide +kernel) (by decide +kernel) 3 (by decide),
    by decide +kernel⟩

/-- `optimize_enum4_head` on the whole program: same head from position 1, namely 7 -/
example : (enum4 exCtx (optimize exEnv {} exTree) 1).head? = (enum4 exCtx exTree 1).head? ∧
    (enum4 exCtx exTree 1).head? = some 7 :=
  ⟨optimize_enum4_head exEnv {} exCtx exS exTree ex_src (by decide +kernel) (by decide +kernel) 1 (by decide),
    by decide +kernel⟩

/-- only the HEAD in general: `x*` closed by EndProgram on "xx" lists the one maximal end optimised, all ends
    un-optimised -/
example :
    let t : Op := .seq [.gfixed (.atom [120]) 0 usizeMax 1, .endProgram]
    let c : Ctx := { input := [120, 120], caseBlind := false, multiLine := false, hasBackrefs := false,
                     maxParens := 1, lower := id }
    src4 exEnv {} t = true ∧ wfOp t = true ∧ seqGe2 t = true ∧ endTop t = true ∧
    enum4 c (optimize exEnv {} t) 0 = [2] ∧ enum4 c t 0 = [2, 1, 0] := by decide +kernel

/-- the two-trees theorem instantiated on "zxxabcd": both searches succeed, with the span (1, 7) -/
example : (matchesNaive exCtx (optimize exEnv {} exTree) 0 {}).1 = true ∧
    getParenStart (matchesNaive exCtx (optimize exEnv {} exTree) 0 {}).2 0 = some 1 ∧
    getParenEnd (matchesNaive exCtx (optimize exEnv {} exTree) 0 {}).2 0 = some 7 := by
  have h := clean4_opt_eq_unopt_tree exEnv {} exCtx exS.ok rfl rfl rfl exTree ex_src (by decide +kernel)
    (by decide +kernel) (by decide +kernel) 0 {} {} rfl rfl
  have e1 : (matchesNaive exCtx exTree 0 {}).1 = true := by decide +kernel
  have e2 : getParenStart (matchesNaive exCtx exTree 0 {}).2 0 = some 1 := by decide +kernel
  have e3 : getParenEnd (matchesNaive exCtx exTree 0 {}).2 0 = some 7 := by decide +kernel
  have ht : (matchesNaive exCtx (optimize exEnv {} exTree) 0 {}).1 = true := by rw [h.1]; exact e1
  exact ⟨ht, by rw [(h.2 ht).1]; exact e2, by rw [(h.2 ht).2]; exact e3⟩

/-- `enum4_renumber`: the numbering really changes the tree of the example (id 0 becomes id 6) -/
example : (match (numberReps exTree 5).1 with
      | .seq [_, .rep id _ _ _ _, _, _] => id == 6
      | _ => false) = true ∧ enum4 exCtx (numberReps exTree 5).1 = enum4 exCtx exTree :=
  ⟨by decide +kernel, enum4_renumber exCtx exTree 5⟩

end examples


end Rx.Clean4End
