/-
  Props/Clean2Opt — `optimize` maps the OLD clean fragment into the enlarged one: compiler output
  satisfies `cleanProg2` by construction.

  For an un-optimised tree `op` with `cleanOp op`, `wfOp op` and two shape facts that hold of every tree
  the parser builds —
      `seqGe2 op`  every sequence has at least two elements (so `optimize` never unwraps `.seq [o]`),
      `endTop op`  EndProgram occurs only as the last element of the root sequence —
  `optimize_clean2`:  `cleanProg2 env fl.caseBlind fl.multiLine (optimize env fl op) = true`.

  What `optimize` does on this fragment (`optOK`): it recurses through captures, alternations and the
  bodies of `gfixed` / `rfixed` (the `gfixed` special cases `max = 0` / zero-length body do not arise for
  well-formed trees), and in a sequence of ≥ 2 elements replaces an element `gfixed / rfixed x mn mx`
  (x one literal / class) by `.unamb x mn mx` under exactly the condition `cleanOp2F` checks.  It creates
  no `rep`, turns no `rep` into anything (there is none), and leaves `matches_empty_string` and the first
  set of every sub-tree UNCHANGED (`OptOK.mzs_eq`, `OptOK.ic_eq`) — which is why a disjointness test made
  against the UN-optimised next element (Model/Optimize: `optimizeSeq` judges element i against the
  un-optimised element i+1) is still valid for the optimised next element that ends up in the tree.
-/
import RxModel.Props.Clean2
import RxModel.Proofs.OptLemmas
import RxModel.Props.WF
import RxModel.Proofs.Clean2SearchLemmas
namespace Rx.Clean2Opt
open Rx
open Rx.OptL (seqElem optimizeSeq_cons2)

/-! ### the two shape facts about parser output -/

mutual
/-- no EndProgram anywhere -/
def noEnd : Op → Bool
  | .endProgram => false
  | .capture _ c => noEnd c
  | .choice bs => noEndL bs
  | .seq ops => noEndL ops
  | .rep _ c _ _ _ => noEnd c
  | .gfixed c _ _ _ => noEnd c
  | .rfixed c _ _ _ => noEnd c
  | .unamb c _ _ => noEnd c
  | _ => true
termination_by structural o => o
def noEndL : List Op → Bool
  | [] => true
  | o :: os => noEnd o && noEndL os
termination_by structural l => l
end

/-- EndProgram at most as the last element -/
def endLast : List Op → Bool
  | [] => true
  | o :: rest => if rest.isEmpty then (isEnd o || noEnd o) else (noEnd o && endLast rest)

/-- EndProgram occurs only as the last element of the root sequence -/
def endTop : Op → Bool
  | .seq ops => endLast ops
  | o => noEnd o

mutual
/-- every sequence has at least two elements -/
def seqGe2 : Op → Bool
  | .seq ops => decide (2 ≤ ops.length) && seqGe2L ops
  | .capture _ c => seqGe2 c
  | .choice bs => seqGe2L bs
  | .rep _ c _ _ _ => seqGe2 c
  | .gfixed c _ _ _ => seqGe2 c
  | .rfixed c _ _ _ => seqGe2 c
  | .unamb c _ _ => seqGe2 c
  | _ => true
termination_by structural o => o
def seqGe2L : List Op → Bool
  | [] => true
  | o :: os => seqGe2 o && seqGe2L os
termination_by structural l => l
end

theorem endLast_of_noEndL : ∀ (l : List Op), noEndL l = true → endLast l = true
  | [], _ => rfl
  | o :: rest, h => by
    simp only [noEndL, Bool.and_eq_true] at h
    simp only [endLast]
    split
    · simp [h.1]
    · simp [h.1, endLast_of_noEndL rest h.2]

/-! ### what `optimize` preserves / establishes -/

structure OptOK (env : Env) (fl : CFlags) (op : Op) : Prop where
  mzs_eq : mzs (optimize env fl op) = mzs op
  ic_eq : initialClass env fl.caseBlind (optimize env fl op) = initialClass env fl.caseBlind op
  clean : cleanOp2F env fl.caseBlind fl.multiLine false [] (optimize env fl op) = true
  notUnamb : isUnamb (optimize env fl op) = false

theorem OptOK.of_id {env : Env} {fl : CFlags} {op : Op} (h : optimize env fl op = op)
    (hc : cleanOp2F env fl.caseBlind fl.multiLine false [] op = true) (hu : isUnamb op = false) :
    OptOK env fl op :=
  ⟨by rw [h], by rw [h], by rw [h]; exact hc, by rw [h]; exact hu⟩

/-- `seqElem` with the conditions under which it rewrites -/
theorem seqElem_cases' (env : Env) (fl : CFlags) (opt nxt : Op) :
    seqElem env fl opt nxt = opt ∨
      ∃ child mn mx g, repeatParts opt = some (child, mn, mx, g) ∧ isAtomOrClass child = true ∧
        (mn = mx ∨ noAmbiguity env child nxt fl.caseBlind (!g) fl.multiLine = true) ∧
        seqElem env fl opt nxt = .unamb child mn mx := by
  unfold seqElem
  split
  · rename_i child mn mx g hrp
    split
    · rename_i hac
      split
      · rename_i heq
        exact .inr ⟨child, mn, mx, g, hrp, hac, .inl (by simpa using heq), rfl⟩
      · split
        · rename_i hna
          exact .inr ⟨child, mn, mx, g, hrp, hac, .inr hna, rfl⟩
        · exact .inl rfl
    · exact .inl rfl
  · exact .inl rfl

/-- a repeat of the enlarged fragment that is not `.unamb` is `gfixed` or `rfixed` -/
theorem repeat_shape {env : Env} {cb ml : Bool} {opt child : Op} {mn mx : Nat} {g : Bool}
    (h : repeatParts opt = some (child, mn, mx, g))
    (hc : cleanOp2F env cb ml false [] opt = true) (hu : isUnamb opt = false) :
    (∃ len, opt = .gfixed child mn mx len) ∨ (∃ len, opt = .rfixed child mn mx len) := by
  cases opt with
  | gfixed c a b l =>
    simp only [repeatParts, Option.some.injEq, Prod.mk.injEq] at h
    obtain ⟨rfl, rfl, rfl, _⟩ := h
    exact .inl ⟨l, rfl⟩
  | rfixed c a b l =>
    simp only [repeatParts, Option.some.injEq, Prod.mk.injEq] at h
    obtain ⟨rfl, rfl, rfl, _⟩ := h
    exact .inr ⟨l, rfl⟩
  | rep => simp [cleanOp2F] at hc
  | unamb => simp [isUnamb] at hu
  | _ => simp [repeatParts] at h

/-- the replaced element has the same `matches_empty_string` value and the same first set -/
theorem seqElem_same (env : Env) (fl : CFlags) (opt nxt : Op)
    (hc : cleanOp2F env fl.caseBlind fl.multiLine false [] opt = true) (hu : isUnamb opt = false) :
    mzs (seqElem env fl opt nxt) = mzs opt ∧
    initialClass env fl.caseBlind (seqElem env fl opt nxt) = initialClass env fl.caseBlind opt ∧
    (isEol opt = true → isEol (seqElem env fl opt nxt) = true) ∧
    (isEnd opt = true → isEnd (seqElem env fl opt nxt) = true) := by
  rcases seqElem_cases' env fl opt nxt with h | ⟨child, mn, mx, g, hrp, _, _, h⟩
  · rw [h]; exact ⟨rfl, rfl, id, id⟩
  · rw [h]
    rcases repeat_shape hrp hc hu with ⟨len, rfl⟩ | ⟨len, rfl⟩
    · exact ⟨by simp only [mzs], by simp only [initialClass], by simp [isEol], by simp [isEnd]⟩
    · exact ⟨by simp only [mzs], by simp only [initialClass], by simp [isEol], by simp [isEnd]⟩

/-- what `no_ambiguity` establishes, in terms of the follower list that ends up in the tree -/
theorem just_of_noAmbiguity (env : Env) (cb ml top : Bool) (child nxt h : Op) (t : List Op) (r : Bool)
    (hna : noAmbiguity env child nxt cb r ml = true)
    (hic : initialClass env cb h = initialClass env cb nxt)
    (heol : isEol nxt = true → isEol h = true)
    (hend : isEnd nxt = true → isEnd h = true ∧ t = [] ∧ top = true) :
    unambJust env cb ml top child (h :: t) = true := by
  simp only [unambJust, Bool.or_eq_true, Bool.and_eq_true, Bool.not_eq_true', List.isEmpty_iff]
  unfold noAmbiguity at hna
  split at hna
  · obtain ⟨h1, h2, h3⟩ := hend rfl
    exact .inl (.inr ⟨⟨h1, h2⟩, h3⟩)
  · cases hna
  · exact .inl (.inl ⟨heol rfl, by simpa using hna⟩)
  · split at hna
    · cases hna
    · right; rw [hic]; exact hna

/-! ### the induction over `optimize` -/

/-- the facts about a list of sequence elements -/
structure SeqOK (env : Env) (fl : CFlags) (top : Bool) (l : List Op) : Prop where
  mzs_eq : mzsL (optimizeSeq env fl l) = mzsL l
  ic_eq : initialClassSeq env fl.caseBlind (optimizeSeq env fl l) = initialClassSeq env fl.caseBlind l
  clean : cleanSeq2 env fl.caseBlind fl.multiLine top (optimizeSeq env fl l) = true
  head : ∀ o os, l = o :: os → ∃ h t, optimizeSeq env fl l = h :: t ∧
    initialClass env fl.caseBlind h = initialClass env fl.caseBlind o ∧
    (isEol o = true → isEol h = true) ∧ (isEnd o = true → os = [] → isEnd h = true ∧ t = [])

mutual
theorem optOK (env : Env) (fl : CFlags) : (op : Op) → cleanOp op = true → wfOp op = true →
    seqGe2 op = true → noEnd op = true → OptOK env fl op
  | .bol, _, _, _, _ => .of_id (by simp only [optimize]) rfl rfl
  | .eol, _, _, _, _ => .of_id (by simp only [optimize]) rfl rfl
  | .nothing, _, _, _, _ => .of_id (by simp only [optimize]) rfl rfl
  | .atom _, _, _, _, _ => .of_id (by simp only [optimize]) rfl rfl
  | .cls _, _, _, _, _ => .of_id (by simp only [optimize]) rfl rfl
  | .endProgram, _, _, _, he => by simp [noEnd] at he
  | .backref _, hc, _, _, _ => by simp [cleanOp] at hc
  | .rep _ _ _ _ _, hc, _, _, _ => by simp [cleanOp] at hc
  | .unamb _ _ _, hc, _, _, _ => by simp [cleanOp] at hc
  | .capture g c, hc, hwf, h2, he => by
    simp only [cleanOp] at hc
    simp only [wfOp] at hwf
    simp only [seqGe2] at h2
    simp only [noEnd] at he
    have ih := optOK env fl c hc hwf h2 he
    exact ⟨by simp only [optimize, mzs]; exact ih.mzs_eq, by simp only [optimize, initialClass],
      by simp only [optimize, cleanOp2F]; exact ih.clean, by simp only [optimize, isUnamb]⟩
  | .choice bs, hc, hwf, h2, he => by
    simp only [cleanOp] at hc
    simp only [wfOp, Bool.and_eq_true] at hwf
    simp only [seqGe2] at h2
    simp only [noEnd] at he
    obtain ⟨i1, i2, i3⟩ := optOK_choice env fl bs hc hwf.2 h2 he
    exact ⟨by simp only [optimize, mzs]; exact i1, by simp only [optimize, initialClass]; exact i2,
      by simp only [optimize, cleanOp2F]; exact i3, by simp only [optimize, isUnamb]⟩
  | .seq ops, hc, hwf, h2, he => by
    simp only [cleanOp] at hc
    simp only [wfOp, Bool.and_eq_true] at hwf
    simp only [seqGe2, Bool.and_eq_true, decide_eq_true_eq] at h2
    simp only [noEnd] at he
    have ih := optOK_seq env fl ops hc hwf.2 h2.2 (endLast_of_noEndL ops he) false (fun _ => he)
    obtain ⟨o, o2, os, rfl⟩ : ∃ o o2 os, ops = o :: o2 :: os := by
      cases ops with
      | nil => simp at h2
      | cons o t =>
        cases t with
        | nil => simp at h2
        | cons o2 os => exact ⟨o, o2, os, rfl⟩
    exact ⟨by simp only [optimize, mzs]; rw [ih.mzs_eq], by simp only [optimize, initialClass]; exact ih.ic_eq,
      by simp only [optimize, cleanOp2F]; exact ih.clean, by simp only [optimize, isUnamb]⟩
  | .gfixed c mn mx len, hc, hwf, h2, he => by
    simp only [cleanOp] at hc
    simp only [wfOp, Bool.and_eq_true, decide_eq_true_eq, beq_iff_eq] at hwf
    obtain ⟨⟨⟨⟨⟨hwc, hml⟩, hlen0⟩, _⟩, _⟩, hmx⟩ := hwf
    simp only [seqGe2] at h2
    simp only [noEnd] at he
    have ih := optOK env fl c hc hwc h2 he
    have e1 : (mx == 0) = false := by simp; omega
    have e2 : (matchLen c == some 0) = false := by rw [hml]; simp; omega
    have hopt : optimize env fl (.gfixed c mn mx len) = .gfixed (optimize env fl c) mn mx len := by
      simp only [optimize, e1, e2, Bool.false_eq_true, if_false]
    exact ⟨by rw [hopt]; simp only [mzs]; rw [ih.mzs_eq], by rw [hopt]; simp only [initialClass],
      by rw [hopt]; simp only [cleanOp2F]; exact ih.clean, by rw [hopt]; simp only [isUnamb]⟩
  | .rfixed c mn mx len, hc, hwf, h2, he => by
    simp only [cleanOp] at hc
    have hwc : wfOp c = true := by simp only [wfOp, Bool.and_eq_true] at hwf; exact hwf.1.1.1.1.1
    simp only [seqGe2] at h2
    simp only [noEnd] at he
    have ih := optOK env fl c hc hwc h2 he
    exact ⟨by simp only [optimize, mzs]; rw [ih.mzs_eq], by simp only [optimize, initialClass],
      by simp only [optimize, cleanOp2F]; exact ih.clean, by simp only [optimize, isUnamb]⟩
termination_by structural op => op
theorem optOK_choice (env : Env) (fl : CFlags) : (bs : List Op) → cleanOps bs = true → wfOps bs = true →
    seqGe2L bs = true → noEndL bs = true →
    mzsChoice (optimizeL env fl bs) = mzsChoice bs ∧
    initialClassChoice env fl.caseBlind (optimizeL env fl bs) = initialClassChoice env fl.caseBlind bs ∧
    cleanAll2 env fl.caseBlind fl.multiLine (optimizeL env fl bs) = true
  | [], _, _, _, _ => ⟨by simp only [optimizeL], by simp only [optimizeL], by simp only [optimizeL, cleanAll2]⟩
  | b :: bs, hc, hwf, h2, he => by
    simp only [cleanOps, Bool.and_eq_true] at hc
    simp only [wfOps, Bool.and_eq_true] at hwf
    simp only [seqGe2L, Bool.and_eq_true] at h2
    simp only [noEndL, Bool.and_eq_true] at he
    have i := optOK env fl b hc.1 hwf.1 h2.1 he.1
    obtain ⟨j1, j2, j3⟩ := optOK_choice env fl bs hc.2 hwf.2 h2.2 he.2
    exact ⟨by simp only [optimizeL, mzsChoice]; rw [i.mzs_eq, j1],
      by simp only [optimizeL, initialClassChoice]; rw [i.ic_eq, j2],
      by simp only [optimizeL, cleanAll2, i.clean, j3, Bool.and_self]⟩
termination_by structural bs => bs
theorem optOK_seq (env : Env) (fl : CFlags) : (l : List Op) → cleanOps l = true → wfOps l = true →
    seqGe2L l = true → endLast l = true → ∀ top, (top = false → noEndL l = true) → SeqOK env fl top l
  | [], _, _, _, _, top, _ =>
    ⟨by simp only [optimizeSeq], by simp only [optimizeSeq], by simp only [optimizeSeq, cleanSeq2],
      fun o os h => by cases h⟩
  | [o], hc, hwf, h2, he, top, hno => by
    simp only [cleanOps, Bool.and_eq_true] at hc
    simp only [wfOps, Bool.and_eq_true] at hwf
    simp only [seqGe2L, Bool.and_eq_true] at h2
    simp only [endLast, List.isEmpty_nil, if_true, Bool.or_eq_true] at he
    have key : mzs (optimize env fl o) = mzs o ∧
        initialClass env fl.caseBlind (optimize env fl o) = initialClass env fl.caseBlind o ∧
        cleanOp2F env fl.caseBlind fl.multiLine top [] (optimize env fl o) = true ∧
        (isEol o = true → isEol (optimize env fl o) = true) ∧
        (isEnd o = true → isEnd (optimize env fl o) = true) := by
      rcases he with he | he
      · have : o = .endProgram := by cases o <;> first | rfl | (simp [isEnd] at he)
        subst this
        exact ⟨by simp only [optimize], by simp only [optimize], by simp only [optimize, cleanOp2F],
          by simp [isEol], by simp [optimize, isEnd]⟩
      · have i := optOK env fl o hc.1 hwf.1 h2.1 he
        refine ⟨i.mzs_eq, i.ic_eq, ?_, ?_, ?_⟩
        · rw [cleanOp2F_irrel _ _ _ top [] _ (by rw [i.notUnamb]; simp)]; exact i.clean
        · intro h; have : o = .eol := by cases o <;> first | rfl | (simp [isEol] at h)
          subst this; simp [optimize, isEol]
        · intro h; have : o = .endProgram := by cases o <;> first | rfl | (simp [isEnd] at h)
          subst this; simp [noEnd] at he
    obtain ⟨k1, k2, k3, k4, k5⟩ := key
    exact ⟨by simp only [optimizeSeq, mzsL]; rw [k1],
      by simp only [optimizeSeq, initialClassSeq]; rw [k1, k2],
      by simp only [optimizeSeq, cleanSeq2, k3, Bool.and_self],
      fun o' os h => by
        simp only [List.cons.injEq] at h
        obtain ⟨rfl, rfl⟩ := h
        exact ⟨_, [], by simp only [optimizeSeq], k2, k4, fun h _ => ⟨k5 h, rfl⟩⟩⟩
  | o :: nxt :: os, hc, hwf, h2, he, top, hno => by
    simp only [cleanOps, Bool.and_eq_true] at hc
    simp only [wfOps, Bool.and_eq_true] at hwf
    simp only [seqGe2L, Bool.and_eq_true] at h2
    have he1 : noEnd o = true ∧ endLast (nxt :: os) = true := by
      simpa [endLast] using he
    have hcr : cleanOps (nxt :: os) = true := by simp only [cleanOps, Bool.and_eq_true]; exact hc.2
    have hwr : wfOps (nxt :: os) = true := by simp only [wfOps, Bool.and_eq_true]; exact hwf.2
    have h2r : seqGe2L (nxt :: os) = true := by simp only [seqGe2L, Bool.and_eq_true]; exact h2.2
    have hnor : top = false → noEndL (nxt :: os) = true := by
      intro ht
      have := hno ht
      simp only [noEndL, Bool.and_eq_true] at this ⊢
      exact this.2
    have i := optOK env fl o hc.1 hwf.1 h2.1 he1.1
    have ih := optOK_seq env fl (nxt :: os) hcr hwr h2r he1.2 top hnor
    obtain ⟨h, t, hht, hic, heol, hend⟩ := ih.head nxt os rfl
    obtain ⟨s1, s2, s3, s4⟩ := seqElem_same env fl (optimize env fl o) nxt i.clean i.notUnamb
    rw [i.mzs_eq] at s1
    rw [i.ic_eq] at s2
    have hclean : cleanOp2F env fl.caseBlind fl.multiLine top (optimizeSeq env fl (nxt :: os))
        (seqElem env fl (optimize env fl o) nxt) = true := by
      rcases seqElem_cases' env fl (optimize env fl o) nxt with hs | ⟨child, mn, mx, g, _, hac, hj, hs⟩
      · rw [hs, cleanOp2F_irrel _ _ _ top _ _ (by rw [i.notUnamb]; simp)]; exact i.clean
      · rw [hs]
        simp only [cleanOp2F, Bool.and_eq_true, Bool.or_eq_true, beq_iff_eq]
        refine ⟨hac, ?_⟩
        rcases hj with hj | hj
        · exact .inl hj
        · right
          rw [hht]
          refine just_of_noAmbiguity env _ _ top child nxt h t _ hj hic heol ?_
          intro hen
          have hnx : nxt = .endProgram := by cases nxt <;> first | rfl | (simp [isEnd] at hen)
          have hos : os = [] := by
            cases os with
            | nil => rfl
            | cons y r =>
              have := he1.2
              rw [hnx] at this
              simp [endLast, noEnd] at this
          have ht : top = true := by
            cases top with
            | true => rfl
            | false =>
              have := hnor rfl
              rw [hnx] at this
              simp [noEndL, noEnd] at this
          obtain ⟨a, b⟩ := hend hen hos
          exact ⟨a, b, ht⟩
    refine ⟨?_, ?_, ?_, ?_⟩
    · rw [optimizeSeq_cons2]; simp only [mzsL]; rw [s1, ih.mzs_eq]; rfl
    · have e : ∀ a l, initialClassSeq env fl.caseBlind (a :: l) =
          (if mzs a == ZLS_NEVER then initialClass env fl.caseBlind a
           else unionR (initialClass env fl.caseBlind a) (initialClassSeq env fl.caseBlind l)) := by
        intro a l; simp only [initialClassSeq]
      rw [optimizeSeq_cons2, e, e o, s1, s2, ih.ic_eq]
    · rw [optimizeSeq_cons2]; simp only [cleanSeq2, Bool.and_eq_true]; exact ⟨hclean, ih.clean⟩
    · intro o' os' heq
      simp only [List.cons.injEq] at heq
      obtain ⟨rfl, rfl⟩ := heq
      refine ⟨_, _, optimizeSeq_cons2 env fl o nxt os, s2, ?_, ?_⟩
      · intro h'; have : o = .eol := by cases o <;> first | rfl | (simp [isEol] at h')
        subst this
        exact s3 (by simp [optimize, isEol])
      · intro _ h'; cases h'
termination_by structural l => l
end

/-! ### the theorem -/

/-- `optimize` maps a clean well-formed parser tree to a program of the enlarged fragment -/
theorem optimize_clean2 (env : Env) (fl : CFlags) (op : Op) (hc : cleanOp op = true) (hwf : wfOp op = true)
    (h2 : seqGe2 op = true) (he : endTop op = true) :
    cleanProg2 env fl.caseBlind fl.multiLine (optimize env fl op) = true := by
  by_cases hseq : ∃ ops, op = .seq ops
  · obtain ⟨ops, rfl⟩ := hseq
    simp only [cleanOp] at hc
    simp only [wfOp, Bool.and_eq_true] at hwf
    simp only [seqGe2, Bool.and_eq_true, decide_eq_true_eq] at h2
    simp only [endTop] at he
    have ih := optOK_seq env fl ops hc hwf.2 h2.2 he true (fun h => by cases h)
    obtain ⟨o, o2, os, rfl⟩ : ∃ o o2 os, ops = o :: o2 :: os := by
      cases ops with
      | nil => simp at h2
      | cons o t =>
        cases t with
        | nil => simp at h2
        | cons o2 os => exact ⟨o, o2, os, rfl⟩
    simp only [optimize, cleanProg2]
    exact ih.clean
  · have hne : noEnd op = true := by
      cases op with
      | seq ops => exact absurd ⟨ops, rfl⟩ hseq
      | _ => exact he
    exact Clean2.cleanProg2_of_cleanOp2 env _ _ _ (optOK env fl op hc hwf h2 hne).clean

/-- in the compositional case (no EndProgram at all) the result is even in `cleanOp2` -/
theorem optimize_cleanOp2 (env : Env) (fl : CFlags) (op : Op) (hc : cleanOp op = true) (hwf : wfOp op = true)
    (h2 : seqGe2 op = true) (he : noEnd op = true) :
    cleanOp2 env fl.caseBlind fl.multiLine (optimize env fl op) = true :=
  (optOK env fl op hc hwf h2 he).clean

/-- the first set and `matches_empty_string` of a clean tree survive optimisation unchanged -/
theorem optimize_initialClass (env : Env) (fl : CFlags) (op : Op) (hc : cleanOp op = true) (hwf : wfOp op = true)
    (h2 : seqGe2 op = true) (he : noEnd op = true) :
    initialClass env fl.caseBlind (optimize env fl op) = initialClass env fl.caseBlind op ∧
    mzs (optimize env fl op) = mzs op :=
  ⟨(optOK env fl op hc hwf h2 he).ic_eq, (optOK env fl op hc hwf h2 he).mzs_eq⟩

/-! ### canonicity of the classes survives `optimize` -/

theorem repeatParts_canon {opt child : Op} {mn mx : Nat} {g : Bool}
    (h : repeatParts opt = some (child, mn, mx, g)) (hc : clsCanonB opt = true) : clsCanonB child = true := by
  cases opt <;> simp only [repeatParts, Option.some.injEq, Prod.mk.injEq, reduceCtorEq] at h
  all_goals (obtain ⟨rfl, _⟩ := h; simpa only [clsCanonB] using hc)

theorem seqElem_canon (env : Env) (fl : CFlags) (opt nxt : Op) (hc : clsCanonB opt = true) :
    clsCanonB (seqElem env fl opt nxt) = true := by
  rcases OptL.seqElem_cases env fl opt nxt with h | ⟨child, mn, mx, g, hrp, h⟩
  · rw [h]; exact hc
  · rw [h]; simp only [clsCanonB]; exact repeatParts_canon hrp hc

mutual
theorem optimize_clsCanonB (env : Env) (fl : CFlags) : ∀ (op : Op), clsCanonB op = true →
    clsCanonB (optimize env fl op) = true
  | .bol, h | .eol, h | .nothing, h | .endProgram, h | .atom _, h | .cls _, h | .backref _, h => by
    simpa only [optimize] using h
  | .capture g c, h => by
    simp only [clsCanonB] at h
    simp only [optimize, clsCanonB]
    exact optimize_clsCanonB env fl c h
  | .choice bs, h => by
    simp only [clsCanonB] at h
    simp only [optimize, clsCanonB]
    exact optimizeL_clsCanonB env fl bs h
  | .seq ops, h => by
    simp only [clsCanonB] at h
    cases ops with
    | nil => simp only [optimize]; rfl
    | cons o t =>
      cases t with
      | nil =>
        simp only [optimize]
        simpa [clsCanonBL] using h
      | cons o2 os =>
        simp only [optimize, clsCanonB]
        exact optimizeSeq_clsCanonB env fl (o :: o2 :: os) h
  | .rep id c mn mx g, h => by
    simp only [clsCanonB] at h
    simp only [optimize, clsCanonB]
    exact optimize_clsCanonB env fl c h
  | .gfixed c mn mx len, h => by
    simp only [clsCanonB] at h
    simp only [optimize]
    split
    · rfl
    · split
      · exact h
      · simp only [clsCanonB]; exact optimize_clsCanonB env fl c h
  | .rfixed c mn mx len, h => by
    simp only [clsCanonB] at h
    simp only [optimize, clsCanonB]
    exact optimize_clsCanonB env fl c h
  | .unamb c mn mx, h => by
    simp only [clsCanonB] at h
    simp only [optimize, clsCanonB]
    exact optimize_clsCanonB env fl c h
termination_by structural op => op
theorem optimizeL_clsCanonB (env : Env) (fl : CFlags) : ∀ (l : List Op), clsCanonBL l = true →
    clsCanonBL (optimizeL env fl l) = true
  | [], _ => by simp only [optimizeL]; rfl
  | o :: os, h => by
    simp only [clsCanonBL, Bool.and_eq_true] at h
    simp only [optimizeL, clsCanonBL, Bool.and_eq_true]
    exact ⟨optimize_clsCanonB env fl o h.1, optimizeL_clsCanonB env fl os h.2⟩
termination_by structural l => l
theorem optimizeSeq_clsCanonB (env : Env) (fl : CFlags) : ∀ (l : List Op), clsCanonBL l = true →
    clsCanonBL (optimizeSeq env fl l) = true
  | [], _ => by simp only [optimizeSeq]; rfl
  | [o], h => by
    simp only [clsCanonBL, Bool.and_eq_true] at h
    simp only [optimizeSeq, clsCanonBL, Bool.and_eq_true]
    exact ⟨optimize_clsCanonB env fl o h.1, trivial⟩
  | o :: nxt :: os, h => by
    simp only [clsCanonBL, Bool.and_eq_true] at h
    have ho := optimize_clsCanonB env fl o h.1
    have ht : clsCanonBL (optimizeSeq env fl (nxt :: os)) = true :=
      optimizeSeq_clsCanonB env fl (nxt :: os) (by simp only [clsCanonBL, Bool.and_eq_true]; exact h.2)
    rw [optimizeSeq_cons2]
    simp only [clsCanonBL, Bool.and_eq_true]
    exact ⟨seqElem_canon env fl _ nxt ho, ht⟩
termination_by structural l => l
end

/-! ### from the two compilations of a pattern -/

/-- if the UN-optimised compilation of a pattern (the verification hook's `compileCore … false`) is in
    the old fragment and has the two parser shape facts, then the optimised compilation is a program of
    the enlarged fragment, its tree is `optimize` of the un-optimised tree, and neither tree contains a
    general repeat to be numbered -/
theorem compile_clean2 (env : Env) (fl : CFlags) (pat : List Nat) (pr bare : Prog)
    (h1 : compileCore env fl pat true = .ok pr) (h0 : compileCore env fl pat false = .ok bare)
    (hc : cleanOp bare.op = true) (hwf : wfOp bare.op = true)
    (h2 : seqGe2 bare.op = true) (he : endTop bare.op = true) :
    cleanProg2 env fl.caseBlind fl.multiLine pr.op = true ∧
    (pr.op = bare.op ∨ pr.op = optimize env fl bare.op) := by
  unfold compileCore at h1 h0
  by_cases hl : fl.literal = true
  · rw [if_pos hl] at h1 h0
    simp only [if_true, Bool.false_eq_true, if_false, Out.ok.injEq] at h1 h0
    subst h1 h0
    have e : (mkProgram pat (makeSequence (.atom pat) .endProgram) 1 fl false).op =
        (mkBareProgram pat (makeSequence (.atom pat) .endProgram) 1 fl false).op :=
      (WF.mkProgram_op _ _ _ _ _).1
    rw [e]
    exact ⟨Clean2.cleanProg2_of_cleanOp2 env _ _ _ (Clean2.cleanOp2_of_cleanOp env _ _ _ hc), .inl rfl⟩
  · rw [if_neg hl] at h1 h0
    dsimp only at h1 h0
    cases hp : parseExpr { pat := pat, fl := fl, env := env } (4 * pat.length + 16) {} true with
    | err e => rw [hp] at h1; cases h1
    | ok op s =>
      rw [hp] at h1 h0
      dsimp only at h1 h0
      split at h1
      · cases h1
      · rename_i hidx
        rw [if_neg hidx] at h0
        simp only [if_true, Bool.false_eq_true, if_false, Out.ok.injEq] at h1 h0
        subst h1 h0
        have hb : (mkBareProgram pat op s.parens fl s.hasBackrefs).op = (numberReps op 0).1 := rfl
        rw [hb] at hc hwf h2 he ⊢
        rw [SearchComplete.cleanOp_numberReps] at hc
        have hs := Clean2.cleanOp2_shape env fl.caseBlind fl.multiLine op
          (Clean2.cleanOp2_of_cleanOp env _ _ op hc)
        rw [SearchComplete.numberReps_shape2 op hs 0] at hwf h2 he ⊢
        have hcl := optimize_clean2 env fl op hc hwf h2 he
        have hs' := Clean2.cleanProg2_shape env _ _ _ hcl
        rw [SearchComplete.mkProgram_op_shape2 pat _ s.parens fl s.hasBackrefs hs']
        exact ⟨hcl, .inr rfl⟩

end Rx.Clean2Opt
