/-
  Props/Clean3 — the GENERAL greedy repeat `.rep id c mn mx true` (variable-length body) enters the
  fragment on which the engine is an exact, priority-ordered enumerator — as far as that is true.

  THE FRAGMENT (`cleanOp3` / `cleanProg3`, Spec/Enum3) = the fragment of Spec/Enum2 plus `.rep id c mn mx true` with
      1 ≤ mn,  body `c` ∈ `cleanOp2` (rep-free),  `nonNull c`,  `detB env cb c`  (end-deterministic:
      alternations with pairwise disjoint first sets, exact inner quantifiers).

  PROVED on it (hypotheses as in Props/Clean2: `wfOp`, `noEmptyAtoms`, `clsCanonB`, `InputOK env ctx`):
    a. `sem_seq_enum3`   the iterator yields EXACTLY `enum3 ctx op p` under every consumer, from EVERY state
                         (with `mn ≥ 1` the zero-length-match memo is neither read nor written);
                         for the repeat: the ends for the iteration counts from the maximal one down to `mn`
                         — strictly decreasing, so the force-progress cut (K9) never fires, and the DFS
                         never leaves its primed path, so the `len < bound` re-extension limit (K4) is
                         never consulted
    b. `enum3_sound`     listed ends are in the language
    c. `enum3_iff_OpR`   FULL equivalence on the compositional fragment `cleanOp3` (the repeat lists the
                         ends of ALL its iteration counts, so it composes like `gfixed`);
       `enum3_complete`  existence form on whole programs `cleanProg3` (closing `x{m,n} · EndProgram`)
    d. `completeAt_clean3` (`CompleteAt`, from every state), `matchAt_iff3`, `matchAt_end3`, `first1_enum3`
    e. `clean3_noBackref'`, `clean3_smallMin'`, `sem_noDiv3`

  `min = 0` (`(?:ab|c)*`, `{0,n}`) — what is TRUE and what is not (section "min = 0"):
    * node level, exact and state-DEPENDENT: with no memo entry `(id, p)` the iterator yields the full
      list `greedyIter e 0 mx 0 p` (every count, longest first, then `p`) and then, the zero-iteration entry
      being re-extended, everything up to `bound - 1` iterations a SECOND time (`rep0_fresh`); with the
      entry it yields the list WITHOUT its last element `p` (`rep0_hit`): zero iterations are lost.
      With a deterministic body the first pass is already complete: K4 (re-extension one short) is
      harmless — it only shortens the duplicate.
    * a root sequence that STARTS with such a repeat: exact list and complete `match_at` from every state
      without the entry (`rep0_first`, `matchAt_iff3_fresh`).
    * `CompleteAt` — the hypothesis of Props/SearchComplete, quantified over ALL clean states — is FALSE
      for every such program (`completeAt_min0_false`, kernel-checked on the compiler's output for
      `(?:ab|c)*d`): the memo persists across `match_at` attempts (Model/Search never clears `hist`).
      Experimentally (all inputs up to length 6 over the pattern's alphabet, 9 patterns) `is_match` is
      nevertheless right for deterministic bodies: an entry `(id, p)` is only ever present when the
      zero-iteration alternative at `p` was already explored and failed.  Proving that needs an
      invariant on the memo threaded through the whole search loop, which `SearchComplete` does not
      provide.  NOT DONE.

  NEGATIVE EXAMPLES delimiting the fragment (section at the end; witnesses of Props/Findings):
    determinism dropped → K9 (`(?:a+b?|a+b?){3}a`) ; nesting → K3 ; `min = 0` + ambiguous body → K4.
    Not found: a losing witness for a NULLABLE body with `mn ≥ 1` and for an ambiguous body of
    different branch lengths with `mn ≥ 1` (`^(?:a|ab)+c`, `^(?:a|ab|b){1,3}$`, `^(?:a|aa)+b`: no
    deviation on all inputs up to length 5–9): the two conditions are what the PROOF needs (progress;
    the DFS staying on its primed path), the true fragment is larger.
-/
import RxModel.Spec.Enum3
import RxModel.Proofs.Enum3Lemmas
import RxModel.Props.Clean2
import RxModel.Props.Findings
namespace Rx.Clean3
open Rx Rx.SearchComplete
open Rx.C08 (noEmptyAtoms noEmptyAtomsL clsCanon clsCanonL)

/-! ### a. the iterator yields exactly `enum3` -/

theorem sem_seq_enum3 (env : Env) (ctx : Ctx) (hI : InputOK env ctx) (op : Op)
    (hc : cleanProg3 env ctx.caseBlind ctx.multiLine op = true) (hwf : wfOp op = true)
    (hne : noEmptyAtoms op = true) (hcan : clsCanonB op = true) (p : Nat) (hp : p ≤ ctx.len) (st : St)
    (_ : anySt st) : Step.Seq anySt (sem ctx op p st) (enum3 ctx op p) :=
  sem_ex3_prog env ctx hI op hc hwf hne (clsCanon_of_B op hcan) p hp st

theorem sem_seq_enum3_of (I : St → Prop) (env : Env) (ctx : Ctx) (hI : InputOK env ctx) (op : Op)
    (hc : cleanProg3 env ctx.caseBlind ctx.multiLine op = true) (hwf : wfOp op = true)
    (hne : noEmptyAtoms op = true) (hcan : clsCanonB op = true) (p : Nat) (hp : p ≤ ctx.len) (st : St) :
    Step.Seq I (sem ctx op p st) (enum3 ctx op p) :=
  (sem_ex3_prog env ctx hI op hc hwf hne (clsCanon_of_B op hcan) p hp st).weaken

/-- the fragments of Spec/Enum2 are inside -/
theorem cleanOp3_of_cleanOp2 (env : Env) (cb ml : Bool) (op : Op) (h : cleanOp2 env cb ml op = true) :
    cleanOp3 env cb ml op = true :=
  clean3_of_clean2 env cb ml op false [] h

theorem cleanProg3_of_cleanProg2 (env : Env) (cb ml : Bool) (op : Op) (h : cleanProg2 env cb ml op = true) :
    cleanProg3 env cb ml op = true := by
  cases op with
  | seq ops => exact clean3_of_clean2Seq env cb ml ops true h
  | _ => exact clean3_of_clean2 env cb ml _ false [] h

/-! ### b. soundness -/

theorem enum3_sound (env : Env) (ctx : Ctx) (hI : InputOK env ctx) (op : Op)
    (hc : cleanProg3 env ctx.caseBlind ctx.multiLine op = true) (hwf : wfOp op = true)
    (hne : noEmptyAtoms op = true) (hcan : clsCanonB op = true) (p q : Nat) (hp : p ≤ ctx.len)
    (h : q ∈ enum3 ctx op p) : OpR ctx op p q :=
  enum3_sound_prog env ctx hI op hc hwf hne (clsCanon_of_B op hcan) hp h

/-! ### c. completeness -/

/-- the compositional fragment: `enum3` lists exactly the language -/
theorem enum3_iff_OpR (env : Env) (ctx : Ctx) (hI : InputOK env ctx) (op : Op)
    (hc : cleanOp3 env ctx.caseBlind ctx.multiLine op = true) (hwf : wfOp op = true)
    (hne : noEmptyAtoms op = true) (hcan : clsCanonB op = true) (p q : Nat) (hp : p ≤ ctx.len) :
    q ∈ enum3 ctx op p ↔ OpR ctx op p q :=
  ⟨fun h => enum3_sound_op env ctx hI op false [] hc hwf hne (clsCanon_of_B op hcan) hp h,
   fun h => comp3_op env ctx hI op hc hwf hne (clsCanon_of_B op hcan) p q hp h⟩

/-- whole programs: if the language has a member from `p`, the enumeration is non-empty -/
theorem enum3_complete (env : Env) (ctx : Ctx) (hI : InputOK env ctx) (op : Op)
    (hc : cleanProg3 env ctx.caseBlind ctx.multiLine op = true) (hwf : wfOp op = true)
    (hne : noEmptyAtoms op = true) (hcan : clsCanonB op = true) (p : Nat) (hp : p ≤ ctx.len)
    (h : ∃ q, OpR ctx op p q) : enum3 ctx op p ≠ [] := by
  obtain ⟨q, hq⟩ := h
  have hcc := clsCanon_of_B op hcan
  by_cases hseq : ∃ ops, op = .seq ops
  · obtain ⟨ops, rfl⟩ := hseq
    simp only [cleanProg3] at hc
    simp only [wfOp, Bool.and_eq_true] at hwf
    simp only [noEmptyAtoms] at hne
    simp only [clsCanon] at hcc
    simp only [OpR] at hq
    simp only [enum3]
    exact exist3_seq env ctx hI ops hc hwf.2 hne hcc p q hp hq
  · have hc' : cleanOp3F env ctx.caseBlind ctx.multiLine false [] op = true := by
      cases op with
      | seq ops => exact absurd ⟨ops, rfl⟩ hseq
      | _ => exact hc
    intro hnil
    have := comp3_op env ctx hI op hc' hwf hne hcc p q hp hq
    rw [hnil] at this
    cases this

/-! ### d. `CompleteAt`, `match_at` -/

theorem first1_enum3 (env : Env) (ctx : Ctx) (hI : InputOK env ctx) (op : Op)
    (hc : cleanProg3 env ctx.caseBlind ctx.multiLine op = true) (hwf : wfOp op = true)
    (hne : noEmptyAtoms op = true) (hcan : clsCanonB op = true) (p : Nat) (hp : p ≤ ctx.len) (st : St) :
    (first1 (sem ctx op p st)).1.map (·.1) = (enum3 ctx op p).head? := by
  have h := sem_ex3_prog env ctx hI op hc hwf hne (clsCanon_of_B op hcan) p hp st
  cases hl : enum3 ctx op p with
  | nil =>
    rw [hl] at h
    obtain ⟨st', hf⟩ := h.first1_nil
    rw [hf]; rfl
  | cons n l =>
    rw [hl] at h
    obtain ⟨st', hf⟩ := h.first1_cons
    rw [hf]; rfl

/-- the engine test is complete on the fragment, from EVERY state -/
theorem completeAt_clean3 (env : Env) (ctx : Ctx) (hI : InputOK env ctx) (op : Op)
    (hc : cleanProg3 env ctx.caseBlind ctx.multiLine op = true) (hwf : wfOp op = true)
    (hne : noEmptyAtoms op = true) (hcan : clsCanonB op = true) : CompleteAt ctx op :=
  completeAt_of_ex ctx op (enum3 ctx op)
    (fun j hj st => sem_ex3_prog env ctx hI op hc hwf hne (clsCanon_of_B op hcan) j hj st)
    (fun j hj => by
      constructor
      · intro hnil
        cases hl : enum3 ctx op j with
        | nil => exact absurd hl hnil
        | cons q t => exact ⟨q, enum3_sound env ctx hI op hc hwf hne hcan j q hj (by rw [hl]; exact List.mem_cons_self)⟩
      · exact enum3_complete env ctx hI op hc hwf hne hcan j hj)

theorem matchAt_iff3 (env : Env) (ctx : Ctx) (hI : InputOK env ctx) (op : Op)
    (hc : cleanProg3 env ctx.caseBlind ctx.multiLine op = true) (hwf : wfOp op = true)
    (hne : noEmptyAtoms op = true) (hcan : clsCanonB op = true) (i : Nat) (hi : i ≤ ctx.len) (st : St) :
    (matchAt ctx op i st).1 = true ↔ ∃ j, OpR ctx op i j := by
  rw [(Clean.matchAt_of_ex ctx op i _
    (fun st' => sem_ex3_prog env ctx hI op hc hwf hne (clsCanon_of_B op hcan) i hi st') st).1]
  constructor
  · intro hnil
    cases hl : enum3 ctx op i with
    | nil => exact absurd hl hnil
    | cons j t => exact ⟨j, enum3_sound env ctx hI op hc hwf hne hcan i j hi (by rw [hl]; exact List.mem_cons_self)⟩
  · exact enum3_complete env ctx hI op hc hwf hne hcan i hi

/-- on success the end recorded for group 0 is the head of `enum3` -/
theorem matchAt_end3 (env : Env) (ctx : Ctx) (hI : InputOK env ctx) (op : Op)
    (hc : cleanProg3 env ctx.caseBlind ctx.multiLine op = true) (hwf : wfOp op = true)
    (hne : noEmptyAtoms op = true) (hcan : clsCanonB op = true) (i : Nat) (hi : i ≤ ctx.len) (st : St)
    (h : (matchAt ctx op i st).1 = true) :
    getParenEnd (matchAt ctx op i st).2 0 = (enum3 ctx op i).head? :=
  (Clean.matchAt_of_ex ctx op i _
    (fun st' => sem_ex3_prog env ctx hI op hc hwf hne (clsCanon_of_B op hcan) i hi st') st).2 h

/-! ### e. no back-reference, loops covered by the fuel, no divergence -/

theorem clean3_noBackref' (env : Env) (cb ml : Bool) (op : Op) (h : cleanProg3 env cb ml op = true) :
    hasBackref op = false := by
  cases op with
  | seq ops => simp only [cleanProg3] at h; simp only [hasBackref]; exact clean3_noBackrefSeq env cb ml ops true h
  | _ => exact clean3_noBackref env cb ml _ false [] h

theorem clean3_smallMin' (env : Env) (cb ml : Bool) (n : Nat) (op : Op) (h : cleanProg3 env cb ml op = true)
    (hne : noEmptyAtoms op = true) : C06.smallMin n op = true := by
  cases op with
  | seq ops =>
    simp only [cleanProg3] at h
    simp only [noEmptyAtoms] at hne
    simp only [C06.smallMin]; exact clean3_smallMinSeq env cb ml n ops true h hne
  | _ => exact clean3_smallMin env cb ml n _ false [] h hne

theorem sem_noDiv3 (env : Env) (ctx : Ctx) (hI : InputOK env ctx) (op : Op)
    (hc : cleanProg3 env ctx.caseBlind ctx.multiLine op = true) (hwf : wfOp op = true)
    (hne : noEmptyAtoms op = true) (hcan : clsCanonB op = true) (p : Nat) (hp : p ≤ ctx.len) (st : St) :
    (sem ctx op p st).NoDiv := by
  have h := sem_ex3_prog env ctx hI op hc hwf hne (clsCanon_of_B op hcan) p hp st
  generalize sem ctx op p st = s at h
  generalize enum3 ctx op p = l at h
  induction h with
  | nil st => exact .nil st
  | cons n st r l _ ih => exact .cons n st r (fun st' => ih st' trivial)

/-! ### case-sensitive matching -/

theorem completeAt_clean3_cs (env : Env) (ctx : Ctx) (hcb : ctx.caseBlind = false)
    (hce : ∀ a x, x ∈ env.closure a → x < cpLimit)
    (hin : ∀ c ∈ ctx.input, c < cpLimit) (hsc : ∀ c ∈ ctx.input, isSurrogate c = false) (op : Op)
    (hc : cleanProg3 env false ctx.multiLine op = true) (hwf : wfOp op = true)
    (hne : noEmptyAtoms op = true) (hcan : clsCanonB op = true) : CompleteAt ctx op :=
  completeAt_clean3 env ctx (.of_caseSensitive hcb hce hin hsc) op (by rw [hcb]; exact hc) hwf hne hcan

/-! ## `min = 0` -/

/-- the conditions on the body, for a repeat that may be skipped -/
structure Rep0OK (env : Env) (ctx : Ctx) (c : Op) (mx : Nat) : Prop where
  mx0 : 0 < mx
  clean : cleanOp2 env ctx.caseBlind ctx.multiLine c = true
  nn : nonNull c = true
  det : detB env ctx.caseBlind c = true
  wf : wfOp c = true
  ne : noEmptyAtoms c = true
  can : clsCanon c

theorem Rep0OK.body {env : Env} {ctx : Ctx} {c : Op} {mx : Nat} (hI : InputOK env ctx) (h : Rep0OK env ctx c mx) :
    DetBody (sem ctx c) (enum3 ctx c) ctx.len :=
  detBody_of env ctx hI (mn := 1) (mx := mx)
    ⟨Nat.le_refl 1, h.mx0, h.mx0, h.clean, h.nn, h.det, h.wf, h.ne, h.can⟩

/-- no memo entry: every iteration count longest-first, then the start itself — and then once more,
    up to one iteration below the bound (the re-extended zero-iteration entry) -/
theorem rep0_fresh (env : Env) (ctx : Ctx) (hI : InputOK env ctx) (id : Nat) (c : Op) (mx : Nat)
    (h : Rep0OK env ctx c mx) (p : Nat) (hp : p ≤ ctx.len) (st : St) (hm : memPair st.hist id p = false) :
    Step.Seq anySt (sem ctx (.rep id c 0 mx true) p st)
      (greedyIter (enum3 ctx c) 0 (Nat.min mx (ctx.len + 1 - p)) 0 p ++
       greedyIter (enum3 ctx c) 0 (Nat.min mx (ctx.len + 1 - p) - 1) 0 p) := by
  simp only [sem, if_true]
  exact repGreedy0_fresh_ex ctx (h.body hI) id mx p hp st hm

/-- the first pass is `enum3` of the repeat: all of the language, in priority order -/
theorem rep0_first_pass (env : Env) (ctx : Ctx) (hI : InputOK env ctx) (id : Nat) (c : Op) (mx : Nat)
    (h : Rep0OK env ctx c mx) (p : Nat) (hp : p ≤ ctx.len) :
    greedyIter (enum3 ctx c) 0 (Nat.min mx (ctx.len + 1 - p)) 0 p = enum3 ctx (.rep id c 0 mx true) p := by
  simp only [enum3]
  by_cases hle : mx ≤ ctx.len + 1 - p
  · rw [show Nat.min mx (ctx.len + 1 - p) = mx from Nat.min_eq_left hle]
  · rw [show Nat.min mx (ctx.len + 1 - p) = ctx.len + 1 - p from Nat.min_eq_right (by omega)]
    exact greedyIter_budget2 (h.body hI).prog 0 p hp 0 _ _ (by omega) (by omega)

/-- … and it is complete for the language of the repeat -/
theorem rep0_complete (env : Env) (ctx : Ctx) (hI : InputOK env ctx) (id : Nat) (c : Op) (mx : Nat)
    (h : Rep0OK env ctx c mx) (p q : Nat) (hp : p ≤ ctx.len) (hq : OpR ctx (.rep id c 0 mx true) p q) :
    q ∈ enum3 ctx (.rep id c 0 mx true) p := by
  simp only [OpR] at hq
  obtain ⟨k, _, hk2, hi⟩ := hq
  simp only [enum3]
  have hd : HeadDet (fun a b => OpR ctx c a b) (enum3 ctx c) ctx.len :=
    headDet_body env ctx hI (mn := 1) (mx := mx)
      ⟨Nat.le_refl 1, h.mx0, h.mx0, h.clean, h.nn, h.det, h.wf, h.ne, h.can⟩
  exact greedyIter_complete hd 0 mx 0 p k q hp hi hk2 (Nat.zero_le _)

/-- the memo has the entry: one or more iterations only — the start itself is NOT yielded -/
theorem rep0_hit (env : Env) (ctx : Ctx) (hI : InputOK env ctx) (id : Nat) (c : Op) (mx : Nat)
    (h : Rep0OK env ctx c mx) (p : Nat) (hp : p ≤ ctx.len) (st : St) (hm : memPair st.hist id p = true) :
    Step.Seq anySt (sem ctx (.rep id c 0 mx true) p st)
      ((enum3 ctx c p).flatMap (fun q => greedyIter (enum3 ctx c) 0 (Nat.min mx (ctx.len + 1 - p) - 1) 0 q)) := by
  simp only [sem, if_true]
  exact repGreedy0_hit_ex ctx (h.body hI) id mx h.mx0 p hp st hm

/-- every end it then yields is strictly to the right of the start -/
theorem rep0_hit_misses_start (env : Env) (ctx : Ctx) (hI : InputOK env ctx) (c : Op) (mx : Nat)
    (h : Rep0OK env ctx c mx) (p : Nat) (hp : p ≤ ctx.len) :
    p ∉ (enum3 ctx c p).flatMap (fun q => greedyIter (enum3 ctx c) 0 (Nat.min mx (ctx.len + 1 - p) - 1) 0 q) := by
  intro hmem
  obtain ⟨q, hq, hx⟩ := List.mem_flatMap.1 hmem
  obtain ⟨h1, h2⟩ := (h.body hI).prog p hp q hq
  have := (Clean2End.greedyIter_nodup (h.body hI).prog 0 (Nat.min mx (ctx.len + 1 - p) - 1) 0 q h2).1 p hx
  omega

theorem matchStart_hist (ctx : Ctx) (j : Nat) (st : St) : (matchStart ctx j st).hist = st.hist := by
  unfold matchStart
  simp only
  split <;> rfl

/-- a root sequence that STARTS with a skippable repeat: the exact list, from a state without the entry -/
theorem rep0_first (env : Env) (ctx : Ctx) (hI : InputOK env ctx) (id : Nat) (c : Op) (mx : Nat)
    (o2 : Op) (os : List Op) (h : Rep0OK env ctx c mx)
    (hcr : cleanSeq3 env ctx.caseBlind ctx.multiLine true (o2 :: os) = true) (hwr : wfOps (o2 :: os) = true)
    (hnr : noEmptyAtomsL (o2 :: os) = true) (hcanr : clsCanonBL (o2 :: os) = true)
    (p : Nat) (hp : p ≤ ctx.len) (st : St) (hm : memPair st.hist id p = false) :
    Step.Seq anySt (sem ctx (.seq (.rep id c 0 mx true :: o2 :: os)) p st)
      ((greedyIter (enum3 ctx c) 0 (Nat.min mx (ctx.len + 1 - p)) 0 p ++
        greedyIter (enum3 ctx c) 0 (Nat.min mx (ctx.len + 1 - p) - 1) 0 p).flatMap (enumSeq3 ctx (o2 :: os))) := by
  have hccr := clsCanonL_of_B _ hcanr
  have h1 : Step.Ex (sem ctx (.rep id c 0 mx true) p st) _ := rep0_fresh env ctx hI id c mx h p hp st hm
  have hwrep : wfOp (.rep id c 0 mx true) = true := by
    simp only [wfOp, h.wf, Bool.true_and, Bool.and_eq_true, decide_eq_true_eq]
    exact ⟨Nat.zero_le _, h.mx0⟩
  have hb := ex_sound ctx _ hwrep hp h1
  show Step.Ex (seqGen _ (sem ctx (.rep id c 0 mx true) :: sem ctx o2 :: semL ctx os) p st) _
  unfold seqGen
  refine Step.Ex.onNil ?_
  unfold seqGo
  refine (h1.mapSt).bind (fun n hn st' => ?_)
  exact sem_ex3_seq env ctx hI (o2 :: os) true (List.cons_ne_nil _ _) hcr hwr hnr hccr n (hb n hn).2 st'

/-- … hence `match_at` is a correct and complete test from every state without the entry -/
theorem matchAt_iff3_fresh (env : Env) (ctx : Ctx) (hI : InputOK env ctx) (id : Nat) (c : Op) (mx : Nat)
    (o2 : Op) (os : List Op) (h : Rep0OK env ctx c mx)
    (hcr : cleanSeq3 env ctx.caseBlind ctx.multiLine true (o2 :: os) = true) (hwr : wfOps (o2 :: os) = true)
    (hnr : noEmptyAtomsL (o2 :: os) = true) (hcanr : clsCanonBL (o2 :: os) = true)
    (i : Nat) (hi : i ≤ ctx.len) (st : St) (hm : memPair st.hist id i = false) :
    (matchAt ctx (.seq (.rep id c 0 mx true :: o2 :: os)) i st).1 = true ↔
      ∃ j, OpR ctx (.seq (.rep id c 0 mx true :: o2 :: os)) i j := by
  have hccr := clsCanonL_of_B _ hcanr
  have hex := rep0_first env ctx hI id c mx o2 os h hcr hwr hnr hcanr i hi (matchStart ctx i st)
    (by rw [matchStart_hist]; exact hm)
  have hwrep : wfOp (.rep id c 0 mx true) = true := by
    simp only [wfOp, h.wf, Bool.true_and, Bool.and_eq_true, decide_eq_true_eq]
    exact ⟨Nat.zero_le _, h.mx0⟩
  have hwf : wfOp (.seq (.rep id c 0 mx true :: o2 :: os)) = true := by
    simp only [wfOp, wfOps, List.isEmpty_cons, Bool.not_false, Bool.true_and, Bool.and_eq_true]
    simp only [wfOps, Bool.and_eq_true] at hwr
    exact ⟨by simpa only [wfOp, Bool.and_eq_true] using hwrep, hwr⟩
  rw [matchAt_eq]
  constructor
  · intro ht
    generalize hs : sem ctx (.seq (.rep id c 0 mx true :: o2 :: os)) i (matchStart ctx i st) = s at hex ht
    generalize (greedyIter (enum3 ctx c) 0 (Nat.min mx (ctx.len + 1 - i)) 0 i ++
        greedyIter (enum3 ctx c) 0 (Nat.min mx (ctx.len + 1 - i) - 1) 0 i).flatMap (enumSeq3 ctx (o2 :: os)) = L at hex
    cases hex with
    | nil st' => simp at ht
    | cons n st' r l _ =>
      have := C01.sem_sound ctx _ hwf i hi (matchStart ctx i st)
      rw [hs] at this
      exact ⟨n, this.head'⟩
  · rintro ⟨j, hj⟩
    simp only [OpR, OpRSeq] at hj
    obtain ⟨m, hrep, m2, ho2, hrest⟩ := hj
    have hmem := rep0_complete env ctx hI id c mx h i m hi (by simpa only [OpR] using hrep)
    rw [← rep0_first_pass env ctx hI id c mx h i hi] at hmem
    have hmL := (OpR_bounds_op ctx _ i m hi (show OpR ctx (.rep id c 0 mx true) i m by simpa only [OpR] using hrep)).2
    have hne : enumSeq3 ctx (o2 :: os) m ≠ [] :=
      exist3_seq env ctx hI (o2 :: os) hcr hwr hnr hccr m j hmL (by simp only [OpRSeq]; exact ⟨m2, ho2, hrest⟩)
    have hl : (greedyIter (enum3 ctx c) 0 (Nat.min mx (ctx.len + 1 - i)) 0 i ++
        greedyIter (enum3 ctx c) 0 (Nat.min mx (ctx.len + 1 - i) - 1) 0 i).flatMap (enumSeq3 ctx (o2 :: os)) ≠ [] := by
      intro hnil
      rw [List.flatMap_eq_nil_iff] at hnil
      exact hne (hnil m (List.mem_append_left _ hmem))
    generalize hs : sem ctx (.seq (.rep id c 0 mx true :: o2 :: os)) i (matchStart ctx i st) = s at hex
    generalize (greedyIter (enum3 ctx c) 0 (Nat.min mx (ctx.len + 1 - i)) 0 i ++
        greedyIter (enum3 ctx c) 0 (Nat.min mx (ctx.len + 1 - i) - 1) 0 i).flatMap (enumSeq3 ctx (o2 :: os)) = L at hex hl
    cases hex with
    | nil st' => exact absurd rfl hl
    | cons n st' r l _ => rfl

/-! ### `CompleteAt` is false for programs with a skippable general repeat -/
section min0_counterexample

private def env0 : Env :=
  { lower := id, closure := fun _ => [], category := fun _ => none, block := fun _ => none,
    digit := [], word := [], nameStart := [], nameChar := [] }

/-- the tree the model's compiler builds for `(?:ab|c)*d` -/
def starTree : Op :=
  .seq [.rep 1 (.choice [.atom [97, 98], .atom [99]]) 0 usizeMax true, .atom [100], .endProgram]

/-- `(?:ab|c)*d` = [40,63,58,97,98,124,99,41,42,100] -/
theorem starTree_compiled :
    (match compileCore env0 {} [40, 63, 58, 97, 98, 124, 99, 41, 42, 100] true with
     | .ok pr => wfOp pr.op && noEmptyAtoms pr.op && clsCanonB pr.op && !cleanProg3 env0 false false pr.op &&
         (enum3 (pr.ctx id [97, 98, 99, 100]) pr.op 0 == enum3 (pr.ctx id [97, 98, 99, 100]) starTree 0)
     | _ => false) = true := by decide +kernel

def starCtx : Ctx := { input := [100], caseBlind := false, multiLine := false, hasBackrefs := false, maxParens := 1, lower := id }

/-- on "d" the language has the member 0 → 1 (zero iterations, then `d`) … -/
theorem star_member : OpR starCtx starTree 0 1 := by
  simp only [starTree, OpR, OpRSeq]
  refine ⟨0, ⟨0, Nat.le_refl _, Nat.zero_le _, .zero 0⟩, 1, ?_, 1, rfl, rfl⟩
  decide

/-- … which the engine finds from a fresh state and does NOT find from a (panic-free) state whose memo
    has the entry (1, 0) — the state a previous `match_at(0)` attempt leaves behind -/
theorem star_engine :
    (first1 (sem starCtx starTree 0 {})).1.isSome = true ∧
    (first1 (sem starCtx starTree 0 { hist := [(1, 0)] })).1.isSome = false := by decide +kernel

/-- hence the hypothesis `CompleteAt` of Props/SearchComplete (all clean states) fails -/
theorem completeAt_min0_false : ¬ CompleteAt starCtx starTree := by
  intro h
  have := (h 0 { hist := [(1, 0)] } (by decide) rfl).2 ⟨1, star_member⟩
  rw [star_engine.2] at this
  cases this

/-- while `is_match` of the compiled program is right on this input (and on every input tried) -/
theorem star_isMatch :
    (match compileCore env0 {} [40, 63, 58, 97, 98, 124, 99, 41, 42, 100] true with
     | .ok pr => (pr.isMatch id [100] == .ok true) && (pr.isMatch id [97, 98, 99, 100] == .ok true) &&
         (pr.isMatch id [120, 97, 98, 99, 99, 100] == .ok true) && (pr.isMatch id [97, 98, 99] == .ok false)
     | _ => false) = true := by decide +kernel

end min0_counterexample

/-! ## negative examples: what each condition on the repeat excludes -/
section negative

/-- K9 (Props/Findings): `(?:a+b?|a+b?){3}a` — `mn = 3 ≥ 1`, body rep-free and not nullable, but NOT
    end-deterministic (two identical branches; inexact inner quantifiers).  The engine loses the match on
    "aaaaba" (`Findings.K9_isMatch`, `K9'_isMatch`, `K9_same_language`): the force-progress cut. -/
theorem k9_outside : cleanProg3 env0 false false Findings.progK9.op = false ∧
    (match Findings.progK9.op with
     | .seq (.rep _ c mn _ g :: _) => g && decide (1 ≤ mn) && cleanOp2 env0 false false c && nonNull c && !detB env0 false c
     | _ => false) = true := by decide +kernel

/-- K3 (Props/Findings): `^(?:(?:xx|x)(?:ab|c)*){2}$` — a general repeat nested in the body of another:
    the body is not in `cleanOp2`.  The engine loses the match on "xx" (`Findings.K3_isMatch`, `K3_member`):
    the memo suppresses the inner zero-iteration alternative in the second outer iteration. -/
theorem k3_outside : cleanProg3 env0 false false Findings.progK3.op = false ∧
    (match Findings.progK3.op with
     | .seq [_, .rep _ c _ _ _, _, _] => !cleanOp2 env0 false false c
     | _ => false) = true := by decide +kernel

/-- K4 (Props/Findings): `^(?:a|ab|b){0,2}$` — `min = 0` and an ambiguous body: the re-extension of the
    zero-iteration entry stops one iteration short and the engine loses the match on "abb"
    (`Findings.K4_isMatch`, `K4_member`).  With a DETERMINISTIC body the first pass already reaches the
    bound (`rep0_fresh`, `rep0_complete`), so the shortened second pass loses nothing. -/
theorem k4_outside : cleanProg3 env0 false false Findings.progK4.op = false ∧
    (match Findings.progK4.op with
     | .seq [_, .rep _ c mn _ _, _, _] => (mn == 0) && !detB env0 false c
     | _ => false) = true := by decide +kernel

end negative

/-! ## non-vacuity -/
section examples

/-- `x(?:a|bc)+y` and `(?:ab|c){2,3}d` as the model's compiler builds them are programs of the fragment
    (outside the fragments of Props/Clean and Props/Clean2) -/
theorem ex_compiled :
    (match compileCore env0 {} [120, 40, 63, 58, 97, 124, 98, 99, 41, 43, 121] true with
     | .ok pr => cleanProg3 env0 false false pr.op && wfOp pr.op && noEmptyAtoms pr.op && clsCanonB pr.op &&
         !cleanProg2 env0 false false pr.op
     | _ => false) = true ∧
    (match compileCore env0 {} [40, 63, 58, 97, 98, 124, 99, 41, 123, 50, 44, 51, 125, 100] true with
     | .ok pr => cleanProg3 env0 false false pr.op && wfOp pr.op && noEmptyAtoms pr.op && clsCanonB pr.op &&
         !cleanProg2 env0 false false pr.op
     | _ => false) = true := by decide +kernel

/-- `x(?:a|bc)+y` -/
def exTree : Op :=
  .seq [.atom [120], .rep 1 (.choice [.atom [97], .atom [98, 99]]) 1 usizeMax true, .atom [121], .endProgram]

private def ctxOf (input : List Nat) : Ctx :=
  { input := input, caseBlind := false, multiLine := false, hasBackrefs := false, maxParens := 1, lower := id }

/-- on "zxabcay": from 1 the only end is 7 (`x`·`a`·`bc`·`a`·`y`); the repeat alone, from 2, lists the ends
    for 3, 2, 1 iterations: 6, 5, 3 -/
example : enum3 (ctxOf [122, 120, 97, 98, 99, 97, 121]) exTree 1 = [7] ∧
    enum3 (ctxOf [122, 120, 97, 98, 99, 97, 121]) (.rep 1 (.choice [.atom [97], .atom [98, 99]]) 1 usizeMax true) 2
      = [6, 5, 3] ∧
    (matchAt (ctxOf [122, 120, 97, 98, 99, 97, 121]) exTree 1 {}).1 = true ∧
    getParenEnd (matchAt (ctxOf [122, 120, 97, 98, 99, 97, 121]) exTree 1 {}).2 0 = some 7 := by decide +kernel

/-- `(?:ab|c)*` (min = 0) from a fresh state on "abcd": the first end is 3 (`ab`·`c`) -/
example : (match sem (ctxOf [97, 98, 99, 100]) (.rep 1 (.choice [.atom [97, 98], .atom [99]]) 0 usizeMax true) 0 {} with
    | .cons n _ _ => n | _ => 0) = 3 := by decide +kernel

end examples

end Rx.Clean3
