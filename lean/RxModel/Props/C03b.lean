/-
  Props/C03b — captured groups and back-references on the straight-line fragment (C03, C19).

  C03: "the text attributed to capturing group N is the substring matched by the N-th parenthesised
  sub-expression during its last participation on the selected match path, empty/absent if the group
  did not participate; group entries are properly nested, lie inside the match".
  C19: "a back-reference \N matches exactly a copy of the text captured by group N at that point of the
  match path (case-insensitively under flag i), the empty string if group N has not participated".

  The full statements are false of the engine for captures under quantifiers and inside alternatives
  (findings K5 / K6: after a loop gives back an iteration, or an alternative fails, the groups set on
  the abandoned path are left emptied / stale) — `captures_in_loop_stale` below is a kernel-checked
  witness.  They are theorems on the fragment `straightCaps` (Spec/PathCaps): every `.capture` and every
  `.backref` is reachable from the root through `.seq` and `.capture` nodes only; alternation branches
  and bodies of the fixed-length quantifiers are capture-free, back-reference-free clean trees.

  Specification (Spec/PathCaps): `PathR ctx op p e q e'`, the relational path semantics with a
  capture environment `CEnv = group ↦ Option span` threaded left to right ("last participation");
  `enumC`, its priority-ordered enumeration; `ReprOff / Repr`, "the matcher's arrays hold exactly this
  environment".

  Side conditions on the program, all decidable, all guaranteed by the compiler and re-checked on
  compiled programs in the examples: `wfOp`, `C02.capsPos`, `scopeOK hasBackrefs maxParens op [] []`
  (group numbers in `1 .. maxParens-1`; a back-reference only to a group closed to its left and not
  re-opened around it or to its right — `C19.escape_backref_valid`; back-references only in a program
  that has the `hasBackrefs` flag), and for the nesting statement `(capsOf op).Nodup` (each group
  number is allotted once).

  Proved:
    3a `sem_enumC`, `sem_sound_caps`, `sem_sound_caps_top`
         the iterator yields exactly `enumC` (ends WITH environments, in priority order, then stops:
         soundness, completeness, order, termination), every time in a state whose arrays represent the
         environment of THIS path — under every consumer that resumes it with a state still representing
         the environment of the last yield; hence a back-reference has compared against exactly the text
         its group captured on this path
    3b `matchAt_caps`, `matchAt_groups`, `groups_inside`, `groups_nested`, `matchAt_nested`,
       `matchAt_caps_no_panic` (no panic site reachable, no fuel exhausted — C05 only covers programs
       without back-references)
    3c `backref_exact_some` (`_iff`), `backref_exact_none`, `backref_exact_empty`
    3d `enumC_iff_PathR` (the enumeration lists exactly the paths), `matchAt_caps` (the reported
       environment is that of the FIRST path of the priority order), `PathR_erase` (erasing the
       environments gives `OpR`)
    4  examples on compiled programs (`(a)(b|c)\1`, `((a)b)\2\1`, `(a*)(b)\1`, and `(a*)(a|b)\1` where
       the match is found after backtracking over an abandoned path that had set group 2)
    5  `captures_in_loop_stale`, `loop_paths`: `(a|b)*b` on "ab".
  Not done: a larger fragment (captures inside alternation branches where the sequence iterator
  restores them); the search loop above `match_at`.
-/
import RxModel.Spec.PathCaps
import RxModel.Proofs.PathCapsLemmas
import RxModel.Proofs.LeafLemmas
import RxModel.Model.Compile
import RxModel.Props.C02
import RxModel.Props.Clean
namespace Rx.C03b
open Rx

/-! ### 3c. a back-reference step of a path is an exact copy -/

/-- a `\g` step from `p` to `q` in an environment that binds `g ↦ (a, b)`: it consumes exactly
    `b - a` characters, inside the input, pointwise equal (case-blind under flag i: `ctx.eqAt`) to
    the captured text; the environment is unchanged -/
theorem backref_exact_some (ctx : Ctx) (g p q : Nat) (e e' : CEnv) (a b : Nat) (hg : e g = some (a, b))
    (h : PathR ctx (.backref g) p e q e') :
    e' = e ∧ q = p + (b - a) ∧ q ≤ ctx.len ∧
    ∀ k, k < b - a → ∃ x y, ctx.input[p + k]? = some x ∧ ctx.input[a + k]? = some y ∧ ctx.eqAt x y = true := by
  simp only [PathR, hg, BackrefR] at h
  exact ⟨h.1, h.2.1, h.2.2.1, (Leaf.sameText_iff ctx (b - a) p a).1 h.2.2.2⟩

/-- … and conversely such a copy is a `\g` step -/
theorem backref_exact_some_iff (ctx : Ctx) (g p q : Nat) (e e' : CEnv) (a b : Nat) (hg : e g = some (a, b)) :
    PathR ctx (.backref g) p e q e' ↔
    (e' = e ∧ q = p + (b - a) ∧ q ≤ ctx.len ∧
     ∀ k, k < b - a → ∃ x y, ctx.input[p + k]? = some x ∧ ctx.input[a + k]? = some y ∧ ctx.eqAt x y = true) := by
  simp only [PathR, hg, BackrefR, Leaf.sameText_iff]

/-- a `\g` step in an environment where `g` has not participated matches the empty string -/
theorem backref_exact_none (ctx : Ctx) (g p q : Nat) (e e' : CEnv) (hg : e g = none) :
    PathR ctx (.backref g) p e q e' ↔ (e' = e ∧ q = p) := by
  simp only [PathR, hg, BackrefR]

/-- a group that captured the empty string: the back-reference matches the empty string -/
theorem backref_exact_empty (ctx : Ctx) (g p q : Nat) (e e' : CEnv) (a : Nat) (hg : e g = some (a, a))
    (hp : p ≤ ctx.len) : PathR ctx (.backref g) p e q e' ↔ (e' = e ∧ q = p) := by
  simp only [PathR, hg, BackrefR, Nat.sub_self, Nat.add_zero, sameText, and_true]
  constructor
  · rintro ⟨h1, h2, _⟩; exact ⟨h1, h2⟩
  · rintro ⟨h1, h2⟩; exact ⟨h1, h2, by omega⟩

/-! ### 3d (pure part). the enumeration with environments lists exactly the paths -/

/-- `enumC` lists exactly the (end, environment) pairs of the path semantics -/
theorem enumC_iff_PathR (ctx : Ctx) (op : Op) (hs : straightCaps op = true) (hwf : wfOp op = true)
    (lo p : Nat) (e : CEnv) (hp : p ≤ ctx.len) (hlo : lo ≤ p) (he : EnvIn e lo p) (q : Nat) (e' : CEnv) :
    (q, e') ∈ enumC ctx op p e ↔ PathR ctx op p e q e' :=
  ⟨fun h => (enumC_facts ctx lo op hs hwf [] p e hp hlo he (Dom.nil e) (q, e') h).path,
   fun h => enumC_complete ctx op hs hwf p e q e' hp h⟩

/-- erasing the environments gives the language of Spec/OpLang -/
theorem PathR_erase (ctx : Ctx) (op : Op) (p q : Nat) (e e' : CEnv) (hp : p ≤ ctx.len)
    (h : PathR ctx op p e q e') : OpR ctx op p q :=
  PathR_OpR ctx op p e q e' hp h

/-! ### 3a. the engine against the path semantics -/

/-- **exactness.**  Started at `p` in a state whose arrays represent `e` (off the groups of `op` itself
    and the groups `fut` still to come), the iterator of `op` yields exactly `enumC ctx op p e` — the
    ends of the paths WITH their environments, in priority order — each time leaving a state whose
    arrays represent the environment of that very path (off `fut`); when exhausted it leaves a state
    that represents `e` again.  This holds under every consumer that resumes the iterator with a state
    still representing the environment of the last yield (off `fut`). -/
theorem sem_enumC (ctx : Ctx) (op : Op) (hs : straightCaps op = true) (hwf : wfOp op = true)
    (cl fut : List Nat) (hsc : scopeOK ctx.hasBackrefs ctx.maxParens op cl fut = true)
    (lo p : Nat) (e : CEnv) (st : St) (hp : p ≤ ctx.len) (hlo : lo ≤ p) (he : EnvIn e lo p) (hd : Dom cl e)
    (hst : ReprOff ctx (capsOf op ++ fut) st e) :
    Step.SeqC (ReprOff ctx fut) (fun st' => ReprOff ctx (capsOf op ++ fut) st' e) (sem ctx op p st)
      (enumC ctx op p e) :=
  sem_seqC ctx lo op hs hwf cl fut hsc p e st hp hlo he hd hst

/-- **soundness with captures.**  Every yield `(q, st')` of `sem ctx op p st` — the first one and every
    later one, under states that still represent the environment produced so far — comes with an
    environment `e'` such that `PathR ctx op p e q e'` and `st'` represents `e'`: the engine's capture
    arrays are exactly the groups set along THIS path (and every back-reference on it has compared
    against exactly the text its group captured on this path, `backref_exact_some`). -/
theorem sem_sound_caps (ctx : Ctx) (op : Op) (hs : straightCaps op = true) (hwf : wfOp op = true)
    (cl fut : List Nat) (hsc : scopeOK ctx.hasBackrefs ctx.maxParens op cl fut = true)
    (lo p : Nat) (e : CEnv) (st : St) (hp : p ≤ ctx.len) (hlo : lo ≤ p) (he : EnvIn e lo p) (hd : Dom cl e)
    (hst : ReprOff ctx (capsOf op ++ fut) st e) :
    Step.Caps (ReprOff ctx fut)
      (fun q e' => PathR ctx op p e q e' ∧ p ≤ q ∧ q ≤ ctx.len ∧ EnvIn e' lo q ∧ Dom (capsOf op ++ cl) e')
      (fun st' => ReprOff ctx (capsOf op ++ fut) st' e) (sem ctx op p st) :=
  (sem_enumC ctx op hs hwf cl fut hsc lo p e st hp hlo he hd hst).caps (fun x hx =>
    have f := enumC_facts ctx lo op hs hwf cl p e hp hlo he hd x hx
    ⟨f.path, f.le, f.len, f.env, f.dom⟩)

/-- the whole program (`cl = fut = []`): `Repr` at every yield -/
theorem sem_sound_caps_top (ctx : Ctx) (op : Op) (hs : straightCaps op = true) (hwf : wfOp op = true)
    (hsc : scopeOK ctx.hasBackrefs ctx.maxParens op [] [] = true)
    (p : Nat) (st : St) (hp : p ≤ ctx.len) (hst : ReprOff ctx (capsOf op) st CEnv.empty) :
    Step.Caps (Repr ctx)
      (fun q e' => PathR ctx op p CEnv.empty q e' ∧ p ≤ q ∧ q ≤ ctx.len ∧ EnvIn e' p q ∧ Dom (capsOf op) e')
      (fun st' => ReprOff ctx (capsOf op) st' CEnv.empty) (sem ctx op p st) := by
  have h := sem_sound_caps ctx op hs hwf [] [] hsc p p CEnv.empty st hp (Nat.le_refl _) (EnvIn.empty _ _)
    (Dom.nil _) (by simpa using hst)
  simpa using h

/-! ### 3b. `match_at` -/

mutual
theorem capsPos_capsOf : (op : Op) → C02.capsPos op = true → ∀ g, g ∈ capsOf op → 1 ≤ g
  | .capture g' c, h, g, hg => by
    simp only [C02.capsPos, Bool.and_eq_true, decide_eq_true_eq] at h
    simp only [capsOf, List.mem_cons] at hg
    rcases hg with rfl | hg
    · exact h.1
    · exact capsPos_capsOf c h.2 g hg
  | .choice bs, h, g, hg => by
    simp only [C02.capsPos] at h; simp only [capsOf] at hg; exact capsPosL_capsOfL bs h g hg
  | .seq ops, h, g, hg => by
    simp only [C02.capsPos] at h; simp only [capsOf] at hg; exact capsPosL_capsOfL ops h g hg
  | .rep _ c _ _ _, h, g, hg => by
    simp only [C02.capsPos] at h; simp only [capsOf] at hg; exact capsPos_capsOf c h g hg
  | .gfixed c _ _ _, h, g, hg => by
    simp only [C02.capsPos] at h; simp only [capsOf] at hg; exact capsPos_capsOf c h g hg
  | .rfixed c _ _ _, h, g, hg => by
    simp only [C02.capsPos] at h; simp only [capsOf] at hg; exact capsPos_capsOf c h g hg
  | .unamb c _ _, h, g, hg => by
    simp only [C02.capsPos] at h; simp only [capsOf] at hg; exact capsPos_capsOf c h g hg
  | .bol, _, _, hg | .eol, _, _, hg | .nothing, _, _, hg | .endProgram, _, _, hg | .atom _, _, _, hg
  | .cls _, _, _, hg | .backref _, _, _, hg => by simp [capsOf] at hg
termination_by structural op => op
theorem capsPosL_capsOfL : (ops : List Op) → C02.capsPosL ops = true → ∀ g, g ∈ capsOfL ops → 1 ≤ g
  | [], _, _, hg => by simp [capsOfL] at hg
  | o :: os, h, g, hg => by
    simp only [C02.capsPosL, Bool.and_eq_true] at h
    simp only [capsOfL, List.mem_append] at hg
    rcases hg with hg | hg
    · exact capsPos_capsOf o h.1 g hg
    · exact capsPosL_capsOfL os h.2 g hg
termination_by structural ops => ops
end

/-- **`match_at` reports the captures of the selected path.**  After a successful `match_at(i)` on a
    straight-line tree (from a state whose reported arrays are clear outside the groups of the tree)
    there are an end `n` and an environment `e'` such that
      * `(n, e')` is a path of the semantics from `(i, ∅)`, and it is the FIRST path in priority order
        (`enumC … .head?`): ordered choice, greedy-longest, reluctant-shortest;
      * group 0 of the final state is `(i, n)`;
      * the final state represents `e'`: for every group `g ≥ 1` the reported arrays (and, in a program
        with back-references, the arrays back-references read) hold exactly `e' g` — both `none`, or
        the span (`matchAt_groups` spells this out);
      * every span of `e'` lies inside `(i, n)`; exactly the groups of the tree are bound. -/
theorem matchAt_caps (ctx : Ctx) (op : Op) (hs : straightCaps op = true) (hwf : wfOp op = true)
    (hcp : C02.capsPos op = true) (hsc : scopeOK ctx.hasBackrefs ctx.maxParens op [] [] = true)
    (i : Nat) (hi : i ≤ ctx.len) (st0 st' : St) (h0 : CapsClear op st0) (hp0 : st0.panic = none)
    (h : matchAt ctx op i st0 = (true, st')) :
    ∃ n e', PathR ctx op i CEnv.empty n e' ∧ (enumC ctx op i CEnv.empty).head? = some (n, e') ∧
      getParenStart st' 0 = some i ∧ getParenEnd st' 0 = some n ∧ i ≤ n ∧ n ≤ ctx.len ∧
      Repr ctx st' e' ∧ EnvIn e' i n ∧ (∀ g, g ∈ capsOf op ↔ (e' g).isSome = true) := by
  obtain ⟨hg0, n0, hg0e, _, _, _⟩ := C02.matchAt_span ctx op hwf hcp i hi st0 st' h
  have hrepr := matchStart_repr ctx op i st0 h0 (.inl hp0)
  have hseq := sem_seqC ctx i op hs hwf [] [] hsc i CEnv.empty (matchStart ctx i st0) hi (Nat.le_refl _)
    (EnvIn.empty _ _) (Dom.nil _) hrepr
  have hfacts := enumC_facts ctx i op hs hwf [] i CEnv.empty hi (Nat.le_refl _) (EnvIn.empty _ _) (Dom.nil _)
  rw [matchAt_eq] at h
  generalize hl : enumC ctx op i CEnv.empty = l at hseq hfacts
  generalize sem ctx op i (matchStart ctx i st0) = s at h hseq
  cases hseq with
  | nil st hn => simp at h
  | cons n st r e' l' hr _ =>
    simp only [Prod.mk.injEq, true_and] at h
    subst h
    have f := hfacts (n, e') List.mem_cons_self
    have hend : getParenEnd { st with cap := st.cap.setEnd 0 n } 0 = some n := by
      simp only [getParenEnd, Cap.setEnd]
      exact getO_setAt_zero _ _
    refine ⟨n, e', f.path, rfl, hg0, hend, f.le, f.len, hr.setEnd0 n, f.env, fun g => ⟨fun hg => ?_, fun hg => ?_⟩⟩
    · exact f.dom g (by simpa using hg)
    · apply Classical.byContradiction
      intro hng
      have := PathR_frame ctx op hs i CEnv.empty n e' f.path g hng
      rw [this] at hg
      simp [CEnv.empty] at hg

/-- what `Repr` says about the accessors `get_paren_start / get_paren_end` -/
theorem matchAt_groups {ctx : Ctx} {st' : St} {e' : CEnv} (h : Repr ctx st' e') (g : Nat) (hg : 1 ≤ g) :
    getParenStart st' g = (e' g).map (·.1) ∧ getParenEnd st' g = (e' g).map (·.2) :=
  ⟨(h.agree g hg (by simp)).1, (h.agree g hg (by simp)).2.1⟩

/-- every bound group lies inside the match `(i, n)` and is a well-formed span -/
theorem groups_inside {e' : CEnv} {i n : Nat} (h : EnvIn e' i n) (g a b : Nat) (hg : e' g = some (a, b)) :
    i ≤ a ∧ a ≤ b ∧ b ≤ n :=
  h g a b hg

/-- **nesting and text.**  On a path of a straight-line tree with distinct group numbers, for every
    capture node `(g, c)`: group `g` is bound to a span `(a, b)` inside the path, the text of the group
    is a match of its sub-expression (`OpR ctx c a b`), and every group `g'` that is syntactically inside
    `(g, c)` is bound to a span inside `(a, b)` -/
theorem groups_nested (ctx : Ctx) (op : Op) (hs : straightCaps op = true) (hnd : (capsOf op).Nodup)
    (p q : Nat) (e e' : CEnv) (hp : p ≤ ctx.len) (h : PathR ctx op p e q e') (g : Nat) (c : Op)
    (hm : (g, c) ∈ capNodes op) (hsc : straightCaps c = true) :
    ∃ a b, e' g = some (a, b) ∧ p ≤ a ∧ a ≤ b ∧ b ≤ q ∧ OpR ctx c a b ∧
      ∀ g', g' ∈ capsOf c → ∃ a' b', e' g' = some (a', b') ∧ a ≤ a' ∧ a' ≤ b' ∧ b' ≤ b := by
  obtain ⟨a, b, ea, eb, h1, h2, h3, h4, h5⟩ := PathR_capNodes ctx op hs p e q e' hp hnd h g c hm
  have hq := (PathR_bounds ctx op hp h).2
  have hb : a ≤ b ∧ b ≤ ctx.len := by
    obtain ⟨a2, b2, k1, _, k3, _⟩ := PathR_inside ctx op hs p e q e' hp h g (capNodes_sub op g c hm).1
    rw [h1] at k1
    simp only [Option.some.injEq, Prod.mk.injEq] at k1
    omega
  have ha : a ≤ ctx.len := by omega
  refine ⟨a, b, h1, h2, hb.1, h3, PathR_OpR ctx c a ea b eb ha h4, fun g' hg' => ?_⟩
  obtain ⟨a', b', k1, k2, k3, k4⟩ := PathR_inside ctx c hsc a ea b eb ha h4 g' hg'
  exact ⟨a', b', by rw [h5 g' hg']; exact k1, k2, k3, k4⟩

mutual
theorem capNodes_straight : (op : Op) → straightCaps op = true → ∀ g c, (g, c) ∈ capNodes op → straightCaps c = true
  | .capture g' c', hs, g, c, h => by
    simp only [straightCaps] at hs
    simp only [capNodes, List.mem_cons, Prod.mk.injEq] at h
    rcases h with ⟨_, rfl⟩ | h
    · exact hs
    · exact capNodes_straight c' hs g c h
  | .seq ops, hs, g, c, h => by
    simp only [straightCaps] at hs
    simp only [capNodes] at h
    exact capNodesL_straight ops hs g c h
  | .bol, _, _, _, h | .eol, _, _, _, h | .nothing, _, _, _, h | .endProgram, _, _, _, h | .atom _, _, _, _, h
  | .cls _, _, _, _, h | .backref _, _, _, _, h | .choice _, _, _, _, h | .rep _ _ _ _ _, _, _, _, h
  | .gfixed _ _ _ _, _, _, _, h | .rfixed _ _ _ _, _, _, _, h | .unamb _ _ _, _, _, _, h => by
    simp [capNodes] at h
termination_by structural op => op
theorem capNodesL_straight : (ops : List Op) → straightCapsL ops = true → ∀ g c, (g, c) ∈ capNodesL ops →
    straightCaps c = true
  | [], _, _, _, h => by simp [capNodesL] at h
  | o :: os, hs, g, c, h => by
    simp only [straightCapsL, Bool.and_eq_true] at hs
    simp only [capNodesL, List.mem_append] at h
    rcases h with h | h
    · exact capNodes_straight o hs.1 g c h
    · exact capNodesL_straight os hs.2 g c h
termination_by structural ops => ops
end

/-- **C03 on the fragment, in terms of the reported state only.**  After a successful `match_at(i)`:
    group 0 is `(i, n)`; for every parenthesised sub-expression `(g, c)` of the pattern the reported
    span of group `g` is `(a, b)` with `i ≤ a ≤ b ≤ n`, the text `[a, b)` is a match of `c`, and the
    reported span of every group nested inside it lies inside `(a, b)` -/
theorem matchAt_nested (ctx : Ctx) (op : Op) (hs : straightCaps op = true) (hwf : wfOp op = true)
    (hcp : C02.capsPos op = true) (hsc : scopeOK ctx.hasBackrefs ctx.maxParens op [] [] = true)
    (hnd : (capsOf op).Nodup)
    (i : Nat) (hi : i ≤ ctx.len) (st0 st' : St) (h0 : CapsClear op st0) (hp0 : st0.panic = none)
    (h : matchAt ctx op i st0 = (true, st')) :
    ∃ n, getParenStart st' 0 = some i ∧ getParenEnd st' 0 = some n ∧ i ≤ n ∧ n ≤ ctx.len ∧
      ∀ g c, (g, c) ∈ capNodes op →
        ∃ a b, getParenStart st' g = some a ∧ getParenEnd st' g = some b ∧ i ≤ a ∧ a ≤ b ∧ b ≤ n ∧
          OpR ctx c a b ∧
          ∀ g', g' ∈ capsOf c → ∃ a' b', getParenStart st' g' = some a' ∧ getParenEnd st' g' = some b' ∧
            a ≤ a' ∧ a' ≤ b' ∧ b' ≤ b := by
  obtain ⟨n, e', hpath, _, h1, h2, h3, h4, hrep, _, _⟩ := matchAt_caps ctx op hs hwf hcp hsc i hi st0 st' h0 hp0 h
  refine ⟨n, h1, h2, h3, h4, fun g c hm => ?_⟩
  have hsub := capNodes_sub op g c hm
  obtain ⟨a, b, k1, k2, k3, k4, k5, k6⟩ := groups_nested ctx op hs hnd i n _ e' hi hpath g c hm
    (capNodes_straight op hs g c hm)
  have hg := matchAt_groups hrep g (capsPos_capsOf op hcp g hsub.1)
  rw [k1] at hg
  refine ⟨a, b, hg.1, hg.2, k2, k3, k4, k5, fun g' hg' => ?_⟩
  obtain ⟨a', b', j1, j2, j3, j4⟩ := k6 g' hg'
  have hg2 := matchAt_groups hrep g' (capsPos_capsOf op hcp g' (hsub.2 g' hg'))
  rw [j1] at hg2
  exact ⟨a', b', hg2.1, hg2.2, j2, j3, j4⟩

/-! ### no panic site is reachable on the fragment (C05 covers only programs without back-references) -/

mutual
theorem straight_smallMin (n : Nat) : (op : Op) → straightCaps op = true → C06.smallMin n op = true
  | .bol, _ | .eol, _ | .nothing, _ | .endProgram, _ | .atom _, _ | .cls _, _ | .backref _, _ => rfl
  | .rep _ _ _ _ _, h | .unamb _ _ _, h => by simp [straightCaps] at h
  | .capture _ c, h => by
    simp only [straightCaps] at h; simp only [C06.smallMin]; exact straight_smallMin n c h
  | .seq ops, h => by
    simp only [straightCaps] at h; simp only [C06.smallMin]; exact straight_smallMinL n ops h
  | .choice bs, h =>
    Clean.clean_smallMin n (.choice bs) (plain_clean _ (by simpa only [straightCaps, plainOp] using h))
  | .gfixed c mn mx l, h =>
    Clean.clean_smallMin n (.gfixed c mn mx l) (plain_clean _ (by simpa only [straightCaps, plainOp] using h))
  | .rfixed c mn mx l, h =>
    Clean.clean_smallMin n (.rfixed c mn mx l) (plain_clean _ (by simpa only [straightCaps, plainOp] using h))
termination_by structural op => op
theorem straight_smallMinL (n : Nat) : (ops : List Op) → straightCapsL ops = true → C06.smallMinL n ops = true
  | [], _ => rfl
  | o :: os, h => by
    simp only [straightCapsL, Bool.and_eq_true] at h
    simp only [C06.smallMinL, Bool.and_eq_true]
    exact ⟨straight_smallMin n o h.1, straight_smallMinL n os h.2⟩
termination_by structural ops => ops
end

/-- a successful `match_at` on the fragment leaves the panic marker clear: neither a back-reference nor
    a capture indexes outside its array, `e - s` never underflows, no fuel runs out -/
theorem matchAt_caps_no_panic (ctx : Ctx) (op : Op) (hs : straightCaps op = true) (hwf : wfOp op = true)
    (hcp : C02.capsPos op = true) (hsc : scopeOK ctx.hasBackrefs ctx.maxParens op [] [] = true)
    (i : Nat) (hi : i ≤ ctx.len) (st0 st' : St) (h0 : CapsClear op st0) (hp0 : st0.panic = none)
    (h : matchAt ctx op i st0 = (true, st')) : st'.panic = none := by
  obtain ⟨n, e', _, _, _, _, _, _, hrep, _, _⟩ := matchAt_caps ctx op hs hwf hcp hsc i hi st0 st' h0 hp0 h
  have hnd := C06.matchAt_no_diverge ctx op hwf (straight_smallMin _ op hs) i hi st0
    (by unfold C06.NoDivMark; rw [hp0]; exact fun hc => by cases hc)
  rw [h] at hnd
  rcases hrep.np with hnp | hnp
  · exact hnp
  · exact absurd hnp hnd

/-! ### 4. non-vacuity: compiled programs -/
section examples

private def env0 : Env :=
  { lower := id, closure := fun _ => [], category := fun _ => none, block := fun _ => none,
    digit := [], word := [], nameStart := [], nameChar := [] }

/-- every hypothesis of `matchAt_caps` / `matchAt_nested` on the program side -/
def progOK (hbr : Bool) (mp : Nat) (op : Op) : Bool :=
  straightCaps op && wfOp op && C02.capsPos op && scopeOK hbr mp op [] [] && decide (capsOf op).Nodup

/-- the compiled program has tree `t`, the flags `hbr`, `mp`, and is neither case-blind nor multi-line -/
private def compiledIs (c : Out Prog) (t : Op) (hbr : Bool) (mp : Nat) : Bool :=
  match c with
  | .ok pr => opEq pr.op t && (pr.hasBackrefs == hbr) && (pr.maxParens == mp) && !pr.caseBlind && !pr.multiLine &&
      progOK pr.hasBackrefs pr.maxParens pr.op
  | _ => false

private def ctxOf (input : List Nat) : Ctx :=
  { input := input, caseBlind := false, multiLine := false, hasBackrefs := true, maxParens := 3, lower := id }

/-- groups 0, 1, 2 of a state, as `get_paren_start / get_paren_end` report them -/
private def groups3 (st' : St) :
    Option Nat × Option Nat × Option Nat × Option Nat × Option Nat × Option Nat :=
  (getParenStart st' 0, getParenEnd st' 0, getParenStart st' 1, getParenEnd st' 1,
   getParenStart st' 2, getParenEnd st' 2)

private theorem matchAt_mk {ctx : Ctx} {op : Op} {i : Nat} {st : St} (h : (matchAt ctx op i st).1 = true) :
    matchAt ctx op i st = (true, (matchAt ctx op i st).2) := by
  rw [← h]

/-- what `matchAt_caps` + `matchAt_nested` give for a fresh state, as one statement about a tree -/
private def Conclusion (ctx : Ctx) (op : Op) (i : Nat) : Prop :=
  let st' := (matchAt ctx op i {}).2
  (∃ n e', PathR ctx op i CEnv.empty n e' ∧ (enumC ctx op i CEnv.empty).head? = some (n, e') ∧
      getParenStart st' 0 = some i ∧ getParenEnd st' 0 = some n ∧ i ≤ n ∧ n ≤ ctx.len ∧
      Repr ctx st' e' ∧ EnvIn e' i n ∧ (∀ g, g ∈ capsOf op ↔ (e' g).isSome = true)) ∧
  (∃ n, getParenStart st' 0 = some i ∧ getParenEnd st' 0 = some n ∧ i ≤ n ∧ n ≤ ctx.len ∧
      ∀ g c, (g, c) ∈ capNodes op →
        ∃ a b, getParenStart st' g = some a ∧ getParenEnd st' g = some b ∧ i ≤ a ∧ a ≤ b ∧ b ≤ n ∧
          OpR ctx c a b ∧
          ∀ g', g' ∈ capsOf c → ∃ a' b', getParenStart st' g' = some a' ∧ getParenEnd st' g' = some b' ∧
            a ≤ a' ∧ a' ≤ b' ∧ b' ≤ b)

private theorem conclusion_of (ctx : Ctx) (op : Op) (i : Nat) (hok : progOK ctx.hasBackrefs ctx.maxParens op = true)
    (hi : i ≤ ctx.len) (hm : (matchAt ctx op i {}).1 = true) : Conclusion ctx op i := by
  simp only [progOK, Bool.and_eq_true, decide_eq_true_eq] at hok
  obtain ⟨⟨⟨⟨h1, h2⟩, h3⟩, h4⟩, h5⟩ := hok
  exact ⟨matchAt_caps ctx op h1 h2 h3 h4 i hi {} _ (capsClear_of_nil op {} rfl rfl) rfl (matchAt_mk hm),
    matchAt_nested ctx op h1 h2 h3 h4 h5 i hi {} _ (capsClear_of_nil op {} rfl rfl) rfl (matchAt_mk hm)⟩

/-! `(a)(b|c)\1` on "aba" -/
private def t1 : Op :=
  .seq [.capture 1 (.atom [97]), .capture 2 (.choice [.atom [98], .atom [99]]), .backref 1, .endProgram]
example : compiledIs (compileCore env0 {} [40, 97, 41, 40, 98, 124, 99, 41, 92, 49] true) t1 true 3 = true := by
  decide +kernel
example : progOK true 3 t1 = true := by decide
/-- the theorems apply … -/
example : Conclusion (ctxOf [97, 98, 97]) t1 0 :=
  conclusion_of _ _ _ (by decide) (by decide) (by decide +kernel)
/-- … and this is what they talk about: the computed final state and the computed first path agree -/
example :
    groups3 (matchAt (ctxOf [97, 98, 97]) t1 0 {}).2 = (some 0, some 3, some 0, some 1, some 1, some 2) ∧
    (enumC (ctxOf [97, 98, 97]) t1 0 CEnv.empty).map (fun x => (x.1, x.2 1, x.2 2)) =
      [(3, some (0, 1), some (1, 2))] := ⟨by decide +kernel, by decide +kernel⟩

/-! `((a)b)\2\1` on "abaab": nested groups -/
private def t2 : Op :=
  .seq [.capture 1 (.seq [.capture 2 (.atom [97]), .atom [98]]), .backref 2, .backref 1, .endProgram]
example : compiledIs (compileCore env0 {} [40, 40, 97, 41, 98, 41, 92, 50, 92, 49] true) t2 true 3 = true := by
  decide +kernel
example : Conclusion (ctxOf [97, 98, 97, 97, 98]) t2 0 :=
  conclusion_of _ _ _ (by decide) (by decide) (by decide +kernel)
example : capNodes t2 = [(1, .seq [.capture 2 (.atom [97]), .atom [98]]), (2, .atom [97])] := rfl
example :
    groups3 (matchAt (ctxOf [97, 98, 97, 97, 98]) t2 0 {}).2 = (some 0, some 5, some 0, some 2, some 0, some 1) ∧
    (enumC (ctxOf [97, 98, 97, 97, 98]) t2 0 CEnv.empty).map (fun x => (x.1, x.2 1, x.2 2)) =
      [(5, some (0, 2), some (0, 1))] := ⟨by decide +kernel, by decide +kernel⟩

/-! `(a*)(b)\1` on "aabaa": a quantifier inside a group -/
private def t3 : Op :=
  .seq [.capture 1 (.gfixed (.atom [97]) 0 usizeMax 1), .capture 2 (.atom [98]), .backref 1, .endProgram]
example : compiledIs (compileCore env0 {} [40, 97, 42, 41, 40, 98, 41, 92, 49] true) t3 true 3 = true := by
  decide +kernel
example : Conclusion (ctxOf [97, 97, 98, 97, 97]) t3 0 :=
  conclusion_of _ _ _ (by decide) (by decide) (by decide +kernel)
example :
    groups3 (matchAt (ctxOf [97, 97, 98, 97, 97]) t3 0 {}).2 = (some 0, some 5, some 0, some 2, some 2, some 3) ∧
    (enumC (ctxOf [97, 97, 98, 97, 97]) t3 0 CEnv.empty).map (fun x => (x.1, x.2 1, x.2 2)) =
      [(5, some (0, 2), some (2, 3))] := ⟨by decide +kernel, by decide +kernel⟩

/-! `(a*)(a|b)\1` on "aab": the match is found only after backtracking into group 1 twice (group 2 was
    set to `(2, 3)` on the first, abandoned, path); the reported groups are those of the selected path -/
private def t4 : Op :=
  .seq [.capture 1 (.gfixed (.atom [97]) 0 usizeMax 1), .capture 2 (.choice [.atom [97], .atom [98]]),
        .backref 1, .endProgram]
example : compiledIs (compileCore env0 {} [40, 97, 42, 41, 40, 97, 124, 98, 41, 92, 49] true) t4 true 3 = true := by
  decide +kernel
example : Conclusion (ctxOf [97, 97, 98]) t4 0 :=
  conclusion_of _ _ _ (by decide) (by decide) (by decide +kernel)
example :
    groups3 (matchAt (ctxOf [97, 97, 98]) t4 0 {}).2 = (some 0, some 1, some 0, some 0, some 0, some 1) ∧
    (enumC (ctxOf [97, 97, 98]) t4 0 CEnv.empty).map (fun x => (x.1, x.2 1, x.2 2)) =
      [(1, some (0, 0), some (0, 1))] := ⟨by decide +kernel, by decide +kernel⟩

end examples

/-! ### 5. why the fragment excludes loops: `(a|b)*b` on "ab" reports `$1 = ""` -/
section loop

private def env0' : Env :=
  { lower := id, closure := fun _ => [], category := fun _ => none, block := fun _ => none,
    digit := [], word := [], nameStart := [], nameChar := [] }

/-- the tree the compiler builds for `(a|b)*b` -/
def loopTree : Op :=
  .seq [.gfixed (.capture 1 (.choice [.atom [97], .atom [98]])) 0 usizeMax 1, .atom [98], .endProgram]

def loopCtx : Ctx :=
  { input := [97, 98], caseBlind := false, multiLine := false, hasBackrefs := false, maxParens := 2, lower := id }

example : (match compileCore env0' {} [40, 97, 124, 98, 41, 42, 98] true with
    | .ok pr => opEq pr.op loopTree && (pr.hasBackrefs == false) && (pr.maxParens == 2) && !pr.caseBlind && !pr.multiLine
    | _ => false) = true := by decide +kernel

private abbrev bodyR : Nat → CEnv → Nat → CEnv → Prop :=
  fun a x b y => PathR loopCtx (.capture 1 (.choice [.atom [97], .atom [98]])) a x b y

private theorem body_step {a b : Nat} {x y : CEnv} (h : bodyR a x b y) : b = a + 1 ∧ y = x.set 1 a (a + 1) := by
  simp only [bodyR, PathR, PathRAny, OpR, or_false] at h
  obtain ⟨e1, h1, rfl⟩ := h
  rcases h1 with ⟨rfl, h2, _⟩ | ⟨rfl, h2, _⟩
  · simp only [List.length_cons, List.length_nil] at h2
    subst h2
    exact ⟨rfl, rfl⟩
  · simp only [List.length_cons, List.length_nil] at h2
    subst h2
    exact ⟨rfl, rfl⟩

private theorem body_iter {k p q : Nat} {e e' : CEnv} (h : IterP bodyR k p e q e') :
    q = p + k ∧ (k = 0 → e' = e) ∧ (0 < k → e' 1 = some (q - 1, q)) := by
  induction h with
  | zero p e => exact ⟨rfl, fun _ => rfl, fun h => absurd h (Nat.lt_irrefl _)⟩
  | succ _ hr ih =>
    obtain ⟨rfl, rfl⟩ := body_step hr
    refine ⟨by omega, fun h => by omega, fun _ => ?_⟩
    rw [CEnv.set_same]
    simp

/-- every path of `(a|b)*b` on "ab" from 0 ends at 2, and group 1's last participation is `(0, 1)`: "a" -/
theorem loop_paths (n : Nat) (e' : CEnv) (h : PathR loopCtx loopTree 0 CEnv.empty n e') :
    n = 2 ∧ e' 1 = some (0, 1) := by
  simp only [loopTree, PathR, PathRSeq, OpR] at h
  obtain ⟨m, e1, ⟨k, _, _, hi⟩, m2, e2, ⟨rfl, rfl, hm2, hpm⟩, m3, e3, ⟨rfl, rfl⟩, rfl, rfl⟩ := h
  obtain ⟨hq, _, h1⟩ := body_iter hi
  have hlen : loopCtx.len = 2 := rfl
  simp only [List.length_cons, List.length_nil, hlen] at hm2
  have hm : m = 1 := by
    have : m = 0 ∨ m = 1 := by omega
    rcases this with rfl | rfl
    · exact absurd hpm (by decide)
    · rfl
  subst hm
  have hk : 0 < k := by omega
  have := h1 hk
  exact ⟨rfl, by simpa using this⟩

/-- **the statement of `matchAt_caps` is false for a capture under a quantifier.**  `(a|b)*b` as the
    compiler builds it (well-formed, scoped, but not `straightCaps`), on "ab": `match_at(0)` succeeds
    and reports group 1 = `(1, 1)` — the empty string at offset 1 — whereas on the only path of the
    semantics the last (and only) participation of group 1 is `(0, 1)` = "a".  Hence no path `(n, e')`
    is represented by the final state: the conclusion of `matchAt_caps` fails.  (Finding K5: when the
    greedy loop gives back its second iteration `b`, the group set by it is emptied, not restored.) -/
theorem captures_in_loop_stale :
    straightCaps loopTree = false ∧ wfOp loopTree = true ∧ C02.capsPos loopTree = true ∧
    scopeOK loopCtx.hasBackrefs loopCtx.maxParens loopTree [] [] = true ∧ (capsOf loopTree).Nodup ∧
    (matchAt loopCtx loopTree 0 {}).1 = true ∧
    getParenStart (matchAt loopCtx loopTree 0 {}).2 1 = some 1 ∧
    getParenEnd (matchAt loopCtx loopTree 0 {}).2 1 = some 1 ∧
    ¬ ∃ n e', PathR loopCtx loopTree 0 CEnv.empty n e' ∧ Repr loopCtx (matchAt loopCtx loopTree 0 {}).2 e' := by
  have hs : getParenStart (matchAt loopCtx loopTree 0 {}).2 1 = some 1 := by decide +kernel
  refine ⟨by decide, by decide, by decide, by decide, by decide, by decide +kernel, hs, by decide +kernel, ?_⟩
  rintro ⟨n, e', hp, hr⟩
  have h1 := (loop_paths n e' hp).2
  have h2 := (matchAt_groups hr 1 (Nat.le_refl _)).1
  rw [h1, hs] at h2
  simp at h2

end loop

end Rx.C03b
