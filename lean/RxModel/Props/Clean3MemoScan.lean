/-
  Props/Clean3MemoScan — the memo fragment (`cleanProg3m`, Props/Clean3Memo) at SCAN level: the zero-length
  memo, threaded through all the `matches` calls of one replace / tokenize / analyze scan, never loses or
  moves a later match of a NON-NULLABLE pattern.  (No engine deviation found; the invariant below is proved
  to be preserved.)

  Props/Clean3Memo showed that the absolute invariant `HR` ("every memo entry is dead") can fail after a
  SUCCESSFUL `matches`.  The invariant that survives is relative to the positions still to be searched:

      `HRfrom ctx l pos st`   every memo entry `(id, p)` that a `match_at(k)` with `k ≥ pos` can REACH
                              (the elements before the repeat `id` match `[k, p)`) is dead

  (`MemoScan.HRG ctx (pos ≤ ·) l st`; reachability is pushed along the root sequence, Proofs/MemoScanLemmas).

  1  `clean3m_outcome_from`: `matches(i)` from a state with `HRfrom i` (and no panic) returns the right
     `Outcome` (least start, sound end); a failure keeps `HRfrom i`
  2  `clean3m_success_keeps`: for a pattern that does not match the empty string, a success reporting
     `[j, n)` has `j < n` and leaves `HRfrom n` — the continuation position of all three scan loops
     (`replaceLoop`: `newpos = e`; `tokenNext`: `end0`; `analyzeNext`: `skip = false`, `prevEnd = e`).
     The entries the successful attempt leaves undead are at `p ≤ n`, and one at `p = n` is reachable from a
     start `≥ n` only if the whole pattern has the zero-length match `[n, n)` (`MemoScan.path_to_from`).
  3  `clean3m_scan_spans`: the span list the scan loops see (`C04.spansOf` of the concrete matcher, memo
     threaded, from a fresh matcher) satisfies the STATE-FREE specification `SpansSpec`: each span starts at
     the least start `≥` the previous end that has a match, is non-empty, is a member of the language, and
     the list ends only when no start is left.
     NOT DONE: that the END of each span is the one a fresh matcher reports (the priority-first end) — the
     memo fragment has no enumeration spec for ends (Props/Clean3Memo is `is_match` only); `SpansSpec` fixes
     the starts and asks the ends to be members of the language.
  4  `clean3m_goodFind` (`C04.GoodFind`, over the whole scan, any state), `clean3m_tokenize_spec`,
     `api_clean3m_scan_spans`, `api_clean3m_tokenize_spec` (from `Regex.new`), example `(?:ab|c)*d`.
-/
import RxModel.Proofs.MemoScanLemmas
import RxModel.Props.Clean3Api
namespace Rx.Clean3MemoScan
open Rx Rx.SearchComplete Rx.Memo Rx.MemoScan
open Rx.C08 (noEmptyAtoms)

/-- the scan invariant: every memo entry reachable from a start `≥ pos` is dead -/
abbrev HRfrom (ctx : Ctx) (l : List Op) (pos : Nat) (st : St) : Prop := HRG ctx (From pos) l st

theorem HRfrom_fresh (ctx : Ctx) (l : List Op) (pos : Nat) : HRfrom ctx l pos {} := HRG_of_nil ctx l _ {} rfl

/-- the absolute invariant of Props/Clean3Memo implies the relative one -/
theorem HRfrom_mono (ctx : Ctx) (l : List Op) (i j : Nat) (hij : i ≤ j) (st : St) (h : HRfrom ctx l i st) :
    HRfrom ctx l j st :=
  HRX_mono ctx (fun _ _ h => h) l _ _ (fun p (hp : j ≤ p) => (Nat.le_trans hij hp : i ≤ p)) st h

/-- a program of the memo fragment, with an input -/
structure Prog3m (env : Env) (pat : List Nat) (op : Op) (mp : Nat) (fl : CFlags) (lower : Nat → Nat)
    (input : List Nat) (l : List Op) : Prop where
  inp : InputOKFor env fl lower input
  hop : (mkProgram pat op mp fl false).op = .seq l
  clean : cleanProg3m env fl.caseBlind fl.multiLine (.seq l) = true
  wf : wfOp op = true
  ne : noEmptyAtoms op = true
  can : clsCanonB (.seq l) = true
  cp : C02.capsPos op = true
  len : input.length < usizeMax

section
variable {env : Env} {pat : List Nat} {op : Op} {mp : Nat} {fl : CFlags} {lower : Nat → Nat}
  {input : List Nat} {l : List Op}

/-- 1. `matches(i)` under the relative invariant -/
theorem clean3m_outcome_from (P : Prog3m env pat op mp fl lower input l)
    (i : Nat) (hi : i ≤ input.length) (st : St) (hp : st.panic = none)
    (hm : HRfrom ((mkProgram pat op mp fl false).ctx lower input) l i st) :
    OutcomeG ((mkProgram pat op mp fl false).ctx lower input) l i
      (matchesFrom ((mkProgram pat op mp fl false).ctx lower input) (mkProgram pat op mp fl false) i st) := by
  obtain ⟨T, F, hP⟩ := program_facts env pat op mp fl lower input P.inp l P.hop P.clean P.wf P.ne P.can P.len
  exact matchesFrom_outcomeG P.hop T F P.len hP i hi st ⟨hp, hm⟩

theorem prog_wf (P : Prog3m env pat op mp fl lower input l) :
    wfOp (.seq l) = true ∧ C02.capsPos (.seq l) = true := by
  obtain ⟨hnum, _⟩ := WF.mkProgram_op pat op mp fl false
  exact ⟨by rw [← P.hop, hnum, WF.wfOp_numberReps]; exact P.wf,
    by rw [← P.hop, hnum, WF.capsPos_numberReps]; exact P.cp⟩

/-- a pattern that does not match the empty string has no zero-length match anywhere -/
theorem no_zero (P : Prog3m env pat op mp fl lower input l)
    (hnull : (mkProgram pat op mp fl false).isMatch lower [] = .ok false) (k : Nat) :
    ¬ OpR ((mkProgram pat op mp fl false).ctx lower input) (.seq l) k k := by
  intro hk
  rw [← P.hop] at hk
  have hz := C16.OpR_zero_anywhere _ _ k hk
  have hm := (Clean3Memo.clean3m_isMatch_iff env pat op mp fl lower [] (Clean2Api.inputOKFor_nil P.inp) l P.hop
    P.clean P.wf P.ne P.can (by decide)).2 ⟨0, 0, Nat.le_refl _, hz⟩
  rw [hnull] at hm
  cases hm

/-- 2. a success of a non-nullable pattern reports a non-empty leftmost span and leaves the invariant for
    the continuation position -/
theorem clean3m_success_keeps (P : Prog3m env pat op mp fl lower input l)
    (hnull : (mkProgram pat op mp fl false).isMatch lower [] = .ok false)
    (i : Nat) (hi : i ≤ input.length) (st st' : St) (hp : st.panic = none)
    (hm : HRfrom ((mkProgram pat op mp fl false).ctx lower input) l i st)
    (h : matchesFrom ((mkProgram pat op mp fl false).ctx lower input) (mkProgram pat op mp fl false) i st
      = (true, st')) :
    ∃ j n, getParenStart st' 0 = some j ∧ getParenEnd st' 0 = some n ∧ i ≤ j ∧ j < n ∧ n ≤ input.length ∧
      OpR ((mkProgram pat op mp fl false).ctx lower input) (.seq l) j n ∧
      (∀ k q, i ≤ k → k < j → ¬ OpR ((mkProgram pat op mp fl false).ctx lower input) (.seq l) k q) ∧
      st'.panic = none ∧ HRfrom ((mkProgram pat op mp fl false).ctx lower input) l n st' := by
  have ho := clean3m_outcome_from P i hi st hp hm
  rw [h] at ho
  obtain ⟨hwT, hcT⟩ := prog_wf P
  obtain ⟨j, n, hs, he, hij, hjn, hnl, hopr, hleft⟩ := ho.1.leftmost hwT hcT rfl
  obtain ⟨n', he', hpath⟩ := ho.2.2 rfl
  have hnn : n' = n := by
    have : some n' = some n := by rw [← he', ← he]
    exact Option.some.inj this
  subst hnn
  have hnz := no_zero P hnull
  refine ⟨j, n', hs, he, hij, ?_, hnl, hopr, hleft, ho.1.1, ?_⟩
  · rcases Nat.lt_or_ge j n' with hlt | hge
    · exact hlt
    · exfalso
      have : j = n' := by omega
      subst this
      exact hnz j hopr
  · refine path_to_from _ n' hnl st' l (From i) (From n') True (fun q (hq : n' ≤ q) => ?_) (fun _ => ?_) hpath
    · exact ⟨(by omega : i ≤ q), hq, fun _ => trivial⟩
    · have := hnz n'
      simpa only [OpR] using this

/-! ### 3. the whole scan -/

/-- the state-free specification of the span list from `pos` -/
inductive SpansSpec (ctx : Ctx) (o : Op) : Nat → List (Nat × Nat) → Prop
  | done (pos : Nat) : (∀ j q, pos ≤ j → j ≤ ctx.len → ¬ OpR ctx o j q) → SpansSpec ctx o pos []
  | step (pos a b : Nat) (rest : List (Nat × Nat)) : pos ≤ a → a < b → b ≤ ctx.len → OpR ctx o a b →
      (∀ k q, pos ≤ k → k < a → ¬ OpR ctx o k q) → SpansSpec ctx o b rest → SpansSpec ctx o pos ((a, b) :: rest)

/-- the specification determines the starts, and the number of spans -/
theorem SpansSpec.starts_unique {ctx : Ctx} {o : Op} :
    ∀ {pos : Nat} {s1 s2 : List (Nat × Nat)}, SpansSpec ctx o pos s1 → SpansSpec ctx o pos s2 →
    (∀ x ∈ s1, ∀ y ∈ s2, x.1 = y.1 → x.2 = y.2) → s1 = s2 := by
  intro pos s1 s2 h1
  induction h1 generalizing s2 with
  | done pos hno =>
    intro h2 _
    cases h2 with
    | done _ _ => rfl
    | step _ a b rest h1 h2 h3 h4 _ _ => exact absurd h4 (hno a b h1 (by omega))
  | step pos a b rest h1 h2 h3 h4 h5 _ ih =>
    intro h2' hends
    cases h2' with
    | done _ hno => exact absurd h4 (hno a b h1 (by omega))
    | step _ a' b' rest' g1 g2 g3 g4 g5 g6 =>
      have ha : a = a' := by
        rcases Nat.lt_trichotomy a a' with hlt | heq | hgt
        · exact absurd h4 (g5 a b h1 hlt)
        · exact heq
        · exact absurd g4 (h5 a' b' g1 hgt)
      subst ha
      have hb : b = b' := by
        have := hends (a, b) List.mem_cons_self (a, b') List.mem_cons_self rfl
        exact this
      subst hb
      rw [ih g6 (fun x hx y hy => hends x (List.mem_cons_of_mem _ hx) y (List.mem_cons_of_mem _ hy))]

theorem clean3m_spans_from (P : Prog3m env pat op mp fl lower input l)
    (hnull : (mkProgram pat op mp fl false).isMatch lower [] = .ok false) :
    ∀ (fuel pos : Nat) (st : St), pos ≤ input.length → input.length - pos < fuel → st.panic = none →
    HRfrom ((mkProgram pat op mp fl false).ctx lower input) l pos st →
    SpansSpec ((mkProgram pat op mp fl false).ctx lower input) (.seq l) pos
      (C04.spanPairs (C04.spansOf ((mkProgram pat op mp fl false).matcher lower input) input.length fuel pos st)) := by
  intro fuel
  induction fuel with
  | zero => intro pos st _ h; omega
  | succ f ih =>
    intro pos st hpos hfuel hp hm
    have hnz := no_zero P hnull
    unfold C04.spansOf
    by_cases hlt : pos < input.length
    · rw [if_pos hlt]
      have hf : ((mkProgram pat op mp fl false).matcher lower input).find st pos =
          matchesFrom ((mkProgram pat op mp fl false).ctx lower input) (mkProgram pat op mp fl false) pos st := rfl
      rw [hf]
      cases hfind : matchesFrom ((mkProgram pat op mp fl false).ctx lower input) (mkProgram pat op mp fl false) pos st with
      | mk b st' =>
        cases b with
        | false =>
          have ho := clean3m_outcome_from P pos hpos st hp hm
          rw [hfind] at ho
          simp only
          refine .done pos (fun j q hj hjl hq => ?_)
          rcases ho.1.2 with ⟨ht, _⟩ | ⟨_, hno⟩
          · cases ht
          · exact hno j hj hjl ⟨q, hq⟩
        | true =>
          obtain ⟨j, n, hs, he, hij, hjn, hnl, hopr, hleft, hp', hm'⟩ :=
            clean3m_success_keeps P hnull pos hpos st st' hp hm hfind
          have h1 : ((mkProgram pat op mp fl false).matcher lower input).start0 st' = some j := hs
          have h2 : ((mkProgram pat op mp fl false).matcher lower input).end0 st' = some n := he
          simp only [h1, h2, C04.spanPairs, List.map_cons]
          exact .step pos j n _ hij hjn hnl hopr hleft (ih n st' hnl (by omega) hp' hm')
    · rw [if_neg hlt]
      refine .done pos (fun j q hj hjl hq => ?_)
      have hb := C01.OpR_bounds _ (.seq l) j q hjl hq
      have hjl' : j ≤ input.length := hjl
      have hql : q ≤ input.length := hb.2
      have : j = q := by omega
      subst this
      exact hnz j hq

/-- 3. THE SCAN: with the memo threaded through every `matches` call, from a fresh matcher, the scan loops see
    a span list satisfying the state-free specification -/
theorem clean3m_scan_spans (P : Prog3m env pat op mp fl lower input l)
    (hnull : (mkProgram pat op mp fl false).isMatch lower [] = .ok false) :
    SpansSpec ((mkProgram pat op mp fl false).ctx lower input) (.seq l) 0
      (C04.spanPairs (C04.spansOf ((mkProgram pat op mp fl false).matcher lower input) input.length
        (input.length + 2) 0 {})) :=
  clean3m_spans_from P hnull _ 0 {} (Nat.zero_le _) (by omega) rfl (HRfrom_fresh _ l 0)

/-! ### 4. `GoodFind`, tokenize -/

/-- `C04.GoodFind` for the concrete matcher, from ANY state: soundness does not depend on the memo -/
theorem clean3m_goodFind (P : Prog3m env pat op mp fl lower input l)
    (hnull : (mkProgram pat op mp fl false).isMatch lower [] = .ok false) :
    C04.GoodFind ((mkProgram pat op mp fl false).matcher lower input) input.length (fun _ => True) := by
  constructor
  intro st pos st' m _ hpos hfind _
  refine ⟨trivial, fun hm => ?_⟩
  subst hm
  obtain ⟨hwT, hcT⟩ := prog_wf P
  obtain ⟨a, b, hs, he, h1, h2, h3, hopr⟩ := C02.matchesFrom_span (mkProgram pat op mp fl false) lower input
    (by rw [P.hop]; exact hwT) (by rw [P.hop]; exact hcT) pos hpos st st' hfind
  refine ⟨a, b, hs, he, h1, ?_, h3⟩
  rcases Nat.lt_or_ge a b with hlt | hge
  · exact hlt
  · exfalso
    have : a = b := by omega
    subst this
    rw [P.hop] at hopr
    exact no_zero P hnull a hopr

/-- the tokens are the pieces between the spans of a list satisfying the state-free specification -/
theorem clean3m_tokenize_spec (P : Prog3m env pat op mp fl lower input l)
    (hnull : (mkProgram pat op mp fl false).isMatch lower [] = .ok false)
    (limit : Nat) (hl : input.length + 1 ≤ limit) (toks : List (List Nat)) (more : Bool)
    (h : tokenLoop ((mkProgram pat op mp fl false).matcher lower input) input limit (some 0) {} [] = .ok (toks, more)) :
    ∃ spans, SpansSpec ((mkProgram pat op mp fl false).ctx lower input) (.seq l) 0 spans ∧
      toks = Spec.pieces input 0 spans ∧ more = false := by
  obtain ⟨h1, h2⟩ := C04.tokenize_spec _ _ input (clean3m_goodFind P hnull) {} trivial limit hl toks more h
  exact ⟨_, clean3m_scan_spans P hnull, h1, h2⟩

end

/-! ### from `Regex::new` -/

theorem new_prog3m (env : Env) (p fs : List Nat) (xsd : Bool) (fl : Flags) (r : Regex)
    (hf : parseFlags fs xsd = some fl) (h : Regex.new env p fs xsd true = .ok r) (hns : Api.NoSat env fl p)
    (hclean : Memo.cleanProg3m env fl.caseBlind fl.multiLine r.prog.op = true) (hcan : clsCanonB r.prog.op = true)
    (hnb : r.prog.hasBackrefs = false) (hlit : fl.literal = true → p ≠ [])
    (input : List Nat) (hI : InputOKFor env fl.core env.lower input) (hlen : input.length < usizeMax) :
    ∃ pat' op' mp l, r.prog = mkProgram pat' op' mp fl.core false ∧ r.prog.op = .seq l ∧
      Prog3m env pat' op' mp fl.core env.lower input l := by
  obtain ⟨pat', op', mp, heq, hw, hne, hcp⟩ := Clean3Api.new_prog env p fs xsd fl r hf h hns hnb hlit
  obtain ⟨l, hl⟩ : ∃ l, r.prog.op = .seq l := by
    cases hop : r.prog.op with
    | seq l => exact ⟨l, rfl⟩
    | _ => rw [hop] at hclean; simp [Memo.cleanProg3m] at hclean
  rw [hl] at hclean hcan
  refine ⟨pat', op', mp, l, heq, hl, ⟨hI, by rw [← heq]; exact hl, hclean, hw, hne, hcan, hcp, hlen⟩⟩

/-- the scan of a regex of the memo fragment that passes the nullability gate -/
theorem api_clean3m_scan_spans (env : Env) (p fs : List Nat) (xsd : Bool) (fl : Flags) (r : Regex)
    (hf : parseFlags fs xsd = some fl) (h : Regex.new env p fs xsd true = .ok r) (hns : Api.NoSat env fl p)
    (hclean : Memo.cleanProg3m env fl.caseBlind fl.multiLine r.prog.op = true) (hcan : clsCanonB r.prog.op = true)
    (hnb : r.prog.hasBackrefs = false) (hlit : fl.literal = true → p ≠ []) (hnull : r.nullable = false)
    (input : List Nat) (hI : InputOKFor env fl.core env.lower input) (hlen : input.length < usizeMax) :
    SpansSpec (r.prog.ctx env.lower input) r.prog.op 0
      (C04.spanPairs (C04.spansOf (r.prog.matcher env.lower input) input.length (input.length + 2) 0 {})) ∧
    C04.GoodFind (r.prog.matcher env.lower input) input.length (fun _ => True) := by
  obtain ⟨pat', op', mp, l, heq, hl, P⟩ :=
    new_prog3m env p fs xsd fl r hf h hns hclean hcan hnb hlit input hI hlen
  have hn := C16.new_nullable env p fs xsd true r h
  rw [hnull, heq] at hn
  rw [hl]
  rw [heq]
  exact ⟨clean3m_scan_spans P hn, clean3m_goodFind P hn⟩

theorem api_clean3m_tokenize_spec (env : Env) (p fs : List Nat) (xsd : Bool) (fl : Flags) (r : Regex)
    (hf : parseFlags fs xsd = some fl) (h : Regex.new env p fs xsd true = .ok r) (hns : Api.NoSat env fl p)
    (hclean : Memo.cleanProg3m env fl.caseBlind fl.multiLine r.prog.op = true) (hcan : clsCanonB r.prog.op = true)
    (hnb : r.prog.hasBackrefs = false) (hlit : fl.literal = true → p ≠ []) (hnull : r.nullable = false)
    (input : List Nat) (hI : InputOKFor env fl.core env.lower input) (hlen : input.length < usizeMax)
    (limit : Nat) (hl : input.length + 1 ≤ limit) (toks : List (List Nat)) (more : Bool)
    (ht : tokenLoop (r.prog.matcher env.lower input) input limit (some 0) {} [] = .ok (toks, more)) :
    ∃ spans, SpansSpec (r.prog.ctx env.lower input) r.prog.op 0 spans ∧
      toks = Spec.pieces input 0 spans ∧ more = false := by
  obtain ⟨h1, h2⟩ := api_clean3m_scan_spans env p fs xsd fl r hf h hns hclean hcan hnb hlit hnull input hI hlen
  obtain ⟨t1, t2⟩ := C04.tokenize_spec _ _ input h2 {} trivial limit hl toks more ht
  exact ⟨_, h1, t1, t2⟩

/-! ### example: `(?:ab|c)*d` through `Regex.new Env.std` -/
section example_
open Rx.Clean3Api Rx.Clean2Api

theorem ex0_gate :
    (match Regex.new Env.std exPat0 [] false true with
     | .ok r => !r.nullable
     | _ => false) = true := by decide +kernel

/-- every scan of `(?:ab|c)*d` over scalar values sees a span list satisfying the specification -/
theorem ex0_scan (input : List Nat) (hsv : ScalarInput input) (hlen : input.length < usizeMax)
    (r : Regex) (h : Regex.new Env.std exPat0 [] false true = .ok r) :
    SpansSpec (r.prog.ctx Env.std.lower input) r.prog.op 0
      (C04.spanPairs (C04.spansOf (r.prog.matcher Env.std.lower input) input.length (input.length + 2) 0 {})) := by
  have hk := Clean3Api.ex_new.2
  have hg := ex0_gate
  rw [h] at hk hg
  simp only [Bool.and_eq_true, Bool.not_eq_true'] at hk hg
  obtain ⟨⟨⟨k1, k2⟩, k3⟩, _⟩ := hk
  exact (api_clean3m_scan_spans Env.std exPat0 [] false {} r rfl h ex_noSat0 k1 k2 k3
    (fun hl => by cases hl) hg input (inputOK_std_cs rfl hsv) hlen).1

/-- computed: "abdcdd" gives the spans (0,3), (3,5), (5,6), with the memo threaded -/
theorem ex0_computed :
    (match Regex.new Env.std exPat0 [] false true with
     | .ok r => C04.spanPairs (C04.spansOf (r.prog.matcher Env.std.lower [97, 98, 100, 99, 100, 100]) 6 8 0 {})
         == [(0, 3), (3, 5), (5, 6)]
     | _ => false) = true := by decide +kernel

end example_

end Rx.Clean3MemoScan
