/-
  Props/Clean4Opt — C08 across the optimiser (TWO compilations of one pattern) for patterns with general
  reluctant / greedy variable repeats: the fragment of Spec/Enum4.

  THE PREDICATE on the UN-optimised parser tree: `Src4 env fl t` =
      `src4 env fl t`  (Proofs/Clean4OptLemmas: the old fragment `cleanOp` + `.rep id c mn mx g` with
                        `(!g ∨ 1 ≤ mn)`, body `c` ∈ `cleanOp`, `c` not a single literal / class, and
                        `nonNull`, `detB` of BOTH `c` and `optimize env fl c`)
      + `wfOp t` + the parser-shape facts `seqGe2 t`, `endTop t` of Props/Clean2Opt.

  What `optimize` does to the new node (read off Model/Optimize): `.rep id c mn mx g ↦ .rep id c' mn' mx g`
  with `c' = optimize c` and `mn' = 1` if `mn = 0` and `matches_empty_string c' = ANYWHERE`, else `mn' = mn`.
  On the fragment the rewrite of `min` never fires (`nonNull_mzs`: a non-nullable well-formed body never
  answers ANYWHERE), so `optimize (.rep id c mn mx g) = .rep id (optimize c) mn mx g` (`optimize_rep`).
  Inside a sequence `optimizeSeq` would turn `.rep id x mn mx g` with `x` ONE literal / class into `.unamb`;
  the parser never builds that (`gfixed` / `rfixed` instead), `src4` excludes it, and `optimize` does not
  create it (`isAtomOrClass_optimize`).

  PROVED (tree level, everything by construction from the predicate):
    * `optimize_clean4`      `Src4 env fl t → cleanProg4 … (optimize env fl t)`
    * `unopt_clean4`         the un-optimised tree is a program of the fragment too
    * `optimize_lang4`       the language `OpR` is preserved (C08.optimize_preserves)
    * `optimize_first4`      first set and `matches_empty_string` are unchanged (no EndProgram)
    * `clean4_opt_eq_unopt_tree_partial`  for both trees the engine test `matchAt` from every position `i`
                             answers the same Boolean, from every pair of states; hence the same least START.

    * `detB_created`         kernel-checked: `optimize` can CREATE `detB` of a repeat body (`(?:a*b)+?`: the
                             un-optimised tree is outside `cleanProg4`, the optimised one inside) — hence the
                             two-sided `detB` / `nonNull` conjuncts of `src4` (preservation `detB c → detB (optimize c)`
                             is plausible but not proved here)

  NOT PROVED HERE (time): the program-level statement through `mkProgram` / `mkBareProgram` and the END.
  What is missing is stated at the end of the file.
-/
import RxModel.Proofs.Clean4OptLemmas
namespace Rx.Clean4Opt
open Rx Rx.Clean2Opt Rx.Clean4OptL
open Rx.C08 (noEmptyAtoms)

/-- the hypotheses on the un-optimised parser tree -/
structure Src4 (env : Env) (fl : CFlags) (t : Op) : Prop where
  src : src4 env fl t = true
  wf : wfOp t = true
  ge2 : seqGe2 t = true
  endTop : endTop t = true

/-- on the fragment `optimize` maps a general repeat to the general repeat of the optimised body,
    with `min` unchanged -/
theorem optimize_rep (env : Env) (fl : CFlags) (id : Nat) (c : Op) (mn mx : Nat) (g : Bool)
    (hs : src4 env fl (.rep id c mn mx g) = true) (hwf : wfOp (.rep id c mn mx g) = true)
    (h2 : seqGe2 (.rep id c mn mx g) = true) (he : noEnd (.rep id c mn mx g) = true) :
    optimize env fl (.rep id c mn mx g) = .rep id (optimize env fl c) mn mx g :=
  (optOK4_rep env fl id c mn mx g hs hwf h2 he).1

theorem cleanProg4_of_notSeq (env : Env) (cb ml : Bool) (o : Op) (h : ∀ ops, o ≠ .seq ops)
    (hc : cleanOp4 env cb ml o = true) : cleanProg4 env cb ml o = true := by
  cases o with
  | seq ops => exact absurd rfl (h ops)
  | _ => exact hc

theorem optimize_notSeq (env : Env) (fl : CFlags) (t : Op) (hwf : wfOp t = true) (h : ∀ ops, t ≠ .seq ops) :
    ∀ ops, optimize env fl t ≠ .seq ops := by
  intro ops
  cases t with
  | seq l => exact absurd rfl (h l)
  | gfixed c mn mx len => rw [Clean2End.optimize_gfixed_wf env fl c mn mx len hwf]; intro hh; cases hh
  | _ => simp [optimize]

/-- 1. `optimize` maps a parser tree of the fragment to a program of `cleanProg4` -/
theorem optimize_clean4 (env : Env) (fl : CFlags) (t : Op) (h : Src4 env fl t) :
    cleanProg4 env fl.caseBlind fl.multiLine (optimize env fl t) = true := by
  obtain ⟨hc, hwf, h2, he⟩ := h
  by_cases hseq : ∃ ops, t = .seq ops
  · obtain ⟨ops, rfl⟩ := hseq
    simp only [src4] at hc
    simp only [wfOp, Bool.and_eq_true] at hwf
    simp only [seqGe2, Bool.and_eq_true, decide_eq_true_eq] at h2
    simp only [Clean2Opt.endTop] at he
    have ih := optOK4_seq env fl ops hc hwf.2 h2.2 he true (fun h => by cases h)
    obtain ⟨o, o2, os, rfl⟩ : ∃ o o2 os, ops = o :: o2 :: os := by
      cases ops with
      | nil => simp at h2
      | cons o t =>
        cases t with
        | nil => simp at h2
        | cons o2 os => exact ⟨o, o2, os, rfl⟩
    simp only [optimize, cleanProg4]
    exact ih.clean
  · have hne : noEnd t = true := by
      cases t with
      | seq ops => exact absurd ⟨ops, rfl⟩ hseq
      | _ => exact he
    have hcl := (optOK4 env fl t hc hwf h2 hne).clean
    exact cleanProg4_of_notSeq env _ _ _ (optimize_notSeq env fl t hwf (fun ops h => hseq ⟨ops, h⟩)) hcl

/-- the UN-optimised tree is a program of the fragment too -/
theorem unopt_clean4 (env : Env) (fl : CFlags) (t : Op) (h : Src4 env fl t) :
    cleanProg4 env fl.caseBlind fl.multiLine t = true := by
  cases t with
  | seq ops =>
    have := h.src
    simp only [src4] at this
    simp only [cleanProg4]
    exact src4_cleanSeq env fl ops this true
  | _ => exact src4_clean env fl _ h.src false []

/-- the language is preserved -/
theorem optimize_lang4 (env : Env) (fl : CFlags) (ctx : Ctx) (t : Op) (h : Src4 env fl t) (p q : Nat)
    (hp : p ≤ ctx.len) : OpR ctx (optimize env fl t) p q ↔ OpR ctx t p q :=
  C08.optimize_preserves env fl ctx t h.wf p q hp

/-- first set and `matches_empty_string` are unchanged -/
theorem optimize_first4 (env : Env) (fl : CFlags) (t : Op) (h : Src4 env fl t) (he : noEnd t = true) :
    initialClass env fl.caseBlind (optimize env fl t) = initialClass env fl.caseBlind t ∧
    mzs (optimize env fl t) = mzs t :=
  ⟨(optOK4 env fl t h.src h.wf h.ge2 he).ic_eq, (optOK4 env fl t h.src h.wf h.ge2 he).mzs_eq⟩

/-! ### 2 (partial). the two trees under the search loop without shortcuts: Boolean and START -/

/-- the search outcome of a tree of `cleanProg4` under the plain search loop -/
theorem naive_outcome4 (env : Env) (ctx : Ctx) (hI : InputOK env ctx) (hbr : ctx.hasBackrefs = false) (o : Op)
    (hc : cleanProg4 env ctx.caseBlind ctx.multiLine o = true) (hwf : wfOp o = true)
    (hne : noEmptyAtoms o = true) (hcan : clsCanonB o = true) (i : Nat) (st : St) (hst : st.panic = none) :
    SearchComplete.Outcome ctx o i (matchesNaive ctx o i st) :=
  SearchComplete.matchesNaive_outcome (Clean4L.completeAt_clean4 env ctx hI o hc hwf hne hcan)
    (SearchComplete.quiet_of_wf_all ctx hbr o (Clean4L.clean4_noBackref' env _ _ o hc) hwf
      (SearchComplete.clean4_unambLeaf' env _ _ o hc hne)) i st hst

/-- `clean4_opt_eq_unopt`, PARTIAL: the optimised tree and the un-optimised tree of one pattern, searched by
    the plain loop `matchesNaive` from every position and every pair of panic-free states, report the same
    Boolean and the same START of group 0.
    MISSING for the full statement: (a) the END — `optimize` preserves the head of `enum4` (the analogue of
    `Clean2End.optimize_enum_head`, whose `.rep` case is `greedyIter_congr` / `reluctIter_congr` over
    `Clean2End.optimize_enum_eq` for the body); (b) the passage to `mkProgram` / `mkBareProgram`, which needs
    `cleanProg4`, `clsCanonB` and `enum4` to be invariant under `numberReps` (the optimised program carries
    the numbered tree); `Clean4.clean4_opt_eq_noopt` then adds the search shortcuts. -/
theorem clean4_opt_eq_unopt_tree_partial (env : Env) (fl : CFlags) (ctx : Ctx) (hI : InputOK env ctx)
    (hcb : ctx.caseBlind = fl.caseBlind) (hml : ctx.multiLine = fl.multiLine) (hbr : ctx.hasBackrefs = false)
    (t : Op) (h : Src4 env fl t) (hne : noEmptyAtoms t = true) (hcan : clsCanonB t = true)
    (hcp : C02.capsPos t = true)
    (i : Nat) (st1 st2 : St) (h1 : st1.panic = none) (h2 : st2.panic = none) :
    (matchesNaive ctx (optimize env fl t) i st1).1 = (matchesNaive ctx t i st2).1 ∧
    ((matchesNaive ctx (optimize env fl t) i st1).1 = true →
      getParenStart (matchesNaive ctx (optimize env fl t) i st1).2 0 =
        getParenStart (matchesNaive ctx t i st2).2 0) := by
  have c1 : cleanProg4 env ctx.caseBlind ctx.multiLine (optimize env fl t) = true := by
    rw [hcb, hml]; exact optimize_clean4 env fl t h
  have c0 : cleanProg4 env ctx.caseBlind ctx.multiLine t = true := by
    rw [hcb, hml]; exact unopt_clean4 env fl t h
  have w1 := WF.optimize_wf env fl t h.wf
  have n1 := SearchComplete.optimize_NE env fl t hne
  have k1 := optimize_clsCanonB env fl t hcan
  have p1 := WF.optimize_caps env fl t hcp
  have o1 := naive_outcome4 env ctx hI hbr _ c1 w1 n1 k1 i st1 h1
  have o0 := naive_outcome4 env ctx hI hbr _ c0 h.wf hne hcan i st2 h2
  have hlang : ∀ p q, p ≤ ctx.len → (OpR ctx (optimize env fl t) p q ↔ OpR ctx t p q) :=
    fun p q hp => optimize_lang4 env fl ctx t h p q hp
  generalize matchesNaive ctx (optimize env fl t) i st1 = r1 at o1 ⊢
  generalize matchesNaive ctx t i st2 = r2 at o0 ⊢
  have hbool : r1.1 = r2.1 := by
    rw [Bool.eq_iff_iff, o1.iff, o0.iff]
    constructor
    · rintro ⟨j, q, a, b, c⟩; exact ⟨j, q, a, b, (hlang j q b).1 c⟩
    · rintro ⟨j, q, a, b, c⟩; exact ⟨j, q, a, b, (hlang j q b).2 c⟩
  refine ⟨hbool, fun ht => ?_⟩
  obtain ⟨j1, n1', hs1, _, _, a1, b1, c1', hm1, hl1⟩ := o1.span_clean4 hI c1 w1 n1 k1 p1 ht
  obtain ⟨j2, n2', hs2, _, _, a2, b2, c2', hm2, hl2⟩ := o0.span_clean4 hI c0 h.wf hne hcan hcp (hbool ▸ ht)
  have hj : j1 = j2 := by
    rcases Nat.lt_trichotomy j1 j2 with hlt | heq | hgt
    · exact absurd ((hlang j1 n1' (by omega)).1 hm1) (hl2 j1 n1' a1 hlt)
    · exact heq
    · exact absurd ((hlang j2 n2' (by omega)).2 hm2) (hl1 j2 n2' a2 hgt)
  rw [hs1, hs2, hj]

/-! ### non-vacuity: `x*(?:ab|c)+?d` -/
section examples

def exEnv : Env :=
  { lower := id, closure := fun _ => [], category := fun _ => none, block := fun _ => none,
    digit := [], word := [], nameStart := [], nameChar := [] }

/-- `x*(?:ab|c)+?d` -/
def exPat : List Nat := [120, 42, 40, 63, 58, 97, 98, 124, 99, 41, 43, 63, 100]

/-- the parser's tree for `x*(?:ab|c)+?d` -/
def exTree : Op :=
  .seq [.gfixed (.atom [120]) 0 usizeMax 1, .rep 0 (.choice [.atom [97, 98], .atom [99]]) 1 usizeMax false,
        .atom [100], .endProgram]

/-- "zxxabcd" -/
def exInput : List Nat := [122, 120, 120, 97, 98, 99, 100]

def exCtx : Ctx :=
  { input := exInput, caseBlind := false, multiLine := false, hasBackrefs := false, maxParens := 1, lower := id }

/-- the hypotheses of the theorems hold of the tree, and of the un-optimised compilation of the pattern text -/
theorem ex_src : Src4 exEnv {} exTree := by
  refine ⟨?_, ?_, ?_, ?_⟩ <;> decide +kernel

theorem ex_compiled :
    (match compileCore exEnv {} exPat false with
     | .ok bare => src4 exEnv {} bare.op && wfOp bare.op && seqGe2 bare.op && Clean2Opt.endTop bare.op &&
         noEmptyAtoms bare.op && clsCanonB bare.op && C02.capsPos bare.op && !cleanOp bare.op
     | _ => false) = true ∧
    (match compileCore exEnv {} exPat true with
     | .ok pr => cleanProg4 exEnv false false pr.op && !cleanProg3 exEnv false false pr.op
     | _ => false) = true := by decide +kernel

/-- `optimize_rep` and `optimize_clean4` instantiated: `x*` becomes an UnambiguousRepeat (justified by the
    first set of the general repeat behind it), the general repeat stays, `min` unchanged -/
example : cleanProg4 exEnv false false (optimize exEnv {} exTree) = true ∧
    (match optimize exEnv {} exTree with
     | .seq [.unamb (.atom [120]) 0 _, .rep _ (.choice [.atom [97, 98], .atom [99]]) 1 _ false, .atom [100],
         .endProgram] => true
     | _ => false) = true :=
  ⟨optimize_clean4 exEnv {} exTree ex_src, by decide +kernel⟩

example : optimize exEnv {} (.rep 0 (.choice [.atom [97, 98], .atom [99]]) 0 2 false) =
    .rep 0 (optimize exEnv {} (.choice [.atom [97, 98], .atom [99]])) 0 2 false :=
  optimize_rep exEnv {} 0 _ 0 2 false (by decide +kernel) (by decide +kernel) (by decide +kernel)
    (by decide +kernel)

example : cleanProg4 exEnv false false exTree = true := unopt_clean4 exEnv {} exTree ex_src

/-- the partial two-trees theorem instantiated on "zxxabcd": both searches succeed, with start 1 -/
example : (matchesNaive exCtx (optimize exEnv {} exTree) 0 {}).1 = (matchesNaive exCtx exTree 0 {}).1 ∧
    (matchesNaive exCtx exTree 0 {}).1 = true ∧ getParenStart (matchesNaive exCtx exTree 0 {}).2 0 = some 1 ∧
    getParenStart (matchesNaive exCtx (optimize exEnv {} exTree) 0 {}).2 0 = some 1 := by
  have hI : InputOK exEnv exCtx := .of_caseSensitive rfl (fun _ _ h => by cases h) (by decide) (by decide)
  have h := clean4_opt_eq_unopt_tree_partial exEnv {} exCtx hI rfl rfl rfl exTree ex_src (by decide +kernel)
    (by decide +kernel) (by decide +kernel) 0 {} {} rfl rfl
  have e1 : (matchesNaive exCtx exTree 0 {}).1 = true := by decide +kernel
  have e2 : getParenStart (matchesNaive exCtx exTree 0 {}).2 0 = some 1 := by decide +kernel
  refine ⟨h.1, e1, e2, ?_⟩
  rw [h.2 (by rw [h.1]; exact e1)]
  exact e2

/-- why `src4` asks `detB` of the body BEFORE and AFTER `optimize`: the rewrite can CREATE end-determinism.
    Body `a*b` of `(?:a*b)+?`: un-optimised `a*` is a variable `gfixed` (`detB` fails — the un-optimised tree is
    outside `cleanProg4`), optimised it is an UnambiguousRepeat (`detB` holds — the optimised tree is inside).
    (`nonNull` is the same on both sides here.) -/
theorem detB_created :
    let c : Op := .seq [.gfixed (.atom [97]) 0 usizeMax 1, .atom [98]]
    detB exEnv false c = false ∧ detB exEnv false (optimize exEnv {} c) = true ∧
    nonNull c = true ∧ nonNull (optimize exEnv {} c) = true ∧
    cleanProg4 exEnv false false (.seq [.rep 0 c 1 usizeMax false, .atom [100], .endProgram]) = false ∧
    cleanProg4 exEnv false false
      (optimize exEnv {} (.seq [.rep 0 c 1 usizeMax false, .atom [100], .endProgram])) = true := by
  decide +kernel

end examples

end Rx.Clean4Opt
