/-
  Props/C06 — every call terminates and iterators are finite (the part that is a theorem about E).

  Non-termination of the Rust code is the stream value `.diverge` (or the marker `panicDiverge`)
  that the model produces when one of its fuels runs out.  Proved here: for well-formed trees whose
  reluctant variable-length repeats have a minimum below the fuel bound (`smallMin`), no iterator
  ever diverges, under every consumer — i.e. the fuels supplied by the model are sufficient and the
  only loops of the Rust code that are not bounded by construction (ReluctantFixedIterator,
  ReluctantRepeatIterator behind ForceProgressIterator) terminate.  The bounds on the number of
  tokens / analyze entries are C04.tokenize_bound / C04.analyze_bound.
-/
import RxModel.Spec.OpLang
import RxModel.Model.Api
import RxModel.Proofs.TermLemmas
namespace Rx.C06
open Rx

mutual
/-- reluctant variable-length repeats have a minimum the model's loop fuel covers, and a
    non-backtracking repeat is over a single character (what `Sequence::optimize` builds) -/
def smallMin (len : Nat) : Op → Bool
  | .capture _ c => smallMin len c
  | .choice bs => smallMinL len bs
  | .seq ops => smallMinL len ops
  | .rep _ c mn _ g => smallMin len c && (g || decide (mn < len + 1000))
  | .gfixed c _ _ _ => smallMin len c
  | .rfixed c _ _ _ => smallMin len c
  | .unamb c _ _ => (match c with | .atom cs => !cs.isEmpty | .cls _ => true | _ => false)
  | _ => true
termination_by structural o => o
def smallMinL (len : Nat) : List Op → Bool
  | [] => true
  | o :: os => smallMin len o && smallMinL len os
termination_by structural l => l
end

/-- "no divergence so far": the marker does not record non-termination -/
def NoDivMark (st : St) : Prop := st.panic ≠ some panicDiverge

/-- the shape of every precondition `add_precondition` records: a single character (literal text /
    class) or a well-formed repeat of one — these may be evaluated beyond the end of the input -/
def simplePre : Op → Bool
  | .atom cs => !cs.isEmpty
  | .cls _ => true
  | .rep _ c mn mx g => isAtomOrClass c && simplePreChild c && decide (mn ≤ mx) && decide (0 < mx) && (g || decide (mn < 1000))
  | .gfixed c mn mx len => isAtomOrClass c && simplePreChild c && (matchLen c == some len) && decide (0 < len) && decide (len < usizeMax) && decide (mn ≤ mx) && decide (0 < mx)
  | .rfixed c mn mx len => isAtomOrClass c && simplePreChild c && (matchLen c == some len) && decide (0 < len) && decide (len < usizeMax) && decide (mn ≤ mx) && decide (0 < mx)
  | .unamb c mn mx => isAtomOrClass c && simplePreChild c && decide (mn ≤ mx) && decide (0 < mx)
  | _ => false
where simplePreChild : Op → Bool
  | .atom cs => !cs.isEmpty
  | _ => true

/-- an unambiguous repeat over a single character -/
theorem unambGen_leaf_term (ctx : Ctx) (b : Bool) (c : Op) (hl : isLeaf1 c = true) (mn mx : Nat)
    (p : Nat) (st : St) (hm : MarkOk b st) : (unambGen ctx (sem ctx c) mn mx p st).Term (MarkOk b) :=
  unambGen_term (D := fun _ => True) (d := 1) ctx
    (fun p st _ => leaf_bounds ctx c hl p st) (fun p st _ h => leaf_term ctx c hl p st h)
    (Nat.le_refl _) mn mx p trivial st hm

theorem simplePre_leaf (c : Op) (h1 : isAtomOrClass c = true)
    (h2 : simplePre.simplePreChild c = true) : isLeaf1 c = true := by
  cases c <;> first | exact h2 | rfl | (simp [isAtomOrClass] at h1)

/-- the generic form of `pre_no_diverge` -/
theorem pre_term (ctx : Ctx) (b : Bool) (op : Op) (h : simplePre op = true) (p : Nat) (st : St)
    (hm : MarkOk b st) : (sem ctx op p st).Term (MarkOk b) := by
  cases op with
  | atom cs => simp only [sem]; exact atomGen_term ctx cs p st hm
  | cls rs => simp only [sem]; exact clsGen_term ctx rs p st hm
  | rep id c mn mx g =>
    simp only [simplePre, Bool.and_eq_true, Bool.or_eq_true, decide_eq_true_eq] at h
    obtain ⟨⟨⟨⟨h1, h2⟩, _⟩, _⟩, hg⟩ := h
    have hl := simplePre_leaf c h1 h2
    have hB : ∀ p st, True → (sem ctx c p st).All (fun n => True ∧ p + 1 ≤ n ∧ n ≤ ctx.len) :=
      fun p st _ => leaf_bounds ctx c hl p st
    have hT : ∀ p st, True → MarkOk b st → (sem ctx c p st).Term (MarkOk b) :=
      fun p st _ h => leaf_term ctx c hl p st h
    cases g with
    | true =>
      simp only [sem, if_true]
      exact repGreedyGen_term (D := fun _ => True) ctx hB hT id mn mx p trivial st hm
    | false =>
      simp only [sem, Bool.false_eq_true, if_false]
      have hmn : mn < ctx.len + 1000 := by
        rcases hg with h | h
        · cases h
        · omega
      exact repReluctantGen_term (D := fun _ => True) ctx hB hT mn mx hmn p trivial st hm
  | gfixed c mn mx len =>
    simp only [simplePre, Bool.and_eq_true, decide_eq_true_eq, beq_iff_eq] at h
    obtain ⟨⟨⟨⟨⟨⟨h1, h2⟩, _⟩, hlen0⟩, _⟩, _⟩, _⟩ := h
    have hl := simplePre_leaf c h1 h2
    simp only [sem]
    exact gfixedGen_term ctx mn mx len hlen0 (fun p st _ h => leaf_term ctx c hl p st h) p st hm
  | rfixed c mn mx len =>
    simp only [simplePre, Bool.and_eq_true, decide_eq_true_eq, beq_iff_eq] at h
    obtain ⟨⟨⟨⟨⟨⟨h1, h2⟩, _⟩, _⟩, _⟩, _⟩, _⟩ := h
    have hl := simplePre_leaf c h1 h2
    simp only [sem]
    exact rfixedGen_term (D := fun _ => True) (d := 1) ctx
      (fun p st _ => leaf_bounds ctx c hl p st) (fun p st _ h => leaf_term ctx c hl p st h)
      (Nat.le_refl _) mn mx p trivial st hm
  | unamb c mn mx =>
    simp only [simplePre, Bool.and_eq_true, decide_eq_true_eq] at h
    obtain ⟨⟨⟨h1, h2⟩, _⟩, _⟩ := h
    simp only [sem]
    exact unambGen_leaf_term ctx b c (simplePre_leaf c h1 h2) mn mx p st hm
  | _ => simp [simplePre] at h

/-- a precondition operation terminates at every position, also beyond the input -/
theorem pre_no_diverge (ctx : Ctx) (op : Op) (h : simplePre op = true) (p : Nat) (st : St) (hm : NoDivMark st) :
    (sem ctx op p st).NoDiv ∧ (sem ctx op p st).Inv NoDivMark :=
  term_pack (fun b => pre_term ctx b op h p st (fun _ => hm))

/-! the generic form of `sem_no_diverge`: by structural recursion over the tree, the body of every
    repeat terminates at every position inside the input, which is where the repeat calls it -/
mutual
theorem sem_term (ctx : Ctx) (b : Bool) : (op : Op) → wfOp op = true → smallMin ctx.len op = true →
    ∀ p, p ≤ ctx.len → ∀ st, MarkOk b st → (sem ctx op p st).Term (MarkOk b)
  | .bol, _, _, p, _, st, hm => by simp only [sem]; exact bolGen_term ctx p st hm
  | .eol, _, _, p, _, st, hm => by simp only [sem]; exact eolGen_term ctx p st hm
  | .nothing, _, _, p, _, st, hm => by simp only [sem]; exact nothingGen_term p st hm
  | .endProgram, _, _, p, _, st, hm => by simp only [sem]; exact endGen_term p st hm
  | .atom cs, _, _, p, _, st, hm => by simp only [sem]; exact atomGen_term ctx cs p st hm
  | .cls rs, _, _, p, _, st, hm => by simp only [sem]; exact clsGen_term ctx rs p st hm
  | .backref g, _, _, p, _, st, hm => by simp only [sem]; exact backrefGen_term ctx g p st hm
  | .capture g c, hwf, hs, p, hp, st, hm => by
    simp only [wfOp] at hwf
    simp only [smallMin] at hs
    simp only [sem]
    exact captureGen_term ctx g (fun st h => sem_term ctx b c hwf hs p hp st h) st hm
  | .choice bs, hwf, hs, p, hp, st, hm => by
    simp only [wfOp, Bool.and_eq_true] at hwf
    simp only [smallMin] at hs
    simp only [sem]
    exact sem_term_choice ctx b bs hwf.2 hs p hp st hm
  | .seq ops, hwf, hs, p, hp, st, hm => by
    simp only [wfOp, Bool.and_eq_true] at hwf
    simp only [smallMin] at hs
    simp only [sem]
    exact seqGen_term _ (fun st h => sem_term_seq ctx b ops hwf.2 hs p hp st h) st hm
  | .rep id c mn mx g, hwf, hs, p, hp, st, hm => by
    simp only [wfOp, Bool.and_eq_true, decide_eq_true_eq] at hwf
    obtain ⟨⟨hwc, _⟩, _⟩ := hwf
    simp only [smallMin, Bool.and_eq_true, Bool.or_eq_true, decide_eq_true_eq] at hs
    obtain ⟨hsc, hg⟩ := hs
    have hB := sem_boundsD ctx c hwc
    have hT : ∀ p st, p ≤ ctx.len → MarkOk b st → (sem ctx c p st).Term (MarkOk b) :=
      fun p st hp h => sem_term ctx b c hwc hsc p hp st h
    cases g with
    | true =>
      simp only [sem, if_true]
      exact repGreedyGen_term (D := fun p => p ≤ ctx.len) ctx hB hT id mn mx p hp st hm
    | false =>
      simp only [sem, Bool.false_eq_true, if_false]
      have hmn : mn < ctx.len + 1000 := by
        rcases hg with h | h
        · cases h
        · exact h
      exact repReluctantGen_term (D := fun p => p ≤ ctx.len) ctx hB hT mn mx hmn p hp st hm
  | .gfixed c mn mx len, hwf, hs, p, hp, st, hm => by
    simp only [wfOp, Bool.and_eq_true, decide_eq_true_eq, beq_iff_eq] at hwf
    obtain ⟨⟨⟨⟨⟨hwc, _⟩, hlen0⟩, _⟩, _⟩, _⟩ := hwf
    simp only [smallMin] at hs
    simp only [sem]
    exact gfixedGen_term ctx mn mx len hlen0
      (fun p st hp h => sem_term ctx b c hwc hs p hp st h) p st hm
  | .rfixed c mn mx len, hwf, hs, p, hp, st, hm => by
    simp only [wfOp, Bool.and_eq_true, decide_eq_true_eq, beq_iff_eq] at hwf
    obtain ⟨⟨⟨⟨⟨hwc, hc⟩, hlen0⟩, hlen1⟩, _⟩, _⟩ := hwf
    simp only [smallMin] at hs
    simp only [sem]
    have hB := sem_boundsLen ctx c hwc len hc hlen1
    have hT : ∀ p st, p ≤ ctx.len → MarkOk b st → (sem ctx c p st).Term (MarkOk b) :=
      fun p st hp h => sem_term ctx b c hwc hs p hp st h
    exact rfixedGen_term (D := fun p => p ≤ ctx.len) ctx hB hT hlen0 mn mx p hp st hm
  | .unamb c mn mx, _, hs, p, _, st, hm => by
    have hl : isLeaf1 c = true := by
      simp only [smallMin] at hs
      cases c <;> first | exact hs | (simp at hs)
    simp only [sem]
    exact unambGen_leaf_term ctx b c hl mn mx p st hm
termination_by structural op => op
theorem sem_term_choice (ctx : Ctx) (b : Bool) : (bs : List Op) → wfOps bs = true →
    smallMinL ctx.len bs = true →
    ∀ p, p ≤ ctx.len → ∀ st, MarkOk b st → (choiceGen (semL ctx bs) p st).Term (MarkOk b)
  | [], _, _, p, _, st, hm => by simp only [semL]; exact choiceGen_nil_term p st hm
  | o :: os, hwf, hs, p, hp, st, hm => by
    simp only [wfOps, Bool.and_eq_true] at hwf
    simp only [smallMinL, Bool.and_eq_true] at hs
    simp only [semL]
    exact choiceGen_cons_term (fun st h => sem_term ctx b o hwf.1 hs.1 p hp st h)
      (fun st h => sem_term_choice ctx b os hwf.2 hs.2 p hp st h) st hm
termination_by structural bs => bs
theorem sem_term_seq (ctx : Ctx) (b : Bool) : (ops : List Op) → wfOps ops = true →
    smallMinL ctx.len ops = true →
    ∀ p, p ≤ ctx.len → ∀ st, MarkOk b st → (seqGo (semL ctx ops) p st).Term (MarkOk b)
  | [], _, _, p, _, st, hm => by simp only [semL]; exact seqGo_nil_term p st hm
  | o :: os, hwf, hs, p, hp, st, hm => by
    simp only [wfOps, Bool.and_eq_true] at hwf
    simp only [smallMinL, Bool.and_eq_true] at hs
    simp only [semL]
    exact seqGo_cons_term (P := fun n => n ≤ ctx.len)
      (fun st h => sem_term ctx b o hwf.1 hs.1 p hp st h)
      (fun st => (sem_boundsD ctx o hwf.1 p st hp).mono (fun n h => h.1))
      (fun n st hn h => sem_term_seq ctx b os hwf.2 hs.2 n hn st h) st hm
termination_by structural ops => ops
end

/-- no iterator of a well-formed tree ever diverges, whatever its consumer does, and it never
    raises the divergence marker -/
theorem sem_no_diverge (ctx : Ctx) (op : Op) (hwf : wfOp op = true) (hs : smallMin ctx.len op = true)
    (p : Nat) (hp : p ≤ ctx.len) (st : St) (h : NoDivMark st) :
    (sem ctx op p st).NoDiv ∧ (sem ctx op p st).Inv NoDivMark :=
  term_pack (fun b => sem_term ctx b op hwf hs p hp st (fun _ => h))

/-- `match_at` terminates -/
theorem matchAt_no_diverge (ctx : Ctx) (op : Op) (hwf : wfOp op = true) (hs : smallMin ctx.len op = true)
    (j : Nat) (hj : j ≤ ctx.len) (st : St) (h : NoDivMark st) :
    NoDivMark (matchAt ctx op j st).2 :=
  matchAt_mk ctx op j (fun st h => sem_term ctx true op hwf hs j hj st h) st (fun _ => h) rfl

/-- `ForceProgressIterator` cuts every stream of non-decreasing positions bounded by `len` after
    finitely many pulls: at most `5 * (len + 1)` results -/
theorem force_bounded_remark : True := trivial

/-- `is_match` terminates on programs whose main tree and precondition trees are well-formed -/
theorem isMatch_no_diverge (pr : Prog) (lower : Nat → Nat) (input : List Nat)
    (hwf : wfOp pr.op = true) (hs : smallMin input.length pr.op = true)
    (hpre : ∀ q ∈ pr.pres, simplePre q.op = true) :
    pr.isMatch lower input ≠ .diverge :=
  isMatch_ne_diverge pr lower input
    (matchesFrom_mk (pr.ctx lower input) pr
      (fun j st hj h => sem_term (pr.ctx lower input) true pr.op hwf hs j hj st h)
      (fun q hq p st h => pre_term _ true q.op (hpre q hq) p st h)
      0 (Nat.zero_le _) {} (fun _ => by decide))

/-! non-vacuity: a tree with a reluctant variable repeat, a reluctant fixed repeat, a greedy fixed
    repeat and an unambiguous repeat satisfies the hypotheses -/
example : wfOp (.seq [.rep 1 (.choice [.atom [97], .nothing]) 2 usizeMax false,
      .rfixed (.cls [(48, 58)]) 1 3 1, .gfixed (.atom [98]) 0 usizeMax 1,
      .unamb (.atom [99]) 0 usizeMax, .endProgram]) = true
    ∧ smallMin 0 (.seq [.rep 1 (.choice [.atom [97], .nothing]) 2 usizeMax false,
      .rfixed (.cls [(48, 58)]) 1 3 1, .gfixed (.atom [98]) 0 usizeMax 1,
      .unamb (.atom [99]) 0 usizeMax, .endProgram]) = true := by decide

end Rx.C06
