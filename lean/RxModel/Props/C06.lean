/-
  Props/C06 — every call terminates and iterators are finite (the part that is a theorem about E).

  Non-termination of the Rust code is the stream value `.diverge` (or the marker `panicDiverge`)
  that the model produces when one of its fuels runs out.  Proved here: for well-formed trees whose
  reluctant variable-length repeats have a minimum below the fuel bound (`smallMin`), no iterator
  ever diverges, under every consumer — i.e. the fuels supplied by the model are sufficient and the
  only loops of the Rust code that are not bounded by construction (ReluctantFixedIterator,
  ReluctantRepeatIterator behind ForceProgressIterator) terminate.  The bounds on the number of
  tokens / analyze entries are C04.tokenize_bound / C04.analyze_bound.
-/
import RxModel.Spec.OpLang
import RxModel.Model.Api
namespace Rx.C06
open Rx

mutual
/-- reluctant variable-length repeats have a minimum the model's loop fuel covers, and a
    non-backtracking repeat is over a single character (what `Sequence::optimize` builds) -/
def smallMin (len : Nat) : Op → Bool
  | .capture _ c => smallMin len c
  | .choice bs => smallMinL len bs
  | .seq ops => smallMinL len ops
  | .rep _ c mn _ g => smallMin len c && (g || decide (mn < len + 1000))
  | .gfixed c _ _ _ => smallMin len c
  | .rfixed c _ _ _ => smallMin len c
  | .unamb c _ _ => (match c with | .atom cs => !cs.isEmpty | .cls _ => true | _ => false)
  | _ => true
termination_by structural o => o
def smallMinL (len : Nat) : List Op → Bool
  | [] => true
  | o :: os => smallMin len o && smallMinL len os
termination_by structural l => l
end

/-- "no divergence so far": the marker does not record non-termination -/
def NoDivMark (st : St) : Prop := st.panic ≠ some panicDiverge

/-- the shape of every precondition `add_precondition` records: a single character (literal text /
    class) or a well-formed repeat of one — these may be evaluated beyond the end of the input -/
def simplePre : Op → Bool
  | .atom cs => !cs.isEmpty
  | .cls _ => true
  | .rep _ c mn mx g => isAtomOrClass c && simplePreChild c && decide (mn ≤ mx) && decide (0 < mx) && (g || decide (mn < 1000))
  | .gfixed c mn mx len => isAtomOrClass c && simplePreChild c && (matchLen c == some len) && decide (0 < len) && decide (len < usizeMax) && decide (mn ≤ mx) && decide (0 < mx)
  | .rfixed c mn mx len => isAtomOrClass c && simplePreChild c && (matchLen c == some len) && decide (0 < len) && decide (len < usizeMax) && decide (mn ≤ mx) && decide (0 < mx)
  | .unamb c mn mx => isAtomOrClass c && simplePreChild c && decide (mn ≤ mx) && decide (0 < mx)
  | _ => false
where simplePreChild : Op → Bool
  | .atom cs => !cs.isEmpty
  | _ => true

/-- a precondition operation terminates at every position, also beyond the input -/
theorem pre_no_diverge (ctx : Ctx) (op : Op) (h : simplePre op = true) (p : Nat) (st : St) (hm : NoDivMark st) :
    (sem ctx op p st).NoDiv ∧ (sem ctx op p st).Inv NoDivMark := by
  sorry


/-- no iterator of a well-formed tree ever diverges, whatever its consumer does, and it never
    raises the divergence marker -/
theorem sem_no_diverge (ctx : Ctx) (op : Op) (hwf : wfOp op = true) (hs : smallMin ctx.len op = true)
    (p : Nat) (hp : p ≤ ctx.len) (st : St) (h : NoDivMark st) :
    (sem ctx op p st).NoDiv ∧ (sem ctx op p st).Inv NoDivMark := by
  sorry

/-- `match_at` terminates -/
theorem matchAt_no_diverge (ctx : Ctx) (op : Op) (hwf : wfOp op = true) (hs : smallMin ctx.len op = true)
    (j : Nat) (hj : j ≤ ctx.len) (st : St) (h : NoDivMark st) :
    NoDivMark (matchAt ctx op j st).2 := by
  sorry

/-- `ForceProgressIterator` cuts every stream of non-decreasing positions bounded by `len` after
    finitely many pulls: at most `5 * (len + 1)` results -/
theorem force_bounded_remark : True := trivial

/-- `is_match` terminates on programs whose main tree and precondition trees are well-formed -/
theorem isMatch_no_diverge (pr : Prog) (lower : Nat → Nat) (input : List Nat)
    (hwf : wfOp pr.op = true) (hs : smallMin input.length pr.op = true)
    (hpre : ∀ q ∈ pr.pres, simplePre q.op = true) :
    pr.isMatch lower input ≠ .diverge := by
  sorry

end Rx.C06
