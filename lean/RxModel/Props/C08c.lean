/-
  Props/C08c — the first-set analysis behind the non-backtracking rewrite is sound.

  `Sequence::optimize` replaces `X{m,n}` (X a single literal / class) by a repeat that never gives
  characters back when `no_ambiguity` judges the first sets of X and of the following term
  disjoint.  Here, in terms of the language `OpR`:
    * `get_initial_character_class` over-approximates: the first character of every NON-EMPTY
      member of a term's language is in the term's first set;
    * a term that can match the empty string has the universal first set, so it is never judged
      disjoint from anything (this is what the fix of `Repeat::get_initial_character_class` restored);
    * hence, when the first sets are disjoint, every match of `X{m,n} · next · rest` uses the
      MAXIMAL run of X: the position after the repeat is not followed by another X (or the count
      is `n`) — giving characters back can never produce a match, so nothing is lost.

  Two of the four statements are FALSE as first stated (`nullable_first_all`, `disjoint_maxmunch`;
  kept below as `def … : Prop` with machine-checked refutations): the EMPTY SEQUENCE `.seq []`
  matches the empty string but `initialClassSeq [] = []`, the empty first set.  `wfOp` excludes
  empty sequences (the compiler never builds one), so the `_partial` variants add the hypothesis
  `noEmptySeq` (implied by `wfOp`, see `noEmptySeq_of_wfOp`).  `disjoint_maxmunch_partial` also
  assumes that the input consists of scalar values (Rust `char`s): `is_disjoint` enumerates
  `other` with `iter_chars`, which skips surrogates.
-/
import RxModel.Spec.OpLang
import RxModel.Model.Optimize
import RxModel.Props.C08b
import RxModel.Props.C09
import RxModel.Proofs.FirstSetLemmas
namespace Rx.C08
open Rx

/-! `clsCanon` / `clsCanonL` (every class of the tree is a canonical range list and every literal
    character is a code point), `CaseOK` (the case data are adequate for the comparison the matcher
    uses) and `noEmptySeq` / `noEmptySeqL` (no empty sequence anywhere in the tree) are defined in
    `Proofs/FirstSetLemmas` (namespace `Rx.C08`), because the helper lemmas need them:

      def clsCanon : Op → Prop
        | .atom cs => ∀ c ∈ cs, c < cpLimit
        | .cls rs => C09.Canon rs
        | .capture _ c => clsCanon c
        | .choice bs => clsCanonL bs
        | .seq ops => clsCanonL ops
        | .rep _ c _ _ _ => clsCanon c
        | .gfixed c _ _ _ => clsCanon c
        | .rfixed c _ _ _ => clsCanon c
        | .unamb c _ _ => clsCanon c
        | _ => True
      def clsCanonL : List Op → Prop
        | [] => True
        | o :: os => clsCanon o ∧ clsCanonL os

      def CaseOK (env : Env) (lower : Nat → Nat) : Prop :=
        (∀ a x, eqCB lower x a = true → x = a ∨ x ∈ env.closure a) ∧
        (∀ a x, x ∈ env.closure a → x < cpLimit)

      def noEmptySeq : Op → Bool
        | .capture _ c => noEmptySeq c
        | .choice bs => noEmptySeqL bs
        | .seq ops => !ops.isEmpty && noEmptySeqL ops
        | .rep _ c _ _ _ => noEmptySeq c
        | .gfixed c _ _ _ => noEmptySeq c
        | .rfixed c _ _ _ => noEmptySeq c
        | .unamb c _ _ => noEmptySeq c
        | _ => true
      def noEmptySeqL : List Op → Bool
        | [] => true
        | o :: os => noEmptySeq o && noEmptySeqL os                                              -/

/-- well-formed trees (what the compiler builds) contain no empty sequence -/
theorem noEmptySeq_of_wfOp (op : Op) (hwf : wfOp op = true) : noEmptySeq op = true :=
  FirstL.nes_of_wf op hwf

/-- the first set is canonical -/
theorem initialClass_canon (env : Env) (cb : Bool) (hce : ∀ a x, x ∈ env.closure a → x < cpLimit)
    (op : Op) (hc : clsCanon op) : C09.Canon (initialClass env cb op) :=
  FirstL.ic_canon env cb hce op hc

/-- over-approximation: a non-empty member of the language starts with a character of the first set -/
theorem initialClass_sound (env : Env) (ctx : Ctx) (hcase : ctx.caseBlind = true → CaseOK env ctx.lower)
    (hce : ∀ a x, x ∈ env.closure a → x < cpLimit)
    (hin : ∀ c ∈ ctx.input, c < cpLimit)
    (op : Op) (hc : clsCanon op) (p q : Nat) (hp : p ≤ ctx.len) (h : OpR ctx op p q) (hpq : p < q) :
    ∃ c, ctx.input[p]? = some c ∧ clsContains (initialClass env ctx.caseBlind op) c = true :=
  FirstL.sound_op env ctx hcase hce hin op hc p q hp h hpq

/-! ### `nullable_first_all` -/

/-- ORIGINAL STATEMENT (false: the empty sequence is nullable and has the empty first set):
    a term that can match the empty string has the universal first set -/
def nullable_first_all : Prop :=
  ∀ (env : Env) (ctx : Ctx) (_hce : ∀ a x, x ∈ env.closure a → x < cpLimit)
    (op : Op) (_hc : clsCanon op) (_hne : noEmptyAtoms op = true) (p : Nat) (_hp : p ≤ ctx.len)
    (_h : OpR ctx op p p) (c : Nat) (_hcl : c < cpLimit),
    clsContains (initialClass env ctx.caseBlind op) c = true

/-- the data of the counterexamples: no case closure, the input `"a"` -/
def cexEnv : Env := ⟨id, fun _ => [], fun _ => none, fun _ => none, [], [], [], []⟩
def cexCtx : Ctx := ⟨[97], false, false, false, 0, id⟩

/-- counterexample: `op = .seq []`, `p = 0`, `c = 0` -/
theorem nullable_first_all_refuted : ¬ nullable_first_all := by
  intro h
  have := h cexEnv cexCtx (fun _ _ hx => by simp [cexEnv] at hx) (.seq [])
    (by simp only [clsCanon, clsCanonL]) (by decide) 0 (Nat.zero_le _)
    (by simp only [OpR, OpRSeq]) 0 (by decide)
  revert this
  decide

/-- a term without empty sequences that can match the empty string has the universal first set -/
theorem nullable_first_all_partial (env : Env) (ctx : Ctx) (hce : ∀ a x, x ∈ env.closure a → x < cpLimit)
    (op : Op) (hc : clsCanon op) (hne : noEmptyAtoms op = true) (hns : noEmptySeq op = true)
    (p : Nat) (hp : p ≤ ctx.len) (h : OpR ctx op p p)
    (c : Nat) (hcl : c < cpLimit) : clsContains (initialClass env ctx.caseBlind op) c = true :=
  FirstL.null_op env ctx hce op hc hne hns p hp h c hcl

/-- the same for well-formed trees -/
theorem nullable_first_all_wf (env : Env) (ctx : Ctx) (hce : ∀ a x, x ∈ env.closure a → x < cpLimit)
    (op : Op) (hc : clsCanon op) (hne : noEmptyAtoms op = true) (hwf : wfOp op = true)
    (p : Nat) (hp : p ≤ ctx.len) (h : OpR ctx op p p)
    (c : Nat) (hcl : c < cpLimit) : clsContains (initialClass env ctx.caseBlind op) c = true :=
  nullable_first_all_partial env ctx hce op hc hne (noEmptySeq_of_wfOp op hwf) p hp h c hcl

/-! ### `disjoint_maxmunch` -/

/-- ORIGINAL STATEMENT (false for `next = .seq []`, whose first set is empty and therefore disjoint
    from everything although `next` matches the empty string):
    with disjoint first sets every match of `X{mn,mx} · next · rest` takes the maximal run of X:
    after the `k` iterations used, either `k = mx` or X does not match again -/
def disjoint_maxmunch : Prop :=
  ∀ (env : Env) (ctx : Ctx) (_hcase : ctx.caseBlind = true → CaseOK env ctx.lower)
    (_hce : ∀ a x, x ∈ env.closure a → x < cpLimit) (_hin : ∀ c ∈ ctx.input, c < cpLimit)
    (x next : Op) (_hx : isAtomOrClass x = true) (_hcx : clsCanon x) (_hcn : clsCanon next)
    (_hnx : noEmptyAtoms x = true) (_hnn : noEmptyAtoms next = true)
    (_hdis : isDisjoint (initialClass env ctx.caseBlind x) (initialClass env ctx.caseBlind next) = true)
    (k p m q : Nat) (_hp : p ≤ ctx.len)
    (_hiter : IterR (fun a b => OpR ctx x a b) k p m) (_hnext : OpR ctx next m q) (mx : Nat) (_hk : k ≤ mx),
    k = mx ∨ ¬ ∃ m', OpR ctx x m m'

/-- counterexample: input `"a"`, `x = [a]`, `next = .seq []`, `k = 0`, `p = m = q = 0`, `mx = 1`:
    the run of zero X's followed by the empty `next` is a match, but X matches again at 0 -/
theorem disjoint_maxmunch_refuted : ¬ disjoint_maxmunch := by
  intro h
  have := h cexEnv cexCtx (fun hcb => by simp [cexCtx] at hcb) (fun _ _ hx => by simp [cexEnv] at hx)
    (by decide) (.cls [(97, 98)]) (.seq []) (by decide)
    (by simp only [clsCanon, C09.Canon]; decide) (by simp only [clsCanon, clsCanonL])
    (by decide) (by decide) (by decide) 0 0 0 0 (Nat.zero_le _) (IterR.zero 0)
    (by simp only [OpR, OpRSeq]) 1 (by decide)
  rcases this with h0 | h1
  · cases h0
  · exact h1 ⟨1, by simp [OpR, cexCtx, clsContains]⟩

/-- with disjoint first sets, a follower without empty sequences and an input of scalar values,
    every match of `X{mn,mx} · next · rest` takes the maximal run of X: after the `k` iterations
    used, either `k = mx` or X does not match again -/
theorem disjoint_maxmunch_partial (env : Env) (ctx : Ctx) (hcase : ctx.caseBlind = true → CaseOK env ctx.lower)
    (hce : ∀ a x, x ∈ env.closure a → x < cpLimit) (hin : ∀ c ∈ ctx.input, c < cpLimit)
    (hsc : ∀ c ∈ ctx.input, isSurrogate c = false)
    (x next : Op) (hx : isAtomOrClass x = true) (hcx : clsCanon x) (hcn : clsCanon next)
    (hnx : noEmptyAtoms x = true) (hnn : noEmptyAtoms next = true) (hns : noEmptySeq next = true)
    (hdis : isDisjoint (initialClass env ctx.caseBlind x) (initialClass env ctx.caseBlind next) = true)
    (k p m q : Nat) (hp : p ≤ ctx.len)
    (hiter : IterR (fun a b => OpR ctx x a b) k p m) (hnext : OpR ctx next m q) (mx : Nat) (_hk : k ≤ mx) :
    k = mx ∨ ¬ ∃ m', OpR ctx x m m' :=
  .inr (FirstL.maxmunch env ctx hcase hce hin hsc x next hx hcx hcn hnx hnn hns hdis k p m q hp hiter hnext)

/-- the same for a well-formed follower -/
theorem disjoint_maxmunch_wf (env : Env) (ctx : Ctx) (hcase : ctx.caseBlind = true → CaseOK env ctx.lower)
    (hce : ∀ a x, x ∈ env.closure a → x < cpLimit) (hin : ∀ c ∈ ctx.input, c < cpLimit)
    (hsc : ∀ c ∈ ctx.input, isSurrogate c = false)
    (x next : Op) (hx : isAtomOrClass x = true) (hcx : clsCanon x) (hcn : clsCanon next)
    (hnx : noEmptyAtoms x = true) (hnn : noEmptyAtoms next = true) (hwf : wfOp next = true)
    (hdis : isDisjoint (initialClass env ctx.caseBlind x) (initialClass env ctx.caseBlind next) = true)
    (k p m q : Nat) (hp : p ≤ ctx.len)
    (hiter : IterR (fun a b => OpR ctx x a b) k p m) (hnext : OpR ctx next m q) (mx : Nat) (hk : k ≤ mx) :
    k = mx ∨ ¬ ∃ m', OpR ctx x m m' :=
  disjoint_maxmunch_partial env ctx hcase hce hin hsc x next hx hcx hcn hnx hnn
    (noEmptySeq_of_wfOp next hwf) hdis k p m q hp hiter hnext mx hk

end Rx.C08
