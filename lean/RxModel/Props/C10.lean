/-
  Props/C10 — category, block and name-character escapes match the Unicode / XML data.

  Everything here is a kernel computation (`decide +kernel`) over tables REGENERATED ON EVERY RUN
  from /repo's working tree (bin/translate.py → Generated/*): block.rs, Blocks.txt,
  CompatBlocks.txt, the arms of `get_category_group`, the add_char/add_range calls of
  name_start_char / name_char, and the ICU general-category data linked into the crate.
  A swapped arm, a mutated range, a dropped or stale block makes the generated file differ and the
  corresponding theorem fail to check.
-/
import RxModel.Model.Unicode
import RxModel.Model.Parser
import RxModel.Generated.UcdBlocks
import RxModel.Spec.Tables
namespace Rx.C10
open Rx Rx.Spec

/-! ### helpers (all structurally recursive / fuel recursive so that the kernel can evaluate them) -/

/-- the ranges, in this order, tile `[next, cpLimit)` exactly: no gap, no overlap, none empty -/
def tiles : Nat → Ranges → Bool
  | next, [] => next == cpLimit
  | next, (a, b) :: rs => a == next && decide (a < b) && tiles b rs

def gcShort (n : String) : Ranges := (lookupL Gen.gcAll (s n)).getD []
def grp (n : String) : Ranges := (lookupL Gen.grpAll (s n)).getD []

def canonB : Ranges → Bool
  | [] => true
  | [(a, b)] => decide (a < b) && decide (b ≤ cpLimit)
  | (a, b) :: (c, d) :: rs => decide (a < b) && decide (b < c) && canonB ((c, d) :: rs)

/-! ### general categories -/

/-- the 30 two-letter categories (Cs = the surrogate code points included) partition all code
    points: merged by start they tile `[0, 0x110000)` with no gap and no overlap -/
theorem categories_partition : tiles 0 (mergeAll (Gen.gcAll.map (·.2))) = true := by decide +kernel

/-- every table is a canonical inversion list (so the set-algebra theorems of C09 apply) -/
theorem categories_canon : (Gen.gcAll.all (fun t => canonB t.2) && Gen.grpAll.all (fun t => canonB t.2)) = true := by
  decide +kernel

/-- Cs is exactly the surrogate range, so the other 29 categories partition the scalar values -/
theorem surrogates : gcShort "Cs" = [(0xD800, 0xE000)] := by decide +kernel

/-- each one-letter group is the union of its two-letter members -/
theorem groups_are_unions :
    groupMembers.all (fun g => grp g.1 == unionSorted (g.2.map gcShort)) = true := by decide +kernel

/-- each two-letter name selects the ICU set of exactly that category -/
theorem two_letter_groups : twoLetterGroups.all (fun p => grp p.2 == gcShort p.1) = true := by decide +kernel

/-- the category-name → group arms of `get_category_group` are the expected 36 -/
theorem arms_expected : Gen.categoryArms = expectedArms.map (fun p => (s p.1, s p.2)) := by decide +kernel

/-- `\d` = Nd -/
theorem digit_is_Nd : digitStd = gcShort "Nd" := by decide +kernel

/-- `\w` = everything outside P, Z and C: the four sets tile the code points … -/
theorem word_complement :
    tiles 0 (mergeAll [wordStd, grp "Punctuation", grp "Separator", grp "Other"]) = true := by decide +kernel

/-- … which, the categories being a partition, is L ∪ M ∪ N ∪ S -/
theorem word_is_LMNS : wordStd = unionSorted [grp "Letter", grp "Mark", grp "Number", grp "Symbol"] := by decide +kernel

/-- what `word_char()` removes and from what: the full range minus exactly P, Z, C -/
theorem word_sources : Gen.wordCharBase = (0, 0x10FFFF) ∧
    Gen.wordCharRemoved = [s "Punctuation", s "Separator", s "Other"] ∧ Gen.decimalNumberCategory = s "DecimalNumber" := by
  decide +kernel

/-! ### XML name characters -/

theorem name_start_is_xml : rangesOfInclusive Gen.nameStartRanges = rangesOfInclusive xmlNameStart := by decide +kernel
theorem name_char_is_xml :
    rangesOfInclusive Gen.nameCharRanges = rangesOfInclusive (xmlNameStart ++ xmlNameCharExtra) := by decide +kernel

/-! ### blocks -/

/-- block.rs is exactly Blocks.txt followed by CompatBlocks.txt -/
theorem blocks_are_ucd : Gen.allBlocks = Gen.ucdBlocks ++ Gen.compatBlocks := by decide +kernel

/-- every block range is well formed -/
theorem blocks_wellformed : Gen.allBlocks.all (fun b => decide (b.2.1 ≤ b.2.2) && decide (b.2.2 < cpLimit)) = true := by
  decide +kernel

def sortedDisjoint : List (List Nat × Nat × Nat) → Bool
  | [] => true
  | [_] => true
  | a :: b :: rest => decide (a.2.2 < b.2.1) && sortedDisjoint (b :: rest)

/-- the UCD blocks are listed in increasing order and are pairwise disjoint -/
theorem ucd_blocks_disjoint : sortedDisjoint Gen.ucdBlocks = true := by decide +kernel

def nodupB : List (List Nat) → Bool
  | [] => true
  | x :: xs => !xs.contains x && nodupB xs

/-- normalised names (spaces and underscores removed) are collision-free -/
theorem block_names_unique : nodupB (Gen.allBlocks.map (fun b => normBlockName b.1)) = true := by decide +kernel

/-- `\p{IsB}` looks up exactly the range of block B, for every block of the list -/
theorem block_lookup_correct :
    Gen.allBlocks.all (fun b => blockStd (normBlockName b.1) == some (addRange b.2.1 (b.2.2 + 1) [])) = true := by
  decide +kernel

/-- `\p{IsPrivateUse}` is the three private-use ranges -/
theorem private_use : Gen.privateUseRanges = privateUse ∧
    blockStd (s "PrivateUse") = some [(0xE000, 0xF900), (0xF0000, 0xFFFFE), (0x100000, 0x10FFFE)] := by decide +kernel

/-- an unknown category name is rejected by the compiler (`Error::Syntax`): the pattern has
    `\p{name}` or `\P{name}` at `st.idx` (a one- or two-letter name, `}` right after it) and the
    category table does not know the name -/
theorem unknown_category_rejected (c : PC) (st : PS) (inBr : Bool) (name : List Nat)
    (hp : c.at st.idx = 92) (he : c.at (st.idx + 1) = 112 ∨ c.at (st.idx + 1) = 80)
    (hlt : st.idx + 1 < c.len)
    (hidx : st.idx + 2 < c.len) (hb : c.at (st.idx + 2) = 123)
    (hclose : findClose c (c.len + 1) (st.idx + 3) = some (st.idx + 3 + name.length))
    (hblock : (c.pat.drop (st.idx + 3)).take name.length = name)
    (hlen : name.length = 1 ∨ name.length = 2)
    (hunk : c.env.category name = none) :
    escape c st inBr = .err .syntax := by
  unfold escape
  simp only [PC.len] at *
  have hl2 := congrArg List.length hblock
  simp only [List.length_take, List.length_drop] at hl2
  rcases he with he | he <;> rcases hlen with hl | hl <;> rw [hl] at hblock hclose hl2 <;>
    simp [hp, he, hb, hclose, Nat.not_le.mpr hlt, Nat.ne_of_lt hidx] <;>
    simp [hblock, hunk] <;> omega

/-- the category table knows exactly the 36 names of the arm table -/
theorem category_names : ∀ n, (categoryStd n).isSome = (Gen.categoryArms.map (·.1)).contains n := by
  intro n
  unfold categoryStd
  have key : ∀ (tbl : List (List Nat × List Nat)), (∀ p ∈ tbl, (lookupL Gen.grpAll p.2).isSome = true) →
      (match lookupL tbl n with | none => none | some long => lookupL Gen.grpAll long).isSome = (tbl.map (·.1)).contains n := by
    intro tbl
    induction tbl with
    | nil => intro _; simp [lookupL]
    | cons hd tl ih =>
      intro h
      obtain ⟨a, b⟩ := hd
      simp only [lookupL, List.map_cons, List.contains_cons]
      by_cases hab : a = n
      · subst hab
        have := h (a, b) (by simp)
        simp [this]
      · have hne : (a == n) = false := by simpa using hab
        have hne' : (n == a) = false := by simpa using (fun h => hab h.symm)
        simp only [hne, hne', Bool.false_or]
        exact ih (fun p hp => h p (by simp [hp]))
  exact key Gen.categoryArms (by decide +kernel)

example : categoryStd (s "Lu") = some (gcShort "Lu") ∧ categoryStd (s "Xx") = none ∧ categoryStd (s "Cs") = none := by
  decide +kernel
example : blockStd (s "BasicLatin") = some [(0, 128)] ∧ blockStd (s "NoSuchBlock") = none := by decide +kernel

end Rx.C10
