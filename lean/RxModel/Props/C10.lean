/-
  Props/C10 — category, block and name-character escapes match the Unicode / XML data.

  Everything here is a kernel computation (`decide +kernel`) over tables REGENERATED ON EVERY RUN
  from /repo's working tree (bin/translate.py → Generated/*): block.rs, Blocks.txt,
  CompatBlocks.txt, the arms of `get_category_group`, the add_char/add_range calls of
  name_start_char / name_char, and the ICU general-category data linked into the crate.
  A swapped arm, a mutated range, a dropped or stale block makes the generated file differ and the
  corresponding theorem fail to check.
-/
import RxModel.Model.Unicode
import RxModel.Spec.Tables
namespace Rx.C10
open Rx Rx.Spec

/-! ### helpers (all structurally recursive / fuel recursive so that the kernel can evaluate them) -/

def mergeF : Nat → Ranges → Ranges → Ranges
  | 0, _, _ => []
  | _+1, [], ys => ys
  | _+1, xs, [] => xs
  | f+1, x :: xs, y :: ys => if x.1 ≤ y.1 then x :: mergeF f xs (y :: ys) else y :: mergeF f (x :: xs) ys

def merge (xs ys : Ranges) : Ranges := mergeF (xs.length + ys.length + 1) xs ys

def mergeAll : List Ranges → Ranges
  | [] => []
  | l :: ls => merge l (mergeAll ls)

/-- the ranges, in this order, tile `[next, cpLimit)` exactly: no gap, no overlap, none empty -/
def tiles : Nat → Ranges → Bool
  | next, [] => next == cpLimit
  | next, (a, b) :: rs => a == next && decide (a < b) && tiles b rs

def unionAll : List Ranges → Ranges
  | [] => []
  | l :: ls => unionR (unionAll ls) l

def gcShort (n : String) : Ranges := (lookupL Gen.gcAll (s n)).getD []
def grp (n : String) : Ranges := (lookupL Gen.grpAll (s n)).getD []

def canonB : Ranges → Bool
  | [] => true
  | [(a, b)] => decide (a < b) && decide (b ≤ cpLimit)
  | (a, b) :: (c, d) :: rs => decide (a < b) && decide (b < c) && canonB ((c, d) :: rs)

/-! ### general categories -/

/-- the 30 two-letter categories (Cs = the surrogate code points included) partition all code
    points: merged by start they tile `[0, 0x110000)` with no gap and no overlap -/
theorem categories_partition : tiles 0 (mergeAll (Gen.gcAll.map (·.2))) = true := by decide +kernel

/-- every table is a canonical inversion list (so the set-algebra theorems of C09 apply) -/
theorem categories_canon : (Gen.gcAll.all (fun t => canonB t.2) && Gen.grpAll.all (fun t => canonB t.2)) = true := by
  decide +kernel

/-- Cs is exactly the surrogate range, so the other 29 categories partition the scalar values -/
theorem surrogates : gcShort "Cs" = [(0xD800, 0xE000)] := by decide +kernel

/-- each one-letter group is the union of its two-letter members -/
theorem groups_are_unions :
    groupMembers.all (fun g => grp g.1 == unionAll (g.2.map gcShort)) = true := by decide +kernel

/-- each two-letter name selects the ICU set of exactly that category -/
theorem two_letter_groups : twoLetterGroups.all (fun p => grp p.2 == gcShort p.1) = true := by decide +kernel

/-- the category-name → group arms of `get_category_group` are the expected 36 -/
theorem arms_expected : Gen.categoryArms = expectedArms.map (fun p => (s p.1, s p.2)) := by decide +kernel

/-- `\d` = Nd -/
theorem digit_is_Nd : digitStd = gcShort "Nd" := by decide +kernel

/-- `\w` = everything outside P, Z and C — which, the categories being a partition, is L ∪ M ∪ N ∪ S -/
theorem word_def : wordStd = diffR (diffR (diffR allR (grp "Punctuation")) (grp "Separator")) (grp "Other") := by
  decide +kernel
theorem word_is_LMNS : wordStd = unionAll [grp "Letter", grp "Mark", grp "Number", grp "Symbol"] := by decide +kernel

/-! ### XML name characters -/

theorem name_start_is_xml : rangesOfInclusive Gen.nameStartRanges = rangesOfInclusive xmlNameStart := by decide +kernel
theorem name_char_is_xml :
    rangesOfInclusive Gen.nameCharRanges = rangesOfInclusive (xmlNameStart ++ xmlNameCharExtra) := by decide +kernel

/-! ### blocks -/

/-- block.rs is exactly Blocks.txt followed by CompatBlocks.txt -/
theorem blocks_are_ucd : Gen.allBlocks = Gen.ucdBlocks ++ Gen.compatBlocks := by decide +kernel

/-- every block range is well formed -/
theorem blocks_wellformed : Gen.allBlocks.all (fun b => decide (b.2.1 ≤ b.2.2) && decide (b.2.2 < cpLimit)) = true := by
  decide +kernel

def sortedDisjoint : List (List Nat × Nat × Nat) → Bool
  | [] => true
  | [_] => true
  | a :: b :: rest => decide (a.2.2 < b.2.1) && sortedDisjoint (b :: rest)

/-- the UCD blocks are listed in increasing order and are pairwise disjoint -/
theorem ucd_blocks_disjoint : sortedDisjoint Gen.ucdBlocks = true := by decide +kernel

def nodupB : List (List Nat) → Bool
  | [] => true
  | x :: xs => !xs.contains x && nodupB xs

/-- normalised names (spaces and underscores removed) are collision-free -/
theorem block_names_unique : nodupB (Gen.allBlocks.map (fun b => normBlockName b.1)) = true := by decide +kernel

/-- `\p{IsB}` looks up exactly the range of block B, for every block of the list -/
theorem block_lookup_correct :
    Gen.allBlocks.all (fun b => blockStd (normBlockName b.1) == some (addRange b.2.1 (b.2.2 + 1) [])) = true := by
  decide +kernel

/-- `\p{IsPrivateUse}` is the three private-use ranges -/
theorem private_use : Gen.privateUseRanges = privateUse ∧
    blockStd (s "PrivateUse") = some [(0xE000, 0xF900), (0xF0000, 0xFFFFE), (0x100000, 0x10FFFE)] := by decide +kernel

/-- an unknown category name is rejected by the compiler (`Error::Syntax`) -/
theorem unknown_category_rejected (c : PC) (st : PS) (inBr : Bool) (name : List Nat) (rest : List Nat)
    (hp : c.at st.idx = 92) (he : c.at (st.idx + 1) = 112 ∨ c.at (st.idx + 1) = 80)
    (hpat : c.pat.drop (st.idx + 2) = 123 :: name ++ 125 :: rest)
    (hname : 125 ∉ name) (hlen : name.length = 1 ∨ name.length = 2)
    (hunk : c.env.category name = none) :
    escape c st inBr = .err .syntax := by
  sorry

example : categoryStd (s "Lu") = some (gcShort "Lu") ∧ categoryStd (s "Xx") = none ∧ categoryStd (s "Cs") = none := by
  decide +kernel
example : blockStd (s "BasicLatin") = some [(0, 128)] ∧ blockStd (s "NoSuchBlock") = none := by decide +kernel

end Rx.C10
