/-
  Props/C16 — regexes that match the empty string are rejected up front, and only those.
-/
import RxModel.Model.Compile
import RxModel.Spec.OpLang
namespace Rx.C16
open Rx

/-- the bit stored by the constructor is exactly "is_match on the empty string" -/
theorem new_nullable (env : Env) (p fs : List Nat) (xsd opt : Bool) (r : Regex)
    (h : Regex.new env p fs xsd opt = .ok r) : r.prog.isMatch env.lower [] = .ok r.nullable := by
  sorry

theorem replace_nullable (r : Regex) (lower : Nat → Nat) (input repl : List Nat) (h : r.nullable = true) :
    r.replaceAll lower input repl = .err .matchesEmptyString := by
  sorry

theorem analyze_nullable (r : Regex) (lower : Nat → Nat) (input : List Nat) (limit : Nat) (h : r.nullable = true) :
    r.analyze lower input limit = .err .matchesEmptyString := by
  sorry

theorem tokenize_nullable (r : Regex) (lower : Nat → Nat) (input : List Nat) (limit : Nat)
    (h : r.nullable = true) (hne : input ≠ []) :
    r.tokenize lower input limit = .err .matchesEmptyString := by
  sorry

/-- tokenize on the empty input yields no tokens for every regex -/
theorem tokenize_empty (r : Regex) (lower : Nat → Nat) (limit : Nat) :
    r.tokenize lower [] limit = .ok ([], false) := by
  sorry

/-- … and only those: a regex that does not match "" never gets MatchesEmptyString -/
theorem replace_not_nullable (r : Regex) (lower : Nat → Nat) (input repl : List Nat) (h : r.nullable = false) :
    r.replaceAll lower input repl ≠ .err .matchesEmptyString := by
  sorry

theorem tokenize_not_nullable (r : Regex) (lower : Nat → Nat) (input : List Nat) (limit : Nat) (h : r.nullable = false) :
    r.tokenize lower input limit ≠ .err .matchesEmptyString := by
  sorry

theorem analyze_not_nullable (r : Regex) (lower : Nat → Nat) (input : List Nat) (limit : Nat)
    (h : r.nullable = false) :
    r.analyze lower input limit ≠ .err .matchesEmptyString := by
  sorry

/-- in the language of a compiled tree, a zero-length member anywhere in any input gives a
    zero-length member on the empty input: "matches the empty string" and "can report a
    zero-length match" coincide -/
theorem OpR_zero_anywhere (ctx : Ctx) (op : Op) (i : Nat) (h : OpR ctx op i i) :
    OpR { ctx with input := [] } op 0 0 := by
  sorry

end Rx.C16
