/-
  Props/C16 — regexes that match the empty string are rejected up front, and only those.
-/
import RxModel.Model.Compile
import RxModel.Spec.OpLang
import RxModel.Proofs.MiscLemmas
namespace Rx.C16
open Rx

/-- the bit stored by the constructor is exactly "is_match on the empty string" -/
theorem new_nullable (env : Env) (p fs : List Nat) (xsd opt : Bool) (r : Regex)
    (h : Regex.new env p fs xsd opt = .ok r) : r.prog.isMatch env.lower [] = .ok r.nullable := by
  unfold Regex.new at h
  repeat' (split at h)
  all_goals first
    | (simp at h; done)
    | (rename_i hn; simp only [Out.ok.injEq] at h; subst h; exact hn)

theorem replace_nullable (r : Regex) (lower : Nat → Nat) (input repl : List Nat) (h : r.nullable = true) :
    r.replaceAll lower input repl = .err .matchesEmptyString := by
  simp [Regex.replaceAll, h]

theorem analyze_nullable (r : Regex) (lower : Nat → Nat) (input : List Nat) (limit : Nat) (h : r.nullable = true) :
    r.analyze lower input limit = .err .matchesEmptyString := by
  simp [Regex.analyze, h]

theorem tokenize_nullable (r : Regex) (lower : Nat → Nat) (input : List Nat) (limit : Nat)
    (h : r.nullable = true) (hne : input ≠ []) :
    r.tokenize lower input limit = .err .matchesEmptyString := by
  simp [Regex.tokenize, h, hne]

/-- tokenize on the empty input yields no tokens for every regex -/
theorem tokenize_empty (r : Regex) (lower : Nat → Nat) (limit : Nat) :
    r.tokenize lower [] limit = .ok ([], false) := by
  simp [Regex.tokenize]

/-- … and only those: a regex that does not match "" never gets MatchesEmptyString -/
theorem replace_not_nullable (r : Regex) (lower : Nat → Nat) (input repl : List Nat) (h : r.nullable = false) :
    r.replaceAll lower input repl ≠ .err .matchesEmptyString := by
  intro hc
  simp only [Regex.replaceAll, h, Bool.false_eq_true, if_false, replaceWith] at hc
  exact absurd (replaceLoop_err _ _ _ _ _ _ _ _ _ _ _ hc) (by decide)

theorem tokenize_not_nullable (r : Regex) (lower : Nat → Nat) (input : List Nat) (limit : Nat) (h : r.nullable = false) :
    r.tokenize lower input limit ≠ .err .matchesEmptyString := by
  unfold Regex.tokenize
  split
  · simp
  · simp only [h, Bool.false_eq_true, if_false]
    exact tokenLoop_ne_err _ _ _ _ _ _ _

theorem analyze_not_nullable (r : Regex) (lower : Nat → Nat) (input : List Nat) (limit : Nat)
    (h : r.nullable = false) :
    r.analyze lower input limit ≠ .err .matchesEmptyString := by
  simp only [Regex.analyze, h, Bool.false_eq_true, if_false]
  split
  · simp
  · exact analyzeLoop_ne_err _ _ (fun st t e => processMatch_ne_err _ st t e) _ _ _ _ _

/-- in the language of a compiled tree, a zero-length member anywhere in any input gives a
    zero-length member on the empty input: "matches the empty string" and "can report a
    zero-length match" coincide -/
theorem OpR_zero_anywhere (ctx : Ctx) (op : Op) (i : Nat) (h : OpR ctx op i i) :
    OpR { ctx with input := [] } op 0 0 :=
  OpR_zero ctx op i h

end Rx.C16
