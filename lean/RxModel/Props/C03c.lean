/-
  Props/C03c — C03 / C19 for straight-capture programs, lifted from `match_at` (Props/C03b) through
  the search loop `matches` (all five shortcuts) and up to the API functions that REPORT groups:
  `replace_all` (`$N` expansion) and `analyze` (group tree).

  Fragment: `straightCaps` programs (Spec/PathCaps), back-references allowed as in C03b.  Hypotheses,
  bundled in `SearchOK pr lower input` (Proofs/C03cLemmas):
    * `StraightOK`: `straightCaps`, `wfOp`, `C02.capsPos`, `scopeOK hasBackrefs maxParens op [] []`,
      `(capsOf op).Nodup`                                   — decidable (`C03b.progOK`);
    * `SearchFacts` for the input and for the empty input   — what `ReProgram::new` records
      (`SearchComplete.mkProgram_searchFacts`: every `mkProgram` of a well-formed tree without empty
      literal has them; `searchOK_of_mkProgram` below);
    * every precondition tree has `preShape` and `simplePre` — decidable;
    * `input.length < usize::MAX`; the nullability gate `is_match("") = false` (C16).

  1. `matchAt_cases`, `tryCands_caps`, `matchesFrom_caps`, `matchesFrom_caps_false`:
       THE SEARCH LOOP.  A failed `match_at` leaves a state from which the next attempt again starts
       clear (`Good`: reported arrays clear outside the groups of the tree, panic marker clear); the
       precondition tests and the candidate filters do not disturb it.  `matches(i) = true` ⇒ there are
       `j n e'`: `j` is the LEAST start `≥ i` from which a path of the semantics exists (path semantics
       WITH environments, so back-references are covered — the `OpR`-based `CompleteAt` of
       Props/SearchComplete is not used for the main tree), `(n, e')` is the FIRST path of the priority
       order from `j`, group 0 = `(j, n)`, the state represents `e'` (`Repr`), `get_paren(g)` is the
       text of `e' g`; `matches(i) = false` ⇒ no path from any `j ≥ i`.  No panic, no divergence.
  2. `replace_first_match_groups`, `replace_groups`: `replace_all` NEVER fails on a well-formed
       replacement string and returns the input with every match of the state-free span sequence
       (`specSpans`: least start with a path, first path, continue from its end) replaced by the
       expansion of the replacement string (Spec/Repl, C15) in which `$N` is the text of `e' N`.
  3. `analyze_match_groups`, `analyze_groups`, `groupTree_text`, `groupTree_groups`, `groupTree_node`:
       in the state of a match `process_matching_substring` succeeds and returns EXACTLY
       `groupTree op input (j, n, e')` — the capture nodes of the pattern as `Group` nodes nested as in
       the pattern, spanning the texts of `e'`, non-empty text in between as `String` leaves (the tree
       builder `buildActions` / `walk` is verified for well-nested forests of spans, groups that
       captured the empty string included: Proofs/C03cTree); every `.ok` answer of `analyze` is the
       alternating entry list over the state-free span sequence with these trees.  The leaves
       concatenate to the matched text; there is exactly one `Group` node per group of the pattern (all
       participate on the fragment) and none for other numbers; the node of `(g, c)` has as children the
       group tree of `c` and its leaves concatenate to `input[a..b)`.
       Extra decidable hypotheses: groups numbered in order of their opening parentheses; the nesting
       table computed from the pattern text agrees with the tree (`tblOK`).
       NOT proved: that `analyze` always answers `.ok` (it is a hypothesis of `analyze_groups`;
       `replace_groups` does prove totality), and that the parser makes `tblOK` hold in general.
  4. examples on compiled programs (`(a)(b|c)\1`, `((a)b)\2\1`, `(a*)(b)\1` with an empty group).
-/
import RxModel.Proofs.C03cLemmas
import RxModel.Proofs.C03cTree
namespace Rx.C03c
open Rx

/-! ## 1. the search loop -/

/-- one `match_at(j)` from a good state: either a path starts at `j`, `match_at` succeeds and leaves
    the first path of the priority order; or no path starts at `j`, `match_at` fails and the state is
    good again (so the next attempt starts clear) -/
theorem matchAt_cases (ctx : Ctx) (op : Op) (hok : C03b.progOK ctx.hasBackrefs ctx.maxParens op = true)
    (j : Nat) (hj : j ≤ ctx.len) (st : St) (hst : Good op st) :
    (HasP ctx op j ∧ ∃ st' n e', matchAt ctx op j st = (true, st') ∧ MatchRes ctx op j n e' st') ∨
    (¬ HasP ctx op j ∧ ∃ st', matchAt ctx op j st = (false, st') ∧ Good op st') :=
  matchAt_casesP ctx op (.of_progOK hok) j hj st hst

/-- the candidate loop: it stops at the FIRST candidate from which a path exists -/
theorem tryCands_caps (ctx : Ctx) (op : Op) (hok : C03b.progOK ctx.hasBackrefs ctx.maxParens op = true)
    (cands : List Nat) (hb : ∀ j ∈ cands, j ≤ ctx.len) (st st' : St) (hst : Good op st)
    (h : tryCands ctx op cands st = (true, st')) :
    ∃ pre j post n e', cands = pre ++ j :: post ∧ (∀ k ∈ pre, ¬ HasP ctx op k) ∧
      MatchRes ctx op j n e' st' := by
  rcases tryCands_specP ctx op (.of_progOK hok) cands st hb hst with
    ⟨pre, j, post, _, st2, n, e', h1, h2, h3, _, h5⟩ | ⟨_, st2, h3, _⟩
  · rw [h] at h3
    simp only [Prod.mk.injEq, true_and] at h3
    subst h3
    exact ⟨pre, j, post, n, e', h1, h2, h5⟩
  · rw [h] at h3; cases h3

/-- **`matches(i)` reports the captures of the leftmost, first path.** -/
theorem matchesFrom_caps (pr : Prog) (lower : Nat → Nat) (input : List Nat) (S : SearchOK pr lower input)
    (i : Nat) (hi : i ≤ input.length) (st st' : St) (hst : st.panic = none)
    (h : matchesFrom (pr.ctx lower input) pr i st = (true, st')) :
    ∃ j n e', i ≤ j ∧ j < n ∧ n ≤ input.length ∧
      PathR (pr.ctx lower input) pr.op j CEnv.empty n e' ∧
      (enumC (pr.ctx lower input) pr.op j CEnv.empty).head? = some (n, e') ∧
      (∀ k, i ≤ k → k < j → ¬ ∃ n' e'', PathR (pr.ctx lower input) pr.op k CEnv.empty n' e'') ∧
      getParenStart st' 0 = some j ∧ getParenEnd st' 0 = some n ∧
      Repr (pr.ctx lower input) st' e' ∧ EnvIn e' j n ∧
      (∀ g, g ∈ capsOf pr.op ↔ (e' g).isSome = true) ∧
      (∀ g, getParen input st' g = grpOf input j n e' g) ∧ st'.panic = none := by
  have ho := S.outcome i hi st hst
  rw [h] at ho
  rcases ho with ⟨_, j, stj, n, e', h1, h2, h3, _, hres⟩ | ⟨hf, _⟩
  · simp only at hres
    have hjn := no_zero_path _ pr.op S.ok.straight S.no_empty_path j n e' h2 hres.path hres.le
    exact ⟨j, n, e', h1, hjn, hres.len, hres.path, hres.first, h3, hres.start0, hres.end0, hres.repr,
      hres.env, hres.dom, getParen_matchRes hres input, hres.clean⟩
  · cases hf

/-- `matches(i) = false`: no path starts at or after `i`; the state stays clean -/
theorem matchesFrom_caps_false (pr : Prog) (lower : Nat → Nat) (input : List Nat) (S : SearchOK pr lower input)
    (i : Nat) (hi : i ≤ input.length) (st st' : St) (hst : st.panic = none)
    (h : matchesFrom (pr.ctx lower input) pr i st = (false, st')) :
    (∀ j, i ≤ j → j ≤ input.length → ¬ ∃ n e', PathR (pr.ctx lower input) pr.op j CEnv.empty n e') ∧
    st'.panic = none := by
  have ho := S.outcome i hi st hst
  rw [h] at ho
  rcases ho with ⟨ht, _⟩ | ⟨_, hg, hno⟩
  · cases ht
  · exact ⟨hno, hg.2⟩

/-- the hypotheses, for a program built by `ReProgram::new` (`mkProgram`): the recorded facts come
    from `SearchComplete.mkProgram_searchFacts`; what is left is decidable -/
theorem searchOK_of_mkProgram (pat : List Nat) (op : Op) (mp : Nat) (fl : CFlags) (hb : Bool)
    (lower : Nat → Nat) (input : List Nat)
    (hwf : wfOp op = true) (hne : C08.noEmptyAtoms op = true) (hlen : input.length < usizeMax)
    (hok : C03b.progOK hb mp (mkProgram pat op mp fl hb).op = true)
    (hpres : ∀ q ∈ (mkProgram pat op mp fl hb).pres,
      SearchComplete.preShape q.op = true ∧ C06.simplePre q.op = true)
    (hnull : (mkProgram pat op mp fl hb).isMatch lower [] = .ok false) :
    SearchOK (mkProgram pat op mp fl hb) lower input := by
  obtain ⟨_, _, _, hhb, hmp, _⟩ := SearchComplete.mkProgram_shape pat op mp fl hb
  refine ⟨.of_progOK ?_, SearchComplete.mkProgram_searchFacts pat op mp fl hb lower input hwf hne hlen,
    SearchComplete.mkProgram_searchFacts pat op mp fl hb lower [] hwf hne (by decide), hpres, hlen, hnull⟩
  show C03b.progOK (mkProgram pat op mp fl hb).hasBackrefs (mkProgram pat op mp fl hb).maxParens _ = true
  rw [hhb, hmp]; exact hok

/-! ## 2. `replace_all` -/

/-- **one match.**  In the state of a match `(j, n, e')` the substitution yields the replacement string
    expanded as Spec/Repl prescribes, `$N` standing for the text of `e' N` (group 0 = the match; a
    group that did not participate, or a number above the number of groups, gives nothing) -/
theorem replace_first_match_groups (pr : Prog) (lower : Nat → Nat) (input repl : List Nat)
    (j n : Nat) (e' : CEnv) (st' : St)
    (h : MatchRes (pr.ctx lower input) pr.op j n e' st')
    (hmp : pr.maxParens ≠ 0) (hwf : Spec.wfRepl repl = true) :
    ∃ s', pr.subst input repl st' false =
      some ((Spec.expandSpec (pr.maxParens - 1) (grpOf input j n e') repl).getD [], s') := by
  obtain ⟨s', h1, _⟩ := subst_matchRes h repl hmp hwf false (fun hc => by cases hc)
  exact ⟨s', h1⟩

/-- **`replace_all`.**  For a regex that passes the nullability gate, a well-formed replacement string
    and a program without flag `q`: the call succeeds, and the result is the input with every match
    `(j, n, e')` of the span sequence replaced by the expansion in which `$N` is the text of `e' N` -/
theorem replace_groups (r : Regex) (lower : Nat → Nat) (input repl : List Nat)
    (S : SearchOK r.prog lower input) (hnull : r.nullable = false)
    (hmp : r.prog.maxParens ≠ 0) (hwf : Spec.wfRepl repl = true) (hlit : r.prog.literal = false) :
    r.replaceAll lower input repl =
      .ok (Spec.replaced input 0
        ((specSpans (r.prog.ctx lower input) r.prog.op (input.length + 2) 0).map
          (fun x => (x.1, x.2.1, replText r.prog input repl x)))) := by
  simp only [Regex.replaceAll, hnull, Bool.false_eq_true, if_false, replaceWith]
  have := replaceLoop_straight S repl hmp hwf hlit (input.length + 2) 0 {} true false [] rfl (Nat.zero_le _)
    (by omega) (fun _ => ⟨rfl, rfl⟩) (fun hc => by cases hc)
  simpa using this

/-- what the span sequence is: each element is the least start at or after the previous end from
    which a path exists, with the first path of the priority order -/
theorem specSpans_cons (ctx : Ctx) (op : Op) (f pos : Nat) (x : Nat × Nat × CEnv) (rest : List (Nat × Nat × CEnv))
    (h : specSpans ctx op (f + 1) pos = x :: rest) :
    pos < ctx.len ∧ firstMatch ctx op pos = some x ∧ rest = specSpans ctx op f x.2.1 := by
  unfold specSpans at h
  split at h
  · rename_i hlt
    split at h
    · rename_i j n e' heq
      simp only [List.cons.injEq] at h
      obtain ⟨rfl, rfl⟩ := h
      exact ⟨hlt, heq, rfl⟩
    · cases h
  · cases h

/-- `firstMatch`: the least start at or after `pos` from which a path exists, and the first path -/
theorem firstMatch_spec (ctx : Ctx) (op : Op) (hs : straightCaps op = true) (hwf : wfOp op = true)
    (pos j n : Nat) (e' : CEnv) (h : firstMatch ctx op pos = some (j, n, e')) :
    pos ≤ j ∧ j ≤ ctx.len ∧ (enumC ctx op j CEnv.empty).head? = some (n, e') ∧
    PathR ctx op j CEnv.empty n e' ∧ ∀ k, pos ≤ k → k < j → ¬ HasP ctx op k := by
  obtain ⟨h1, h2, h3, h4⟩ := firstFrom_sound ctx op _ pos j n e' h
  refine ⟨h1, h2, h3, ?_, fun k hk1 hk2 hp => ?_⟩
  · have hm : (n, e') ∈ enumC ctx op j CEnv.empty := by
      cases hl : enumC ctx op j CEnv.empty with
      | nil => rw [hl] at h3; cases h3
      | cons x l =>
        rw [hl] at h3
        simp only [List.head?_cons, Option.some.injEq] at h3
        subst h3; exact List.mem_cons_self
    exact (enumC_facts ctx j op hs hwf [] j CEnv.empty h2 (Nat.le_refl _) (EnvIn.empty _ _) (Dom.nil _) _ hm).path
  · have := (hasP_iff ctx op hs hwf k (by omega)).1 hp
    rw [h4 k hk1 hk2] at this
    cases this

/-! ## 3. `analyze`

  `groupTree op input (j, n, e')` (Proofs/C03cTree) is the tree the specification prescribes for a
  match: the capture nodes of the pattern as `Group` nodes, nested as in the pattern, each spanning the
  text of its group in `e'`, with the text in between as (non-empty) `String` leaves.

  Additional hypotheses, decidable: the groups are numbered in the order of their opening parentheses
  (`(capsOf op).Pairwise (· < ·)`), and the nesting table computed from the pattern TEXT
  (`nestingTable pattern`, consulted by the Rust only for groups that captured the empty string)
  agrees with the nesting of the compiled TREE (`tblOK`).  (That the parser guarantees this agreement
  is not proved here; the examples check it on compiled programs.) -/

/-- **one match**: in the state of a match `(j, n, e')`, `process_matching_substring` succeeds and
    returns exactly the group tree of `e'` -/
theorem analyze_match_groups (ctx : Ctx) (op : Op) (hok : C03b.progOK ctx.hasBackrefs ctx.maxParens op = true)
    (hsorted : (capsOf op).Pairwise (· < ·)) (tbl : List (Nat × Nat)) (htbl : tblOK tbl op 0 = true)
    (input : List Nat) (hin : ctx.len = input.length)
    (j n : Nat) (e' : CEnv) (st' : St) (h : MatchRes ctx op j n e' st') (hjn : j < n) :
    processMatch tbl st' (slice input j n) = .ok (groupTree op input (j, n, e')) :=
  processMatch_matchRes ctx op (.of_progOK hok) hsorted tbl htbl input hin j n e' st' h hjn

/-- **`analyze`**: the entries are the alternating non-match / match entries over the state-free span
    sequence, the match entry of `(j, n, e')` being the group tree of `e'`; the iterator is exhausted -/
theorem analyze_groups (r : Regex) (lower : Nat → Nat) (input : List Nat)
    (S : SearchOK r.prog lower input) (hnull : r.nullable = false)
    (hsorted : (capsOf r.prog.op).Pairwise (· < ·)) (tbl : List (Nat × Nat))
    (htblE : (if r.prog.literal then some [] else nestingTable r.prog.pattern) = some tbl)
    (htbl : tblOK tbl r.prog.op 0 = true)
    (limit : Nat) (hl : 2 * input.length + 1 ≤ limit) (es : List AEntry) (more : Bool)
    (h : r.analyze lower input limit = .ok (es, more)) :
    es = Spec.entries input 0
      ((specSpans (r.prog.ctx lower input) r.prog.op (input.length + 2) 0).map
        (fun y => (y.1, y.2.1, groupTree r.prog.op input y))) ∧ more = false := by
  simp only [Regex.analyze, hnull, Bool.false_eq_true, if_false, htblE] at h
  obtain ⟨h1, h2⟩ := C04.analyze_spec (r.prog.matcher lower input) (fun st => st.panic = none) input
    (processMatch tbl) S.goodFind {} rfl limit hl es more h
  refine ⟨?_, h2⟩
  rw [h1]
  congr 1
  exact spansOf_map S (fun st j n => C04.entryD (processMatch tbl) st (slice input j n))
    (groupTree r.prog.op input)
    (fun j n e' st' hres hjn => by
      simp only [C04.entryD]
      rw [processMatch_matchRes _ r.prog.op S.ok hsorted tbl htbl input rfl j n e' st' hres hjn])
    (input.length + 2) 0 {} rfl (Nat.zero_le _)

/-- reading the tree (1): the `String` leaves concatenate to the matched text -/
theorem groupTree_text (ctx : Ctx) (op : Op) (hs : straightCaps op = true) (hnd : (capsOf op).Nodup)
    (input : List Nat) (hin : ctx.len = input.length) (j n : Nat) (e' : CEnv)
    (hj : j ≤ ctx.len) (h : PathR ctx op j CEnv.empty n e') :
    Spec.mTextL (groupTree op input (j, n, e')) = slice input j n := by
  have hb := PathR_bounds ctx op hj h
  have hw := forestOf_within ctx e' j op hs j CEnv.empty n e' hj (Nat.le_refl _) h hnd (fun _ _ => rfl)
  rw [Nat.sub_self] at hw
  have hlen : (slice input j n).length = n - j := length_slice input j n (by rw [← hin]; exact hb.2)
  unfold groupTree
  rw [outF_text _ _ 0 (n - j) hw (by rw [hlen]; exact Nat.le_refl _), slice_slice input j n 0 (n - j) (by omega)]
  congr 1
  omega

/-- reading the tree (2): it has exactly one `Group` node for each group the path binds — the groups
    of the pattern, in the order of their opening parentheses — and none for any other number -/
theorem groupTree_groups (ctx : Ctx) (op : Op) (hs : straightCaps op = true)
    (input : List Nat) (j n : Nat) (e' : CEnv) (hj : j ≤ ctx.len) (h : PathR ctx op j CEnv.empty n e') :
    mGrpsL (groupTree op input (j, n, e')) = capsOf op := by
  unfold groupTree
  rw [outF_grps]
  apply forestOf_grps e' j op hs
  intro g hg
  obtain ⟨a, b, he, _⟩ := PathR_inside ctx op hs j CEnv.empty n e' hj h g hg
  rw [he]; rfl

/-- reading the tree (3): for every parenthesised sub-expression `(g, c)` of the pattern, bound to
    `(a, b)` in `e'`, the tree has the node `Group g kids` where `kids` is again the group tree of the
    body `c` over `[a, b)` (so nesting follows the pattern), and the leaves of that node concatenate to
    `input[a..b)` -/
theorem groupTree_node (ctx : Ctx) (op : Op) (hs : straightCaps op = true) (hnd : (capsOf op).Nodup)
    (input : List Nat) (hin : ctx.len = input.length) (j n : Nat) (e' : CEnv)
    (hj : j ≤ ctx.len) (h : PathR ctx op j CEnv.empty n e') (g : Nat) (c : Op) (hm : (g, c) ∈ capNodes op) :
    ∃ a b, e' g = some (a, b) ∧ j ≤ a ∧ a ≤ b ∧ b ≤ n ∧
      subL (.group g (outF (slice input j n) (a - j) (b - j) (forestOf e' j c))) (groupTree op input (j, n, e')) ∧
      Spec.mTextL (outF (slice input j n) (a - j) (b - j) (forestOf e' j c)) = slice input a b := by
  have hb := PathR_bounds ctx op hj h
  obtain ⟨a, b, ea, eb, h1, h2, h3, h4, h5⟩ := PathR_capNodes ctx op hs j CEnv.empty n e' hj hnd h g c hm
  obtain ⟨a2, b2, k1, _, k3, _⟩ := PathR_inside ctx op hs j CEnv.empty n e' hj h g (capNodes_sub op g c hm).1
  rw [h1] at k1
  simp only [Option.some.injEq, Prod.mk.injEq] at k1
  obtain ⟨rfl, rfl⟩ := k1
  have hdom : ∀ k ∈ capsOf op, (e' k).isSome = true := by
    intro k hk
    obtain ⟨a', b', he, _⟩ := PathR_inside ctx op hs j CEnv.empty n e' hj h k hk
    rw [he]; rfl
  have hnode := forestOf_node e' j op hdom g c a b hm h1
  have hsub := outF_sub (slice input j n) _ (forestOf e' j op) 0 (n - j) hnode
  have hsc := C03b.capNodes_straight op hs g c hm
  have hndc : (capsOf c).Nodup := by
    have hsubl := capNodes_sub op g c hm
    exact List.Nodup.sublist (capsOf_sublist op g c hm) hnd
  have hw := forestOf_within ctx e' j c hsc a ea b eb (by omega) h2 h4 hndc (fun k hk => h5 k hk)
  have hlen : (slice input j n).length = n - j := length_slice input j n (by rw [← hin]; exact hb.2)
  refine ⟨a, b, h1, h2, k3, h3, ?_, ?_⟩
  · simpa only [outT, groupTree] using hsub
  · rw [outF_text _ _ (a - j) (b - j) hw (by rw [hlen]; omega), slice_slice input j n (a - j) (b - j) (by omega)]
    congr 1 <;> omega

/-! ## 4. examples -/
section examples

private def env0 : Env :=
  { lower := id, closure := fun _ => [], category := fun _ => none, block := fun _ => none,
    digit := [], word := [], nameStart := [], nameChar := [] }

/-- `(a)(b|c)\1` -/
private def pat1 : List Nat := [40, 97, 41, 40, 98, 124, 99, 41, 92, 49]
private def t1 : Op :=
  .seq [.capture 1 (.atom [97]), .capture 2 (.choice [.atom [98], .atom [99]]), .backref 1, .endProgram]
def exProg1 : Prog := mkProgram pat1 t1 3 {} true
def exRegex1 : Regex := { prog := exProg1, nullable := false }

/-- this is the regex `Regex::new` builds from the pattern text -/
example : (match Regex.new env0 pat1 [] false with
    | .ok r => progEq r.prog exProg1 && (r.nullable == false)
    | _ => false) = true := by decide +kernel

theorem ex1_searchOK (input : List Nat) (hlen : input.length < usizeMax) : SearchOK exProg1 id input :=
  searchOK_of_mkProgram pat1 t1 3 {} true id input (by decide) (by decide) hlen (by decide +kernel)
    (by
      have h : (mkProgram pat1 t1 3 {} true).pres.all
          (fun q => SearchComplete.preShape q.op && C06.simplePre q.op) = true := by decide +kernel
      intro q hq
      have := List.all_eq_true.1 h q hq
      simpa only [Bool.and_eq_true] using this)
    (by decide +kernel)

/-- "xabaacay", replacement `[$2$1]` -/
private def in1 : List Nat := [120, 97, 98, 97, 97, 99, 97, 121]
private def repl1 : List Nat := [91, 36, 50, 36, 49, 93]

/-- the theorem applied … -/
theorem ex1_replace :
    exRegex1.replaceAll id in1 repl1 =
      .ok (Spec.replaced in1 0
        ((specSpans (exProg1.ctx id in1) exProg1.op (in1.length + 2) 0).map
          (fun x => (x.1, x.2.1, replText exProg1 in1 repl1 x)))) :=
  replace_groups exRegex1 id in1 repl1 (ex1_searchOK in1 (by decide)) rfl (by decide) (by decide) (by decide)

/-- … the span sequence it talks about: matches `aba` at 1 with `$1 = a`, `$2 = b`, and `aca` at 4 with
    `$1 = a`, `$2 = c` … -/
example : (specSpans (exProg1.ctx id in1) exProg1.op (in1.length + 2) 0).map
    (fun x => (x.1, x.2.1, x.2.2 1, x.2.2 2)) =
    [(1, 4, some (1, 2), some (2, 3)), (4, 7, some (4, 5), some (5, 6))] := by decide +kernel
/-- … the described result `x[ba][ca]y` … -/
example : Spec.replaced in1 0
    ((specSpans (exProg1.ctx id in1) exProg1.op (in1.length + 2) 0).map
      (fun x => (x.1, x.2.1, replText exProg1 in1 repl1 x))) =
    [120, 91, 98, 97, 93, 91, 99, 97, 93, 121] := by decide +kernel
/-- … and the computed answer of the model -/
example : exRegex1.replaceAll id in1 repl1 = .ok [120, 91, 98, 97, 93, 91, 99, 97, 93, 121] := by
  decide +kernel

/-! `analyze` on the same regex and input: `x`, match `aba`, match `aca`, `y` -/

private def tbl1 : List (Nat × Nat) := [(2, 0), (1, 0)]

private def expect1 : List AEntry :=
  [.nonMatch [120],
   .isMatch [.group 1 [.str [97]], .group 2 [.str [98]], .str [97]],
   .isMatch [.group 1 [.str [97]], .group 2 [.str [99]], .str [97]],
   .nonMatch [121]]

/-- the theorem applied: whatever `analyze` answers with `.ok` is the described entry list -/
theorem ex1_analyze (es : List AEntry) (more : Bool) (h : exRegex1.analyze id in1 100 = .ok (es, more)) :
    es = Spec.entries in1 0
      ((specSpans (exProg1.ctx id in1) exProg1.op (in1.length + 2) 0).map
        (fun y => (y.1, y.2.1, groupTree exProg1.op in1 y))) ∧ more = false :=
  analyze_groups exRegex1 id in1 (ex1_searchOK in1 (by decide)) rfl (by decide +kernel) tbl1
    (by decide +kernel) (by decide +kernel) 100 (by decide) es more h

/-- the described entry list, computed … -/
example : aEqL (Spec.entries in1 0
    ((specSpans (exProg1.ctx id in1) exProg1.op (in1.length + 2) 0).map
      (fun y => (y.1, y.2.1, groupTree exProg1.op in1 y)))) expect1 = true := by decide +kernel
/-- … and the computed answer of the model -/
example : (match exRegex1.analyze id in1 100 with
    | .ok (es, more) => aEqL es expect1 && !more
    | _ => false) = true := by decide +kernel

/-! `(a*)(b)\1` on "baabaab": in the first and the last match group 1 captured the EMPTY string (the
    nesting table is consulted); `((a)b)\2\1` on "abaab": nested groups -/

private def pat3 : List Nat := [40, 97, 42, 41, 40, 98, 41, 92, 49]
private def t3 : Op :=
  .seq [.capture 1 (.gfixed (.atom [97]) 0 usizeMax 1), .capture 2 (.atom [98]), .backref 1, .endProgram]
def exProg3 : Prog := mkProgram pat3 t3 3 {} true
def exRegex3 : Regex := { prog := exProg3, nullable := false }

example : (match Regex.new env0 pat3 [] false with
    | .ok r => progEq r.prog exProg3 && (r.nullable == false)
    | _ => false) = true := by decide +kernel

theorem ex3_searchOK (input : List Nat) (hlen : input.length < usizeMax) : SearchOK exProg3 id input :=
  searchOK_of_mkProgram pat3 t3 3 {} true id input (by decide) (by decide) hlen (by decide +kernel)
    (by
      have h : (mkProgram pat3 t3 3 {} true).pres.all
          (fun q => SearchComplete.preShape q.op && C06.simplePre q.op) = true := by decide +kernel
      intro q hq
      have := List.all_eq_true.1 h q hq
      simpa only [Bool.and_eq_true] using this)
    (by decide +kernel)

private def in3 : List Nat := [98, 97, 97, 98, 97, 97, 98]
private def repl3 : List Nat := [60, 36, 49, 124, 36, 50, 62]      -- `<$1|$2>`

private def expect3 : List AEntry :=
  [.isMatch [.group 1 [], .group 2 [.str [98]]],
   .isMatch [.group 1 [.str [97, 97]], .group 2 [.str [98]], .str [97, 97]],
   .isMatch [.group 1 [], .group 2 [.str [98]]]]

theorem ex3_analyze (es : List AEntry) (more : Bool) (h : exRegex3.analyze id in3 100 = .ok (es, more)) :
    es = Spec.entries in3 0
      ((specSpans (exProg3.ctx id in3) exProg3.op (in3.length + 2) 0).map
        (fun y => (y.1, y.2.1, groupTree exProg3.op in3 y))) ∧ more = false :=
  analyze_groups exRegex3 id in3 (ex3_searchOK in3 (by decide)) rfl (by decide +kernel) [(2, 0), (1, 0)]
    (by decide +kernel) (by decide +kernel) 100 (by decide) es more h

example : aEqL (Spec.entries in3 0
    ((specSpans (exProg3.ctx id in3) exProg3.op (in3.length + 2) 0).map
      (fun y => (y.1, y.2.1, groupTree exProg3.op in3 y)))) expect3 = true := by decide +kernel
example : (match exRegex3.analyze id in3 100 with
    | .ok (es, more) => aEqL es expect3 && !more
    | _ => false) = true := by decide +kernel

/-- `replace_all` with `<$1|$2>`: `<|b><aa|b><|b>` — `$1` is empty where group 1 captured "" -/
theorem ex3_replace :
    exRegex3.replaceAll id in3 repl3 =
      .ok (Spec.replaced in3 0
        ((specSpans (exProg3.ctx id in3) exProg3.op (in3.length + 2) 0).map
          (fun x => (x.1, x.2.1, replText exProg3 in3 repl3 x)))) :=
  replace_groups exRegex3 id in3 repl3 (ex3_searchOK in3 (by decide)) rfl (by decide) (by decide) (by decide)
example : Spec.replaced in3 0
    ((specSpans (exProg3.ctx id in3) exProg3.op (in3.length + 2) 0).map
      (fun x => (x.1, x.2.1, replText exProg3 in3 repl3 x))) =
    [60, 124, 98, 62, 60, 97, 97, 124, 98, 62, 60, 124, 98, 62] := by decide +kernel
example : exRegex3.replaceAll id in3 repl3 = .ok [60, 124, 98, 62, 60, 97, 97, 124, 98, 62, 60, 124, 98, 62] := by
  decide +kernel

private def pat2 : List Nat := [40, 40, 97, 41, 98, 41, 92, 50, 92, 49]
private def t2 : Op :=
  .seq [.capture 1 (.seq [.capture 2 (.atom [97]), .atom [98]]), .backref 2, .backref 1, .endProgram]
def exProg2 : Prog := mkProgram pat2 t2 3 {} true
def exRegex2 : Regex := { prog := exProg2, nullable := false }

example : (match Regex.new env0 pat2 [] false with
    | .ok r => progEq r.prog exProg2 && (r.nullable == false)
    | _ => false) = true := by decide +kernel

theorem ex2_searchOK (input : List Nat) (hlen : input.length < usizeMax) : SearchOK exProg2 id input :=
  searchOK_of_mkProgram pat2 t2 3 {} true id input (by decide) (by decide) hlen (by decide +kernel)
    (by
      have h : (mkProgram pat2 t2 3 {} true).pres.all
          (fun q => SearchComplete.preShape q.op && C06.simplePre q.op) = true := by decide +kernel
      intro q hq
      have := List.all_eq_true.1 h q hq
      simpa only [Bool.and_eq_true] using this)
    (by decide +kernel)

private def in2 : List Nat := [97, 98, 97, 97, 98, 45, 97, 98, 97, 97, 98]      -- "abaab-abaab"

private def expect2 : List AEntry :=
  [.isMatch [.group 1 [.group 2 [.str [97]], .str [98]], .str [97, 97, 98]],
   .nonMatch [45],
   .isMatch [.group 1 [.group 2 [.str [97]], .str [98]], .str [97, 97, 98]]]

theorem ex2_analyze (es : List AEntry) (more : Bool) (h : exRegex2.analyze id in2 100 = .ok (es, more)) :
    es = Spec.entries in2 0
      ((specSpans (exProg2.ctx id in2) exProg2.op (in2.length + 2) 0).map
        (fun y => (y.1, y.2.1, groupTree exProg2.op in2 y))) ∧ more = false :=
  analyze_groups exRegex2 id in2 (ex2_searchOK in2 (by decide)) rfl (by decide +kernel) [(2, 1), (1, 0)]
    (by decide +kernel) (by decide +kernel) 100 (by decide) es more h

example : aEqL (Spec.entries in2 0
    ((specSpans (exProg2.ctx id in2) exProg2.op (in2.length + 2) 0).map
      (fun y => (y.1, y.2.1, groupTree exProg2.op in2 y)))) expect2 = true := by decide +kernel
example : (match exRegex2.analyze id in2 100 with
    | .ok (es, more) => aEqL es expect2 && !more
    | _ => false) = true := by decide +kernel

end examples

end Rx.C03c
