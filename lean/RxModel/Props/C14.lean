/-
  Props/C14 — flag x ignores pattern whitespace outside character classes.

  `compileProg` applies `stripWs` and then calls `compileCore` with `Flags.core`, which has no
  field for x: no function after the pre-pass can read the flag (by typing).  So a regex compiled
  with x *is* the regex compiled from the stripped pattern — same program or same error.
-/
import RxModel.Model.Compile
import RxModel.Proofs.MiscLemmas
namespace Rx.C14
open Rx

def isXsdWs (c : Nat) : Bool := c == 9 || c == 10 || c == 13 || c == 32

/-- compiling with x = compiling the stripped pattern without x: same program, same error -/
theorem x_only_strips (env : Env) (fl : Flags) (hx : fl.allowWs = true) (hq : fl.literal = false)
    (p : List Nat) (opt : Bool) :
    compileProg env fl p opt = compileProg env { fl with allowWs := false } (stripWs p 0 false) opt := by
  simp [compileProg, Flags.core, hx, hq]

/-- … also for the whole constructor (incl. the nullability bit) -/
theorem new_x_only_strips (env : Env) (fl fl' : Flags) (fs fs' : List Nat) (xsd : Bool)
    (h1 : parseFlags fs xsd = some fl) (h2 : parseFlags fs' xsd = some fl')
    (hx : fl.allowWs = true) (hq : fl.literal = false) (hsame : fl' = { fl with allowWs := false })
    (p : List Nat) (opt : Bool) :
    Regex.new env p fs xsd opt = Regex.new env (stripWs p 0 false) fs' xsd opt := by
  subst hsame
  simp only [Regex.new, h1, h2, x_only_strips env fl hx hq p opt]

/-- with q the flag x has no effect -/
theorem q_ignores_x (env : Env) (fl : Flags) (hq : fl.literal = true) (p : List Nat) (opt : Bool) :
    compileProg env fl p opt = compileProg env { fl with allowWs := false } p opt := by
  simp [compileProg, Flags.core, hq]

/-- only the four whitespace characters are ever removed -/
theorem strip_removes_only_ws (p : List Nat) (n : Int) (e : Bool) :
    (stripWs p n e).filter (fun c => !isXsdWs c) = p.filter (fun c => !isXsdWs c) :=
  stripWs_filter p n e

/-- the result is a sublist of the pattern (order kept, nothing added) -/
theorem strip_sublist (p : List Nat) (n : Int) (e : Bool) : (stripWs p n e).Sublist p :=
  stripWs_sublist p n e

/-- a pattern without any of the four characters is left alone -/
theorem strip_id (p : List Nat) (h : p.all (fun c => !isXsdWs c) = true) (n : Int) (e : Bool) :
    stripWs p n e = p :=
  stripWs_id p h n e

/-- outside brackets (depth 0, after a non-escape) whitespace is dropped … -/
theorem strip_ws_outside (c : Nat) (hc : isXsdWs c = true) (rest : List Nat) (e : Bool) :
    stripWs (c :: rest) 0 e = stripWs rest 0 e := by
  have h := stripWs_ws_not_special c hc
  have hc' : (c == 9 || c == 10 || c == 13 || c == 32) = true := hc
  rw [stripWs_cons]
  simp [h.1, h.2.1, h.2.2, hc']

/-- … inside brackets it is kept (and resets the escape state) -/
theorem strip_ws_inside (c : Nat) (hc : isXsdWs c = true) (rest : List Nat) (n : Int) (hn : n ≠ 0) (e : Bool) :
    stripWs (c :: rest) n e = c :: stripWs rest n false := by
  have h := stripWs_ws_not_special c hc
  rw [stripWs_cons]
  simp [h.1, h.2.1, h.2.2, hn]

/-- a character that is neither whitespace, bracket nor backslash is kept at every depth -/
theorem strip_other (c : Nat) (hc : isXsdWs c = false) (h1 : c ≠ 92) (h2 : c ≠ 91) (h3 : c ≠ 93)
    (rest : List Nat) (n : Int) (e : Bool) :
    stripWs (c :: rest) n e = c :: stripWs rest n false := by
  have hc' : (c == 9 || c == 10 || c == 13 || c == 32) = false := hc
  rw [stripWs_cons]
  simp [h1, h2, h3, hc']

/-- stripping is idempotent -/
theorem strip_idempotent (p : List Nat) : stripWs (stripWs p 0 false) 0 false = stripWs p 0 false :=
  stripWs_idem p 0 false

example : stripWs [97, 32, 91, 32, 93, 9, 98, 92, 32, 99] 0 false = [97, 91, 32, 93, 98, 92, 99] := by decide

end Rx.C14
