/-
  Props/C04 — replace_all, tokenize and analyze partition the input consistently.

  The three scan loops of Model/Scan are *the* definitions the driver executes (instantiated with
  the concrete matcher in Model/Api).  Every theorem here holds for an arbitrary matcher `M` whose
  `find` reports non-empty spans at or after the requested position (`GoodFind`); that hypothesis
  is what C16 + C02 establish for the concrete matcher of a non-nullable regex.

  "All three APIs are driven by one and the same sequence of match spans": each loop is shown
  equal to a specification function (Spec/Pieces) of the *same* list `spansOf M len fuel 0 st₀`.
-/
import RxModel.Spec.Pieces
import RxModel.Props.C04Defs
import RxModel.Proofs.ScanLemmas
/-
  The definitions `GoodFind`, `spansOf`, `spanPairs`, `entryD`, `Ordered` live (unchanged) in
  Props/C04Defs; the generalised loop invariants are in Proofs/ScanLemmas.
-/
namespace Rx.C04
open Rx Rx.Spec
variable {σ : Type}

/-! ### the span sequence is strictly left to right, non-empty, inside the input -/

theorem spans_ordered (M : MatcherI σ) (len : Nat) (Inv : σ → Prop) (hM : GoodFind M len Inv)
    (hfail : ∀ st pos, M.failed (M.find st pos).2 = none)
    (fuel pos : Nat) (st : σ) (h0 : Inv st) (hp : pos ≤ len) :
    Ordered len pos (spanPairs (spansOf M len fuel pos st)) := by
  exact spansOf_ordered M len Inv hM hfail fuel pos st h0 hp

theorem spans_count (M : MatcherI σ) (len : Nat) (Inv : σ → Prop) (hM : GoodFind M len Inv)
    (hfail : ∀ st pos, M.failed (M.find st pos).2 = none)
    (fuel pos : Nat) (st : σ) (h0 : Inv st) (hp : pos ≤ len) :
    (spansOf M len fuel pos st).length ≤ len - pos := by
  have := ordered_length len _ pos hp (spansOf_ordered M len Inv hM hfail fuel pos st h0 hp)
  rwa [spanPairs_length] at this

/-! ### replace -/

/-- `replace` is the input with every span of the common span sequence replaced by the text the
    substitution yields in the state of that match -/
theorem replace_spec (M : MatcherI σ) (Inv : σ → Prop) (input : List Nat) (lit : Bool)
    (subst : Subst σ) (txt : σ → List Nat)
    (hM : GoodFind M input.length Inv)
    (hsub : ∀ st simple, Inv st → ∃ s', subst st simple = some (txt st, s'))
    (st0 : σ) (h0 : Inv st0) (r : List Nat)
    (hr : replaceWith M subst input lit st0 = .ok r) :
    r = replaced input 0
          ((spansOf M input.length (input.length + 2) 0 st0).map (fun x => (x.1, x.2.1, txt x.2.2))) := by
  have := (replaceLoop_ok M Inv input lit subst txt hM
    (fun st simple _ _ hI _ _ => hsub st simple hI) _ (input.length + 2) 0 st0 true false [] r
    h0 (by omega) (by omega) (by simp) hr).1
  simpa using this

/-- replacement `$0` (the substitution yields the matched text): the input comes back unchanged -/
theorem replace_dollar0 (M : MatcherI σ) (Inv : σ → Prop) (input : List Nat) (lit : Bool)
    (subst : Subst σ)
    (hM : GoodFind M input.length Inv)
    (hsub : ∀ st simple a b, Inv st → M.start0 st = some a → M.end0 st = some b →
              ∃ s', subst st simple = some (slice input a b, s'))
    (st0 : σ) (h0 : Inv st0) (r : List Nat)
    (hr : replaceWith M subst input lit st0 = .ok r) :
    r = input := by
  let txt : σ → List Nat := fun st => slice input ((M.start0 st).getD 0) ((M.end0 st).getD 0)
  obtain ⟨h1, h2⟩ := replaceLoop_ok M Inv input lit subst txt hM
    (fun st simple a b hI ha hb => by
      obtain ⟨s', hs⟩ := hsub st simple a b hI ha hb
      exact ⟨s', by simp [txt, ha, hb, hs]⟩)
    _ (input.length + 2) 0 st0 true false [] r h0 (by omega) (by omega) (by simp) hr
  rw [replaced_self input input.length txt _ 0 h2 (fun x hx => by
      obtain ⟨ha, hb⟩ := spansOf_mem M _ _ _ _ x hx
      simp [txt, ha, hb])] at h1
  simpa using h1

/-- a replacement that is used verbatim: the result is the tokens joined by it -/
theorem replace_plain (M : MatcherI σ) (Inv : σ → Prop) (input : List Nat) (lit : Bool)
    (subst : Subst σ) (R : List Nat)
    (hM : GoodFind M input.length Inv)
    (hsub : ∀ st simple, Inv st → ∃ s', subst st simple = some (R, s'))
    (st0 : σ) (h0 : Inv st0) (r : List Nat)
    (hr : replaceWith M subst input lit st0 = .ok r) :
    r = joinWith R (pieces input 0 (spanPairs (spansOf M input.length (input.length + 2) 0 st0))) := by
  have := (replaceLoop_ok M Inv input lit subst (fun _ => R) hM
    (fun st simple _ _ hI _ _ => hsub st simple hI) _ (input.length + 2) 0 st0 true false [] r
    h0 (by omega) (by omega) (by simp) hr).1
  rw [replaced_const] at this
  simpa using this

/-- `replace` never runs out of fuel by itself: `.diverge` only if the matcher reports it -/
theorem replace_fuel (M : MatcherI σ) (Inv : σ → Prop) (input : List Nat) (lit : Bool)
    (subst : Subst σ)
    (hM : GoodFind M input.length Inv)
    (hfail : ∀ st pos, M.failed (M.find st pos).2 = none)
    (st0 : σ) (h0 : Inv st0) :
    replaceWith M subst input lit st0 ≠ .diverge := by
  exact replaceLoop_ne_diverge M Inv input lit subst hM hfail _ 0 st0 true false [] h0
    (by omega) (by omega)

/-! ### tokenize -/

/-- the tokens are exactly the pieces between the spans of the common span sequence (including
    empty leading / trailing / adjacent pieces), and then the iterator is exhausted -/
theorem tokenize_spec (M : MatcherI σ) (Inv : σ → Prop) (input : List Nat)
    (hM : GoodFind M input.length Inv)
    (st0 : σ) (h0 : Inv st0) (limit : Nat) (hl : input.length + 1 ≤ limit)
    (toks : List (List Nat)) (more : Bool)
    (h : tokenLoop M input limit (some 0) st0 [] = .ok (toks, more)) :
    toks = pieces input 0 (spanPairs (spansOf M input.length (input.length + 2) 0 st0)) ∧ more = false := by
  obtain ⟨h1, h2, _⟩ := tokenLoop_ok M Inv input hM limit (input.length + 2) 0 st0 [] toks more
    h0 (by omega) (by omega) (by omega) h
  exact ⟨by simpa using h1, h2⟩

/-- at most `len + 1` tokens -/
theorem tokenize_bound (M : MatcherI σ) (Inv : σ → Prop) (input : List Nat)
    (hM : GoodFind M input.length Inv)
    (st0 : σ) (h0 : Inv st0) (limit : Nat)
    (toks : List (List Nat)) (more : Bool)
    (h : tokenLoop M input limit (some 0) st0 [] = .ok (toks, more)) :
    toks.length ≤ input.length + 1 := by
  by_cases hl : input.length + 1 ≤ limit
  · obtain ⟨h1, _, h3⟩ := tokenLoop_ok M Inv input hM limit (input.length + 2) 0 st0 [] toks more
      h0 (by omega) (by omega) (by omega) h
    have := ordered_length _ _ 0 (by omega) h3
    rw [h1]; simp only [List.nil_append, pieces_length]; omega
  · have := tokenLoop_length M input limit _ _ _ _ _ h
    simp at this; omega

/-- after exhaustion `next` keeps returning `None` -/
theorem token_none_stays (M : MatcherI σ) (input : List Nat) (st : σ) :
    tokenNext M input none st = (.ok none, none, st) := by
  rfl

/-! ### analyze -/

/-- the analyze entries are the alternating non-match / match entries over the common span
    sequence, and then the iterator is exhausted -/
theorem analyze_spec (M : MatcherI σ) (Inv : σ → Prop) (input : List Nat)
    (entry : σ → List Nat → Out (List MEntry))
    (hM : GoodFind M input.length Inv)
    (st0 : σ) (h0 : Inv st0) (limit : Nat) (hl : 2 * input.length + 1 ≤ limit)
    (es : List AEntry) (more : Bool)
    (h : analyzeLoop M entry input limit { st := st0 } [] = .ok (es, more)) :
    es = entries input 0
          ((spansOf M input.length (input.length + 2) 0 st0).map
            (fun x => (x.1, x.2.1, entryD entry x.2.2 (slice input x.1 x.2.1)))) ∧ more = false := by
  obtain ⟨h1, h2, _, _⟩ := (analyzeLoop_ok M Inv input entry hM limit).1 (input.length + 2) 0 st0
    [] es more h0 (by omega) (by omega) (by omega) h
  exact ⟨by simpa using h1, h2⟩

/-- the texts of all analyze entries, concatenated in order, are the input -/
theorem analyze_concat (M : MatcherI σ) (Inv : σ → Prop) (input : List Nat)
    (entry : σ → List Nat → Out (List MEntry))
    (hM : GoodFind M input.length Inv)
    (hentry : ∀ st t es, entry st t = .ok es → mTextL es = t)
    (st0 : σ) (h0 : Inv st0) (limit : Nat) (hl : 2 * input.length + 1 ≤ limit)
    (es : List AEntry) (more : Bool)
    (h : analyzeLoop M entry input limit { st := st0 } [] = .ok (es, more)) :
    aTextL es = input := by
  obtain ⟨h1, _, h3, h4⟩ := (analyzeLoop_ok M Inv input entry hM limit).1 (input.length + 2) 0 st0
    [] es more h0 (by omega) (by omega) (by omega) h
  rw [h1, List.nil_append, entries_text input entry hentry _ 0 h3 h4]; simp

/-- at most `2 * len + 1` entries -/
theorem analyze_bound (M : MatcherI σ) (Inv : σ → Prop) (input : List Nat)
    (entry : σ → List Nat → Out (List MEntry))
    (hM : GoodFind M input.length Inv)
    (st0 : σ) (h0 : Inv st0) (limit : Nat)
    (es : List AEntry) (more : Bool)
    (h : analyzeLoop M entry input limit { st := st0 } [] = .ok (es, more)) :
    es.length ≤ 2 * input.length + 1 := by
  by_cases hl : 2 * input.length + 1 ≤ limit
  · obtain ⟨h1, _, h3, _⟩ := (analyzeLoop_ok M Inv input entry hM limit).1 (input.length + 2) 0 st0
      [] es more h0 (by omega) (by omega) (by omega) h
    have := entries_length input entry _ 0 (by omega) h3
    rw [h1, List.nil_append]; omega
  · have := analyzeLoop_length M entry input limit _ _ _ _ h
    simp at this; omega

/-! ### non-vacuity: a concrete matcher satisfying `GoodFind` with two spans -/

/-- finds the literal 7 (one character) — state is unused -/
def demoM : MatcherI (Option (Nat × Nat)) :=
  { find := fun _ pos =>
      let input := [7, 1, 7, 2]
      match (List.range input.length).find? (fun j => decide (j ≥ pos) && input[j]? == some 7) with
      | some j => (true, some (j, j + 1))
      | none => (false, none),
    start0 := fun st => st.map (·.1),
    end0 := fun st => st.map (·.2),
    failed := fun _ => none }

example : spanPairs (spansOf demoM 4 6 0 none) = [(0, 1), (2, 3)] := by decide
example : tokenLoop demoM [7, 1, 7, 2] 10 (some 0) none [] = .ok ([[], [1], [2]], false) := by decide

end Rx.C04
