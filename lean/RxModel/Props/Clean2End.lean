/-
  Props/Clean2End — the optimised program and the UN-optimised program report the same END.

  `compileCore … true` runs `mkProgram pat (optimize env fl op) …`, the verification hook
  (`compileCore … false`) runs `mkBareProgram pat op …`; the first tree has `.unamb x mn mx` where the
  second has `gfixed` / `rfixed x mn mx`.  Props/Clean2Complete proves: same Boolean, same start.
  Here, for clean parser trees (`cleanOp`, `wfOp`, `seqGe2`, `endTop`, no empty literal, canonical classes):

    * `optimize_enum_eq`    on a tree without EndProgram the two enumerations are EQUAL AS LISTS:
                            `enum2 ctx (optimize env fl op) p = enum ctx op p`.
      (At a justified `.unamb` the un-optimised repeat lists the ends of all feasible counts, but by
      `C08.disjoint_maxmunch_wf` every count except the maximal one is followed by nothing.)
    * `optimize_enum_head`  on a whole program (root sequence closed by EndProgram) they have the same
                            HEAD — only the head: `a*` on "aa" gives [2] optimised and [2,1,0] un-optimised.
    * `clean2_opt_eq_unopt_full`  hence optimised program and bare un-optimised program agree on the
                            Boolean, the start AND the end of group 0.
-/
import RxModel.Props.Clean2Opt
import RxModel.Props.Clean2Complete
namespace Rx.Clean2End
open Rx Rx.Clean2Opt Rx.SearchComplete
open Rx.OptL (seqElem optimizeSeq_cons2)
open Rx.C08 (noEmptyAtoms noEmptyAtomsL clsCanon clsCanonL)

/-! ### lists -/

theorem flatMap_congr' {l : List Nat} {f g : Nat → List Nat} (h : ∀ x, x ∈ l → f x = g x) :
    l.flatMap f = l.flatMap g := by
  induction l with
  | nil => rfl
  | cons a l ih =>
    rw [List.flatMap_cons, List.flatMap_cons, h a List.mem_cons_self,
      ih (fun x hx => h x (List.mem_cons_of_mem _ hx))]

theorem flatMap_nil_of {l : List Nat} {T : Nat → List Nat} (h : ∀ x, x ∈ l → T x = []) :
    l.flatMap T = [] := List.flatMap_eq_nil_iff.2 h

theorem flatMap_support {l : List Nat} {T : Nat → List Nat} {a : Nat} (hnd : l.Nodup)
    (hz : ∀ x, x ∈ l → x ≠ a → T x = []) (ha : a ∈ l) : l.flatMap T = T a := by
  induction l with
  | nil => cases ha
  | cons x l ih =>
    rw [List.nodup_cons] at hnd
    rw [List.flatMap_cons]
    by_cases hxa : x = a
    · subst hxa
      rw [flatMap_nil_of (fun y hy => hz y (List.mem_cons_of_mem _ hy) (fun h => hnd.1 (h ▸ hy))),
        List.append_nil]
    · rw [hz x List.mem_cons_self hxa, List.nil_append]
      rcases List.mem_cons.1 ha with h | h
      · exact absurd h.symm hxa
      · exact ih hnd.2 (fun y hy => hz y (List.mem_cons_of_mem _ hy)) h

theorem flatMap_head_congr {l : List Nat} {f g : Nat → List Nat}
    (h : ∀ x, x ∈ l → (f x).head? = (g x).head?) : (l.flatMap f).head? = (l.flatMap g).head? := by
  induction l with
  | nil => rfl
  | cons a l ih =>
    rw [List.flatMap_cons, List.flatMap_cons]
    have ha := h a List.mem_cons_self
    cases hf : f a with
    | nil =>
      rw [hf] at ha
      have hg : g a = [] := List.head?_eq_none_iff.1 ha.symm
      rw [hg, List.nil_append, List.nil_append]
      exact ih (fun x hx => h x (List.mem_cons_of_mem _ hx))
    | cons y t =>
      rw [hf] at ha
      cases hg : g a with
      | nil => rw [hg] at ha; cases ha
      | cons y' t' =>
        rw [hg] at ha
        simp only [List.head?_cons, Option.some.injEq] at ha
        subst ha
        rfl

/-! ### the two quantifier enumerations: progress, no repetition, congruence, head -/

/-- the body enumeration makes progress inside the input -/
def Progress (e : Nat → List Nat) (L : Nat) : Prop := ∀ q, q ≤ L → ∀ n, n ∈ e q → q < n ∧ n ≤ L

theorem prog_of_fixedBody {child : Gen} {e : Nat → List Nat} {len L : Nat} (hb : FixedBody child e len L) :
    Progress e L := by
  intro q hq n hn
  have := hb.fixed q hq n hn
  have := hb.pos
  omega

theorem single_ok (p : Nat) : (∀ x, x ∈ [p] → p ≤ x) ∧ [p].Nodup :=
  ⟨fun x hx => (by rw [List.mem_singleton.1 hx]; exact Nat.le_refl _), by simp⟩

theorem nil_ok (p : Nat) : (∀ x, x ∈ ([] : List Nat) → p ≤ x) ∧ ([] : List Nat).Nodup :=
  ⟨fun x hx => (by cases hx), List.nodup_nil⟩

theorem greedyIter_nodup {e : Nat → List Nat} {L : Nat} (hp : Progress e L) (mn : Nat) :
    ∀ b k p, p ≤ L → (∀ x, x ∈ greedyIter e mn b k p → p ≤ x) ∧ (greedyIter e mn b k p).Nodup := by
  intro b
  induction b with
  | zero =>
    intro k p _
    simp only [greedyIter]
    split
    · exact single_ok p
    · exact nil_ok p
  | succ b ih =>
    intro k p hpL
    simp only [greedyIter]
    cases hl : e p with
    | nil =>
      simp only [List.nil_append]
      split
      · exact single_ok p
      · exact nil_ok p
    | cons q t =>
      obtain ⟨hq1, hq2⟩ := hp p hpL q (by rw [hl]; exact List.mem_cons_self)
      obtain ⟨i1, i2⟩ := ih (k + 1) q hq2
      simp only
      split
      · refine ⟨fun x hx => ?_, ?_⟩
        · rcases List.mem_append.1 hx with h | h
          · have := i1 x h; omega
          · rw [List.mem_singleton.1 h]; exact Nat.le_refl _
        · rw [List.nodup_append]
          refine ⟨i2, (single_ok p).2, fun a ha b hb => ?_⟩
          rw [List.mem_singleton.1 hb]
          have := i1 a ha; omega
      · rw [List.append_nil]
        exact ⟨fun x hx => (by have := i1 x hx; omega), i2⟩

theorem reluctIter_nodup {e : Nat → List Nat} {L : Nat} (hp : Progress e L) (mn : Nat) :
    ∀ b k p, p ≤ L → (∀ x, x ∈ reluctIter e mn b k p → p ≤ x) ∧ (reluctIter e mn b k p).Nodup := by
  intro b
  induction b with
  | zero =>
    intro k p _
    simp only [reluctIter]
    split
    · exact single_ok p
    · exact nil_ok p
  | succ b ih =>
    intro k p hpL
    simp only [reluctIter]
    cases hl : e p with
    | nil =>
      simp only [List.append_nil]
      split
      · exact single_ok p
      · exact nil_ok p
    | cons q t =>
      obtain ⟨hq1, hq2⟩ := hp p hpL q (by rw [hl]; exact List.mem_cons_self)
      obtain ⟨i1, i2⟩ := ih (k + 1) q hq2
      simp only
      split
      · refine ⟨fun x hx => ?_, ?_⟩
        · rcases List.mem_append.1 hx with h | h
          · rw [List.mem_singleton.1 h]; exact Nat.le_refl _
          · have := i1 x h; omega
        · rw [List.nodup_append]
          refine ⟨(single_ok p).2, i2, fun a ha b hb => ?_⟩
          rw [List.mem_singleton.1 ha]
          have := i1 b hb; omega
      · rw [List.nil_append]
        exact ⟨fun x hx => (by have := i1 x hx; omega), i2⟩

theorem greedyIter_congr {e e' : Nat → List Nat} {L : Nat} (hp : Progress e L)
    (he : ∀ q, q ≤ L → e' q = e q) (mn : Nat) :
    ∀ b k p, p ≤ L → greedyIter e' mn b k p = greedyIter e mn b k p := by
  intro b
  induction b with
  | zero => intro k p _; simp only [greedyIter]
  | succ b ih =>
    intro k p hpL
    simp only [greedyIter]
    rw [he p hpL]
    cases hl : e p with
    | nil => rfl
    | cons q t =>
      simp only
      rw [ih (k + 1) q (hp p hpL q (by rw [hl]; exact List.mem_cons_self)).2]

theorem reluctIter_congr {e e' : Nat → List Nat} {L : Nat} (hp : Progress e L)
    (he : ∀ q, q ≤ L → e' q = e q) (mn : Nat) :
    ∀ b k p, p ≤ L → reluctIter e' mn b k p = reluctIter e mn b k p := by
  intro b
  induction b with
  | zero => intro k p _; simp only [reluctIter]
  | succ b ih =>
    intro k p hpL
    simp only [reluctIter]
    rw [he p hpL]
    cases hl : e p with
    | nil => rfl
    | cons q t =>
      simp only
      rw [ih (k + 1) q (hp p hpL q (by rw [hl]; exact List.mem_cons_self)).2]

theorem munch_congr {e e' : Nat → List Nat} {L : Nat} (hp : Progress e L)
    (he : ∀ q, q ≤ L → e' q = e q) : ∀ b p, p ≤ L → munch e' b p = munch e b p := by
  intro b
  induction b with
  | zero => intro p _; rfl
  | succ b ih =>
    intro p hpL
    simp only [munch]
    rw [he p hpL]
    cases hl : e p with
    | nil => rfl
    | cons q t =>
      simp only
      rw [ih q (hp p hpL q (by rw [hl]; exact List.mem_cons_self)).2]

/-- the first element of the greedy enumeration is the end of the maximal run -/
theorem greedyIter_head (e : Nat → List Nat) (mn : Nat) : ∀ b k p,
    (greedyIter e mn b k p).head? =
      if mn ≤ k + (munch e b p).1 then some (munch e b p).2 else none := by
  intro b
  induction b with
  | zero =>
    intro k p
    simp only [greedyIter, munch, Nat.add_zero]
    by_cases h : mn ≤ k <;> simp [h]
  | succ b ih =>
    intro k p
    cases hl : e p with
    | nil =>
      simp only [greedyIter, munch, hl, List.nil_append, Nat.add_zero]
      by_cases h : mn ≤ k <;> simp [h]
    | cons q t =>
      simp only [greedyIter, munch, hl]
      have h := ih (k + 1) q
      by_cases hm : mn ≤ k + 1 + (munch e b q).1
      · rw [if_pos hm] at h
        have e1 : mn ≤ k + ((munch e b q).1 + 1) := by omega
        rw [if_pos e1]
        cases hg : greedyIter e mn b (k + 1) q with
        | nil => rw [hg] at h; cases h
        | cons y r =>
          rw [hg] at h
          simp only [List.head?_cons, Option.some.injEq] at h
          subst h
          rfl
      · rw [if_neg hm] at h
        have e2 : ¬ mn ≤ k + ((munch e b q).1 + 1) := by omega
        have e3 : ¬ mn ≤ k := by omega
        rw [if_neg e2, List.head?_eq_none_iff.1 h, if_neg e3]
        rfl

/-! ### the setting -/

/-- the data and the context they are used with -/
structure Setting (env : Env) (fl : CFlags) (ctx : Ctx) : Prop where
  ok : InputOK env ctx
  hcb : ctx.caseBlind = fl.caseBlind
  hml : ctx.multiLine = fl.multiLine

/-- the hypotheses on an un-optimised tree -/
structure TreeOK (op : Op) : Prop where
  clean : cleanOp op = true
  wf : wfOp op = true
  ge2 : seqGe2 op = true
  ne : noEmptyAtoms op = true
  can : clsCanonB op = true

structure ListOK (l : List Op) : Prop where
  clean : cleanOps l = true
  wf : wfOps l = true
  ge2 : seqGe2L l = true
  ne : noEmptyAtomsL l = true
  can : clsCanonBL l = true

theorem ListOK.head {o : Op} {l : List Op} (h : ListOK (o :: l)) : TreeOK o := by
  obtain ⟨a, b, c, d, e⟩ := h
  simp only [cleanOps, wfOps, seqGe2L, noEmptyAtomsL, clsCanonBL, Bool.and_eq_true] at a b c d e
  exact ⟨a.1, b.1, c.1, d.1, e.1⟩

theorem ListOK.tail {o : Op} {l : List Op} (h : ListOK (o :: l)) : ListOK l := by
  obtain ⟨a, b, c, d, e⟩ := h
  simp only [cleanOps, wfOps, seqGe2L, noEmptyAtomsL, clsCanonBL, Bool.and_eq_true] at a b c d e
  exact ⟨a.2, b.2, c.2, d.2, e.2⟩

/-- a (non-empty) list of sequence elements as a sequence -/
theorem ListOK.seq {l : List Op} (h : ListOK l) (hne : l ≠ []) : cleanOp (.seq l) = true ∧ wfOp (.seq l) = true := by
  refine ⟨by simp only [cleanOp]; exact h.clean, ?_⟩
  simp only [wfOp, Bool.and_eq_true, Bool.not_eq_true', List.isEmpty_eq_false_iff]
  exact ⟨hne, h.wf⟩

/-- the optimised followers keep every side condition -/
theorem optSeq_facts (env : Env) (fl : CFlags) (l : List Op) (h : ListOK l) :
    wfOps (optimizeSeq env fl l) = true ∧ noEmptyAtomsL (optimizeSeq env fl l) = true ∧
    clsCanonL (optimizeSeq env fl l) :=
  ⟨(WF.wm_optimizeSeq env fl l h.wf).1, optimizeSeq_NE env fl l h.ne,
    clsCanonL_of_B _ (optimizeSeq_clsCanonB env fl l h.can)⟩

/-! ### one `.unamb` element against the repeat it replaces -/

/-- `o` is the repeat (`gfixed` / `rfixed`) that `.unamb child mn mx` replaces; `R` / `R'` are the
    un-optimised / optimised followers; `T` enumerates `R`.  Unless the justification is the closing
    EndProgram, the ends of `o` other than the maximal-munch end are followed by nothing. -/
theorem unamb_vs_iter (env : Env) (ctx : Ctx) (hI : InputOK env ctx) (top : Bool)
    (o child : Op) (mn mx : Nat) (R R' : List Op) (p : Nat) (hp : p ≤ ctx.len)
    (hco : cleanOp o = true) (hwo : wfOp o = true)
    (hlang : ∀ x, OpR ctx (.unamb child mn mx) p x ↔ OpR ctx o p x)
    (hnd : (enum ctx o p).Nodup)
    (hwU : wfOp (.unamb child mn mx) = true)
    (hcl : cleanOp2F env ctx.caseBlind ctx.multiLine top R' (.unamb child mn mx) = true)
    (hnot : ¬ (R' = [.endProgram] ∧ top = true))
    (hnx : noEmptyAtoms child = true) (hcx : clsCanon child)
    (hwR : wfOps R' = true) (hnR : noEmptyAtomsL R' = true) (hcR : clsCanonL R')
    (hRR : ∀ m q, m ≤ ctx.len → (OpRSeq ctx R' m q ↔ OpRSeq ctx R m q))
    (T : Nat → List Nat) (hT : ∀ m q, m ≤ ctx.len → q ∈ T m → OpRSeq ctx R m q) :
    (enum ctx o p).flatMap T = (enum2 ctx (.unamb child mn mx) p).flatMap T := by
  have hac : isAtomOrClass child = true := by
    simp only [cleanOp2F, Bool.and_eq_true] at hcl; exact hcl.1
  have hsU : shape2 (.unamb child mn mx) = true := by simp only [shape2]; exact hac
  have hnU : noEmptyAtoms (.unamb child mn mx) = true := by simp only [noEmptyAtoms]; exact hnx
  have key : ∀ x, x ∈ enum ctx o p → T x ≠ [] → enum2 ctx (.unamb child mn mx) p = [x] := by
    intro x hx hTx
    have hox : OpR ctx o p x := enum_sound ctx o hco hwo hp hx
    have hxL := (OpR_bounds_op ctx o p x hp hox).2
    obtain ⟨q, hq⟩ := List.exists_mem_of_ne_nil _ hTx
    have h1 := (hlang x).2 hox
    have h2 := (hRR x q hxL).2 (hT x q hxL hq)
    rcases unamb_elem env ctx hI top child mn mx R' hcl hnx hcx hwR hnR hcR p x q hp h1 h2 with
      ⟨he, _⟩ | ⟨hR', ht, _⟩
    · exact he
    · exact absurd ⟨hR', ht⟩ hnot
  cases hu : enum2 ctx (.unamb child mn mx) p with
  | nil =>
    rw [List.flatMap_nil]
    apply flatMap_nil_of
    intro x hx
    apply Classical.byContradiction
    intro hne
    have := key x hx hne
    rw [hu] at this
    cases this
  | cons m t =>
    have ht : t = [] := by
      simp only [enum2] at hu
      split at hu
      · simp only [List.cons.injEq] at hu; exact hu.2.symm
      · cases hu
    subst ht
    have hm : m ∈ enum ctx o p := by
      have h1 := enum2_sound_of_shape ctx _ hsU hwU hnU hp (show m ∈ enum2 ctx (.unamb child mn mx) p by
        rw [hu]; exact List.mem_cons_self)
      exact enum_complete_op ctx o hco hwo p m hp ((hlang m).1 h1)
    rw [flatMap_support hnd (fun x hx hxm => by
      apply Classical.byContradiction
      intro hne
      have := key x hx hne
      rw [hu] at this
      simp only [List.cons.injEq, and_true] at this
      exact hxm this.symm) hm]
    simp

/-! ### which elements `optimizeSeq` rewrites -/

theorem optimize_gfixed_wf (env : Env) (fl : CFlags) (c : Op) (mn mx len : Nat)
    (hwf : wfOp (.gfixed c mn mx len) = true) :
    optimize env fl (.gfixed c mn mx len) = .gfixed (optimize env fl c) mn mx len := by
  simp only [wfOp, Bool.and_eq_true, decide_eq_true_eq, beq_iff_eq] at hwf
  obtain ⟨⟨⟨⟨⟨_, hml⟩, hlen0⟩, _⟩, _⟩, hmx⟩ := hwf
  have e1 : (mx == 0) = false := by simp; omega
  have e2 : (matchLen c == some 0) = false := by rw [hml]; simp; omega
  simp only [optimize, e1, e2, Bool.false_eq_true, if_false]

/-- the un-optimised element behind a rewritten one -/
theorem repeat_source (env : Env) (fl : CFlags) (o child : Op) (mn mx : Nat) (g : Bool)
    (hc : cleanOp o = true) (hwf : wfOp o = true) (h2 : seqGe2 o = true)
    (h : repeatParts (optimize env fl o) = some (child, mn, mx, g)) :
    (∃ c0 len, o = .gfixed c0 mn mx len ∧ optimize env fl c0 = child ∧ g = true) ∨
    (∃ c0 len, o = .rfixed c0 mn mx len ∧ optimize env fl c0 = child ∧ g = false) := by
  cases o with
  | gfixed c0 a b l =>
    rw [optimize_gfixed_wf env fl c0 a b l hwf] at h
    simp only [repeatParts, Option.some.injEq, Prod.mk.injEq] at h
    obtain ⟨h1, rfl, rfl, h4⟩ := h
    exact .inl ⟨c0, l, rfl, h1, h4.symm⟩
  | rfixed c0 a b l =>
    simp only [optimize, repeatParts, Option.some.injEq, Prod.mk.injEq] at h
    obtain ⟨h1, rfl, rfl, h4⟩ := h
    exact .inr ⟨c0, l, rfl, h1, h4.symm⟩
  | seq ops =>
    simp only [seqGe2, Bool.and_eq_true, decide_eq_true_eq] at h2
    cases ops with
    | nil => simp at h2
    | cons a t =>
      cases t with
      | nil => simp at h2
      | cons b r => simp [optimize, repeatParts] at h
  | rep | unamb | backref => simp [cleanOp] at hc
  | _ => simp [optimize, repeatParts] at h

theorem optimize_eq_end (env : Env) (fl : CFlags) (o : Op) (hwf : wfOp o = true) (h2 : seqGe2 o = true)
    (h : optimize env fl o = .endProgram) : o = .endProgram := by
  cases o with
  | endProgram => rfl
  | gfixed c0 a b l => rw [optimize_gfixed_wf env fl c0 a b l hwf] at h; cases h
  | seq ops =>
    simp only [seqGe2, Bool.and_eq_true, decide_eq_true_eq] at h2
    cases ops with
    | nil => simp at h2
    | cons a t =>
      cases t with
      | nil => simp at h2
      | cons b r => simp [optimize] at h
  | _ => simp [optimize] at h

theorem optimizeSeq_ne_nil (env : Env) (fl : CFlags) (o : Op) (os : List Op) :
    optimizeSeq env fl (o :: os) ≠ [] := by
  cases os with
  | nil => simp [optimizeSeq]
  | cons n r => rw [optimizeSeq_cons2]; simp

/-- the enumeration of a repeat of the old fragment does not repeat -/
theorem repeat_nodup (ctx : Ctx) (c0 : Op) (mn mx len : Nat) (greedy : Bool)
    (hc : cleanOp c0 = true) (hwf : wfOp (.gfixed c0 mn mx len) = true) (p : Nat) (hp : p ≤ ctx.len) :
    Progress (enum ctx c0) ctx.len ∧
    (greedyIter (enum ctx c0) mn mx 0 p).Nodup ∧ (reluctIter (enum ctx c0) mn mx 0 p).Nodup := by
  have _ := greedy
  simp only [wfOp, Bool.and_eq_true, decide_eq_true_eq, beq_iff_eq] at hwf
  obtain ⟨⟨⟨⟨⟨hwc, hml⟩, hlen0⟩, hlen1⟩, _⟩, _⟩ := hwf
  have hb := fixedBody_of ctx c0 len hwc hml hlen0 hlen1 (fun q hq st => sem_ex_op ctx c0 hc hwc q hq st)
  have hpr := prog_of_fixedBody hb
  exact ⟨hpr, (greedyIter_nodup hpr mn mx 0 p hp).2, (reluctIter_nodup hpr mn mx 0 p hp).2⟩

/-! ### sub-trees: the enumerations are equal as lists -/

theorem TreeOK.capture {g : Nat} {c : Op} (h : TreeOK (.capture g c)) : TreeOK c := by
  obtain ⟨a, b, c', d, e⟩ := h
  simp only [cleanOp, wfOp, seqGe2, noEmptyAtoms, clsCanonB] at a b c' d e
  exact ⟨a, b, c', d, e⟩

theorem TreeOK.choice {bs : List Op} (h : TreeOK (.choice bs)) : ListOK bs := by
  obtain ⟨a, b, c', d, e⟩ := h
  simp only [cleanOp, wfOp, seqGe2, noEmptyAtoms, clsCanonB, Bool.and_eq_true] at a b c' d e
  exact ⟨a, b.2, c', d, e⟩

theorem TreeOK.seq {l : List Op} (h : TreeOK (.seq l)) : ListOK l ∧ 2 ≤ l.length := by
  obtain ⟨a, b, c', d, e⟩ := h
  simp only [cleanOp, wfOp, seqGe2, noEmptyAtoms, clsCanonB, Bool.and_eq_true, decide_eq_true_eq] at a b c' d e
  exact ⟨⟨a, b.2, c'.2, d, e⟩, c'.1⟩

theorem TreeOK.gfixed {c : Op} {mn mx len : Nat} (h : TreeOK (.gfixed c mn mx len)) : TreeOK c := by
  obtain ⟨a, b, c', d, e⟩ := h
  simp only [cleanOp, seqGe2, noEmptyAtoms, clsCanonB] at a c' d e
  simp only [wfOp, Bool.and_eq_true] at b
  exact ⟨a, b.1.1.1.1.1, c', d, e⟩

theorem TreeOK.rfixed {c : Op} {mn mx len : Nat} (h : TreeOK (.rfixed c mn mx len)) : TreeOK c := by
  obtain ⟨a, b, c', d, e⟩ := h
  simp only [cleanOp, seqGe2, noEmptyAtoms, clsCanonB] at a c' d e
  simp only [wfOp, Bool.and_eq_true] at b
  exact ⟨a, b.1.1.1.1.1, c', d, e⟩

theorem enumSeq_sound (ctx : Ctx) (l : List Op) (h : ListOK l) (hne : l ≠ []) (m q : Nat) (hm : m ≤ ctx.len)
    (hq : q ∈ enumSeq ctx l m) : OpRSeq ctx l m q := by
  obtain ⟨hc, hw⟩ := h.seq hne
  have := enum_sound ctx (.seq l) hc hw hm (show q ∈ enum ctx (.seq l) m by simpa only [enum] using hq)
  simpa only [OpR] using this

theorem enumSeq2_nil (ctx : Ctx) : enumSeq2 ctx [] = enumSeq ctx [] := by
  funext m; simp only [enumSeq2, enumSeq]

/-- the step of the sequence induction at an element that `optimizeSeq` rewrote to `.unamb`, with the
    followers' enumerations related by `rel` (list equality inside, head equality at the root) -/
theorem seq_step_unamb (env : Env) (fl : CFlags) (ctx : Ctx) (S : Setting env fl ctx) (top : Bool)
    (o nxt : Op) (os : List Op) (hl : ListOK (o :: nxt :: os))
    (hS : SeqOK env fl top (o :: nxt :: os))
    (child : Op) (mn mx : Nat) (g : Bool)
    (hrp : repeatParts (optimize env fl o) = some (child, mn, mx, g))
    (hs : seqElem env fl (optimize env fl o) nxt = .unamb child mn mx)
    (hnot : ¬ (optimizeSeq env fl (nxt :: os) = [.endProgram] ∧ top = true))
    (p : Nat) (hp : p ≤ ctx.len) :
    (enum ctx o p).flatMap (enumSeq ctx (nxt :: os)) =
      (enum2 ctx (.unamb child mn mx) p).flatMap (enumSeq ctx (nxt :: os)) := by
  have ho := hl.head
  have hr := hl.tail
  obtain ⟨hwR, hnR, hcR⟩ := optSeq_facts env fl (nxt :: os) hr
  obtain ⟨hwA, hnA, hcA⟩ := optSeq_facts env fl (o :: nxt :: os) hl
  rw [optimizeSeq_cons2, hs] at hwA hnA hcA
  simp only [wfOps, Bool.and_eq_true] at hwA
  simp only [noEmptyAtomsL, noEmptyAtoms, Bool.and_eq_true] at hnA
  simp only [clsCanonL, clsCanon] at hcA
  have hcl := hS.clean
  rw [optimizeSeq_cons2, hs] at hcl
  simp only [cleanSeq2, Bool.and_eq_true] at hcl
  rw [← S.hcb, ← S.hml] at hcl
  have hlang : ∀ x, OpR ctx (.unamb child mn mx) p x ↔ OpR ctx o p x := fun x =>
    (OptL.unamb_OpR ctx hrp p x).trans (OptL.opt_op env fl ctx o ho.wf p x hp)
  have hnd : (enum ctx o p).Nodup := by
    rcases repeat_source env fl o child mn mx g ho.clean ho.wf ho.ge2 hrp with
      ⟨c0, len, rfl, _, _⟩ | ⟨c0, len, rfl, _, _⟩
    · simp only [enum]
      exact (repeat_nodup ctx c0 mn mx len true ho.gfixed.clean ho.wf p hp).2.1
    · simp only [enum]
      have hw' : wfOp (.gfixed c0 mn mx len) = true := by simpa only [wfOp] using ho.wf
      exact (repeat_nodup ctx c0 mn mx len false ho.rfixed.clean hw' p hp).2.2
  exact unamb_vs_iter env ctx S.ok top o child mn mx (nxt :: os) (optimizeSeq env fl (nxt :: os)) p hp
    ho.clean ho.wf hlang hnd hwA.1 hcl.1 hnot hnA.1 hcA.1 hwR hnR hcR
    (fun m q hm => OptL.opt_seq env fl ctx (nxt :: os) hr.wf m q hm)
    (enumSeq ctx (nxt :: os)) (fun m q hm hq => enumSeq_sound ctx _ hr (List.cons_ne_nil _ _) m q hm hq)

/-- members of the optimised element's enumeration lie inside the input -/
theorem elem_bound (env : Env) (fl : CFlags) (ctx : Ctx) (l : List Op) (hl : ListOK l)
    (hsh : shape2L (optimizeSeq env fl l) = true) (e' : Op) (R' : List Op)
    (he : optimizeSeq env fl l = e' :: R') (p : Nat) (hp : p ≤ ctx.len) :
    ∀ x, x ∈ enum2 ctx e' p → x ≤ ctx.len := by
  intro x hx
  obtain ⟨hw, hn, _⟩ := optSeq_facts env fl l hl
  rw [he] at hw hn hsh
  simp only [wfOps, Bool.and_eq_true] at hw
  simp only [noEmptyAtomsL, Bool.and_eq_true] at hn
  simp only [shape2L, Bool.and_eq_true] at hsh
  have := enum2_sound_of_shape ctx e' hsh.1 hw.1 hn.1 hp hx
  exact (OpR_bounds_op ctx e' p x hp this).2

mutual
theorem enumEq_op (env : Env) (fl : CFlags) (ctx : Ctx) (S : Setting env fl ctx) : (op : Op) → TreeOK op →
    noEnd op = true → ∀ p, p ≤ ctx.len → enum2 ctx (optimize env fl op) p = enum ctx op p
  | .bol, _, _, p, _ => by simp only [optimize, enum2, enum]
  | .eol, _, _, p, _ => by simp only [optimize, enum2, enum]
  | .nothing, _, _, p, _ => by simp only [optimize, enum2, enum]
  | .atom cs, _, _, p, _ => by simp only [optimize]; rw [leaf_enum2 ctx (.atom cs) rfl]
  | .cls rs, _, _, p, _ => by simp only [optimize]; rw [leaf_enum2 ctx (.cls rs) rfl]
  | .endProgram, _, he, _, _ => by simp [noEnd] at he
  | .backref _, h, _, _, _ => by have := h.clean; simp [cleanOp] at this
  | .rep _ _ _ _ _, h, _, _, _ => by have := h.clean; simp [cleanOp] at this
  | .unamb _ _ _, h, _, _, _ => by have := h.clean; simp [cleanOp] at this
  | .capture g c, h, he, p, hp => by
    simp only [noEnd] at he
    simp only [optimize, enum2, enum]
    exact enumEq_op env fl ctx S c h.capture he p hp
  | .choice bs, h, he, p, hp => by
    simp only [noEnd] at he
    simp only [optimize, enum2, enum]
    exact enumEq_any env fl ctx S bs h.choice he p hp
  | .seq l, h, he, p, hp => by
    simp only [noEnd] at he
    obtain ⟨hl, h2⟩ := h.seq
    have ih := enumEq_seq env fl ctx S l hl he p hp
    obtain ⟨o, o2, os, rfl⟩ : ∃ o o2 os, l = o :: o2 :: os := by
      cases l with
      | nil => simp at h2
      | cons o t =>
        cases t with
        | nil => simp at h2
        | cons o2 os => exact ⟨o, o2, os, rfl⟩
    simp only [optimize, enum2, enum]
    exact ih
  | .gfixed c mn mx len, h, he, p, hp => by
    simp only [noEnd] at he
    rw [optimize_gfixed_wf env fl c mn mx len h.wf]
    simp only [enum2, enum]
    have hpr := (repeat_nodup ctx c mn mx len true h.gfixed.clean h.wf p hp).1
    exact greedyIter_congr hpr (fun q hq => enumEq_op env fl ctx S c h.gfixed he q hq) mn mx 0 p hp
  | .rfixed c mn mx len, h, he, p, hp => by
    simp only [noEnd] at he
    simp only [optimize, enum2, enum]
    have hw' : wfOp (.gfixed c mn mx len) = true := by simpa only [wfOp] using h.wf
    have hpr := (repeat_nodup ctx c mn mx len false h.rfixed.clean hw' p hp).1
    exact reluctIter_congr hpr (fun q hq => enumEq_op env fl ctx S c h.rfixed he q hq) mn mx 0 p hp
termination_by structural op => op
theorem enumEq_any (env : Env) (fl : CFlags) (ctx : Ctx) (S : Setting env fl ctx) : (bs : List Op) →
    ListOK bs → noEndL bs = true →
    ∀ p, p ≤ ctx.len → enumAny2 ctx (optimizeL env fl bs) p = enumAny ctx bs p
  | [], _, _, p, _ => by simp only [optimizeL, enumAny2, enumAny]
  | b :: bs, h, he, p, hp => by
    simp only [noEndL, Bool.and_eq_true] at he
    simp only [optimizeL, enumAny2, enumAny]
    rw [enumEq_op env fl ctx S b h.head he.1 p hp, enumEq_any env fl ctx S bs h.tail he.2 p hp]
termination_by structural bs => bs
theorem enumEq_seq (env : Env) (fl : CFlags) (ctx : Ctx) (S : Setting env fl ctx) : (l : List Op) →
    ListOK l → noEndL l = true →
    ∀ p, p ≤ ctx.len → enumSeq2 ctx (optimizeSeq env fl l) p = enumSeq ctx l p
  | [], _, _, p, _ => by simp only [optimizeSeq, enumSeq2, enumSeq]
  | [o], h, he, p, hp => by
    simp only [noEndL, Bool.and_eq_true] at he
    simp only [optimizeSeq, enumSeq2, enumSeq]
    rw [enumEq_op env fl ctx S o h.head he.1 p hp]
  | o :: nxt :: os, h, he, p, hp => by
    have he' := he
    simp only [noEndL, Bool.and_eq_true] at he
    have her : noEndL (nxt :: os) = true := by simp only [noEndL, Bool.and_eq_true]; exact he.2
    have hS := optOK_seq env fl (o :: nxt :: os) h.clean h.wf h.ge2 (endLast_of_noEndL _ he') false (fun _ => he')
    have hsh : shape2L (optimizeSeq env fl (o :: nxt :: os)) = true :=
      shape_of_cleanSeq2 env _ _ _ false hS.clean
    have ihs : ∀ m, m ≤ ctx.len →
        enumSeq2 ctx (optimizeSeq env fl (nxt :: os)) m = enumSeq ctx (nxt :: os) m :=
      fun m hm => enumEq_seq env fl ctx S (nxt :: os) h.tail her m hm
    have hb := elem_bound env fl ctx (o :: nxt :: os) h hsh _ _ (optimizeSeq_cons2 env fl o nxt os) p hp
    rw [optimizeSeq_cons2]
    show (enum2 ctx (seqElem env fl (optimize env fl o) nxt) p).flatMap
        (enumSeq2 ctx (optimizeSeq env fl (nxt :: os))) = (enum ctx o p).flatMap (enumSeq ctx (nxt :: os))
    rw [flatMap_congr' (fun x hx => ihs x (hb x hx))]
    rcases seqElem_cases' env fl (optimize env fl o) nxt with hs | ⟨child, mn, mx, g, hrp, _, _, hs⟩
    · rw [hs, enumEq_op env fl ctx S o h.head he.1 p hp]
    · rw [hs]
      exact (seq_step_unamb env fl ctx S false o nxt os h hS child mn mx g hrp hs
        (fun hh => by cases hh.2) p hp).symm
termination_by structural l => l
end

/-- sub-trees without EndProgram: optimised and un-optimised enumerations are EQUAL AS LISTS -/
theorem optimize_enum_eq (env : Env) (fl : CFlags) (ctx : Ctx) (S : Setting env fl ctx) (op : Op)
    (h : TreeOK op) (he : noEnd op = true) (p : Nat) (hp : p ≤ ctx.len) :
    enum2 ctx (optimize env fl op) p = enum ctx op p :=
  enumEq_op env fl ctx S op h he p hp

/-! ### the root sequence: the same head -/

theorem enumSeq2_end (ctx : Ctx) (m : Nat) : enumSeq2 ctx [.endProgram] m = [m] := by
  simp [enumSeq2, enum2]

theorem enumSeq_end (ctx : Ctx) (m : Nat) : enumSeq ctx [.endProgram] m = [m] := by
  simp [enumSeq, enum]

/-- the rewritten final repeat in front of EndProgram: same head -/
theorem final_head (env : Env) (fl : CFlags) (ctx : Ctx) (S : Setting env fl ctx)
    (o : Op) (ho : TreeOK o) (hne : noEnd o = true) (child : Op) (mn mx : Nat) (g : Bool)
    (hrp : repeatParts (optimize env fl o) = some (child, mn, mx, g))
    (hac : isAtomOrClass child = true)
    (hj : mn = mx ∨ noAmbiguity env child .endProgram fl.caseBlind (!g) fl.multiLine = true)
    (hwU : wfOp (.unamb child mn mx) = true) (hnx : noEmptyAtoms child = true)
    (p : Nat) (hp : p ≤ ctx.len) :
    (enum2 ctx (.unamb child mn mx) p).head? = (enum ctx o p).head? := by
  have hsU : shape2 (.unamb child mn mx) = true := by simp only [shape2]; exact hac
  have hnU : noEmptyAtoms (.unamb child mn mx) = true := by simp only [noEmptyAtoms]; exact hnx
  have hlang : ∀ x, OpR ctx (.unamb child mn mx) p x ↔ OpR ctx o p x := fun x =>
    (OptL.unamb_OpR ctx hrp p x).trans (OptL.opt_op env fl ctx o ho.wf p x hp)
  rcases repeat_source env fl o child mn mx g ho.clean ho.wf ho.ge2 hrp with
    ⟨c0, len, rfl, hch, _⟩ | ⟨c0, len, rfl, hch, hg⟩
  · -- greedy: the head of the greedy enumeration is the maximal-munch end
    simp only [noEnd] at hne
    have hpr := (repeat_nodup ctx c0 mn mx len true ho.gfixed.clean ho.wf p hp).1
    have hm : munch (enum2 ctx child) mx p = munch (enum ctx c0) mx p :=
      munch_congr hpr (fun q hq => by rw [← hch]; exact enumEq_op env fl ctx S c0 ho.gfixed hne q hq) mx p hp
    simp only [enum2, enum]
    rw [greedyIter_head, hm, Nat.zero_add]
    split <;> rfl
  · -- reluctant: rewritten only for `mn = mx`, where the enumeration has at most the one end
    subst hg
    have hmm : mn = mx := by
      rcases hj with h | h
      · exact h
      · simp [noAmbiguity] at h
    have hd := leaf_headDet ctx child hac hnx
    have hsd : ∀ a, a ≤ ctx.len → ∀ b t, enum2 ctx child a = b :: t → OpR ctx child a b :=
      fun a ha b t h => leaf_enum2_sound ctx child hac ha h
    have hmem : ∀ x, x ∈ enum ctx (.rfixed c0 mn mx len) p →
        mn ≤ (munch (enum2 ctx child) mx p).1 ∧ x = (munch (enum2 ctx child) mx p).2 := by
      intro x hx
      have h1 := (hlang x).2 (enum_sound ctx _ ho.clean ho.wf hp hx)
      simp only [OpR] at h1
      obtain ⟨k, hk1, hk2, hi⟩ := h1
      obtain ⟨_, h2⟩ := munch_max hd hsd mx p k x hp hi hk2
      obtain ⟨h3, h4⟩ := h2 (.inl (by omega))
      exact ⟨by omega, h4⟩
    cases hl : enum ctx (.rfixed c0 mn mx len) p with
    | nil =>
      cases hu : enum2 ctx (.unamb child mn mx) p with
      | nil => rfl
      | cons m t =>
        have h1 := enum2_sound_of_shape ctx _ hsU hwU hnU hp
          (show m ∈ enum2 ctx (.unamb child mn mx) p by rw [hu]; exact List.mem_cons_self)
        have := enum_complete_op ctx _ ho.clean ho.wf p m hp ((hlang m).1 h1)
        rw [hl] at this
        cases this
    | cons x t =>
      obtain ⟨h1, h2⟩ := hmem x (by rw [hl]; exact List.mem_cons_self)
      simp only [enum2]
      rw [if_pos h1, h2]
      rfl

theorem headEq_seq (env : Env) (fl : CFlags) (ctx : Ctx) (S : Setting env fl ctx) : ∀ (l : List Op),
    ListOK l → endLast l = true →
    ∀ p, p ≤ ctx.len → (enumSeq2 ctx (optimizeSeq env fl l) p).head? = (enumSeq ctx l p).head? := by
  intro l
  induction l with
  | nil => intro _ _ p _; simp only [optimizeSeq, enumSeq2, enumSeq]
  | cons o rest ih =>
    intro h he p hp
    cases rest with
    | nil =>
      simp only [endLast, List.isEmpty_nil, if_true, Bool.or_eq_true] at he
      rcases he with he | he
      · have : o = .endProgram := by cases o <;> first | rfl | (simp [isEnd] at he)
        subst this
        simp only [optimizeSeq, optimize]
        rw [enumSeq2_end, enumSeq_end]
      · simp only [optimizeSeq, enumSeq2, enumSeq]
        rw [enumEq_op env fl ctx S o h.head he p hp]
    | cons nxt os =>
      have he1 : noEnd o = true ∧ endLast (nxt :: os) = true := by simpa [endLast] using he
      have hS := optOK_seq env fl (o :: nxt :: os) h.clean h.wf h.ge2 he true (fun hh => by cases hh)
      have hsh : shape2L (optimizeSeq env fl (o :: nxt :: os)) = true :=
        shape_of_cleanSeq2 env _ _ _ true hS.clean
      have ihs : ∀ m, m ≤ ctx.len →
          (enumSeq2 ctx (optimizeSeq env fl (nxt :: os)) m).head? = (enumSeq ctx (nxt :: os) m).head? :=
        fun m hm => ih h.tail he1.2 m hm
      have hb := elem_bound env fl ctx (o :: nxt :: os) h hsh _ _ (optimizeSeq_cons2 env fl o nxt os) p hp
      rw [optimizeSeq_cons2]
      show ((enum2 ctx (seqElem env fl (optimize env fl o) nxt) p).flatMap
          (enumSeq2 ctx (optimizeSeq env fl (nxt :: os)))).head? =
        ((enum ctx o p).flatMap (enumSeq ctx (nxt :: os))).head?
      rw [flatMap_head_congr (fun x hx => ihs x (hb x hx))]
      rcases seqElem_cases' env fl (optimize env fl o) nxt with hs | ⟨child, mn, mx, g, hrp, hac, hj, hs⟩
      · rw [hs, enumEq_op env fl ctx S o h.head he1.1 p hp]
      · rw [hs]
        by_cases hfin : nxt = .endProgram ∧ os = []
        · obtain ⟨rfl, rfl⟩ := hfin
          obtain ⟨hwA, hnA, _⟩ := optSeq_facts env fl [o, .endProgram] h
          rw [optimizeSeq_cons2, hs] at hwA hnA
          simp only [wfOps, Bool.and_eq_true] at hwA
          simp only [noEmptyAtomsL, noEmptyAtoms, Bool.and_eq_true] at hnA
          have e1 : ∀ l : List Nat, l.flatMap (enumSeq ctx [.endProgram]) = l := by
            intro l
            rw [flatMap_congr' (fun x _ => enumSeq_end ctx x)]
            exact flatMap_single l
          rw [e1, e1]
          exact final_head env fl ctx S o h.head he1.1 child mn mx g hrp hac hj hwA.1 hnA.1 p hp
        · have hnot : ¬ (optimizeSeq env fl (nxt :: os) = [.endProgram] ∧ true = true) := by
            intro ⟨hR, _⟩
            apply hfin
            cases os with
            | nil =>
              simp only [optimizeSeq, List.cons.injEq, and_true] at hR
              exact ⟨optimize_eq_end env fl nxt h.tail.head.wf h.tail.head.ge2 hR, rfl⟩
            | cons n2 r =>
              rw [optimizeSeq_cons2] at hR
              simp only [List.cons.injEq] at hR
              exact absurd hR.2 (optimizeSeq_ne_nil env fl n2 r)
          rw [seq_step_unamb env fl ctx S true o nxt os h hS child mn mx g hrp hs hnot p hp]

/-- a whole program: optimised and un-optimised enumerations have the same HEAD -/
theorem optimize_enum_head (env : Env) (fl : CFlags) (ctx : Ctx) (S : Setting env fl ctx) (op : Op)
    (h : TreeOK op) (he : endTop op = true) (p : Nat) (hp : p ≤ ctx.len) :
    (enum2 ctx (optimize env fl op) p).head? = (enum ctx op p).head? := by
  by_cases hseq : ∃ l, op = .seq l
  · obtain ⟨l, rfl⟩ := hseq
    obtain ⟨hl, h2⟩ := h.seq
    simp only [endTop] at he
    obtain ⟨o, o2, os, rfl⟩ : ∃ o o2 os, l = o :: o2 :: os := by
      cases l with
      | nil => simp at h2
      | cons o t =>
        cases t with
        | nil => simp at h2
        | cons o2 os => exact ⟨o, o2, os, rfl⟩
    simp only [optimize, enum2, enum]
    exact headEq_seq env fl ctx S (o :: o2 :: os) hl he p hp
  · have hne : noEnd op = true := by
      cases op with
      | seq l => exact absurd ⟨l, rfl⟩ hseq
      | _ => exact he
    rw [enumEq_op env fl ctx S op h hne p hp]

/-! ### optimised program vs. bare un-optimised program: Boolean, start AND end -/

/-- C08 across the optimiser, with full result equality: `compileCore … true` and the verification
    hook's `compileCore … false` report the same Boolean and, on success, the same span of group 0.
    All hypotheses are about the UN-optimised parser tree `op` (decidable) and the data. -/
theorem clean2_opt_eq_unopt_full (env : Env) (pat : List Nat) (op : Op) (mp : Nat) (fl : CFlags)
    (lower : Nat → Nat) (input : List Nat) (hI : InputOKFor env fl lower input)
    (h : TreeOK op) (he : endTop op = true) (hcp0 : C02.capsPos op = true)
    (hlen : input.length < usizeMax)
    (i : Nat) (hi : i ≤ input.length) (st1 st2 : St) (h1 : st1.panic = none) (h2 : st2.panic = none) :
    let pr := mkProgram pat (optimize env fl op) mp fl false
    let bare := mkBareProgram pat op mp fl false
    (matchesFrom (pr.ctx lower input) pr i st1).1 = (matchesFrom (bare.ctx lower input) bare i st2).1 ∧
    ((matchesFrom (pr.ctx lower input) pr i st1).1 = true →
      getParenStart (matchesFrom (pr.ctx lower input) pr i st1).2 0 =
        getParenStart (matchesFrom (bare.ctx lower input) bare i st2).2 0 ∧
      getParenEnd (matchesFrom (pr.ctx lower input) pr i st1).2 0 =
        getParenEnd (matchesFrom (bare.ctx lower input) bare i st2).2 0) := by
  intro pr bare
  have hc := optimize_clean2 env fl op h.clean h.wf h.ge2 he
  have hwf := WF.optimize_wf env fl op h.wf
  have hcp := WF.optimize_caps env fl op hcp0
  have hne := optimize_NE env fl op h.ne
  have hcan := optimize_clsCanonB env fl op h.can
  have hs := Clean2.cleanProg2_shape env _ _ _ hc
  have hop : pr.op = optimize env fl op := mkProgram_op_shape2 pat (optimize env fl op) mp fl false hs
  have hs0 := Clean2.cleanOp2_shape env fl.caseBlind fl.multiLine op (Clean2.cleanOp2_of_cleanOp env _ _ op h.clean)
  have hnum : (numberReps op 0).1 = op := by rw [numberReps_shape2 op hs0 0]
  obtain ⟨_, hbc⟩ := bare_same pat op mp fl false lower input
  have hctx : bare.ctx lower input = pr.ctx lower input := by
    show (mkBareProgram pat op mp fl false).ctx lower input = _
    rw [hbc]; exact Clean2Complete.ctx_eq pat op _ mp fl false lower input
  have hb : matchesFrom (bare.ctx lower input) bare i st2 = matchesNaive (pr.ctx lower input) op i st2 := by
    rw [hctx]
    have := bare_eq_naive pat op mp fl false (pr.ctx lower input) i hi st2
    rw [hnum] at this
    exact this
  rw [hb]
  obtain ⟨hcb, hml, _, _, hbr⟩ := mkProgram_ctx pat (optimize env fl op) mp fl false lower input
  have S : Setting env fl (pr.ctx lower input) := ⟨hI.ctx pat _ mp false, hcb, hml⟩
  have ho1 : Outcome (pr.ctx lower input) (optimize env fl op) i (matchesFrom (pr.ctx lower input) pr i st1) := by
    have := clean2_outcome env pat (optimize env fl op) mp fl lower input hI hc hwf hne hcan hlen i hi st1 h1
    rw [show (mkProgram pat (optimize env fl op) mp fl false).op = optimize env fl op from hop] at this
    exact this
  have ho2 : Outcome (pr.ctx lower input) op i (matchesNaive (pr.ctx lower input) op i st2) :=
    matchesNaive_outcome (completeAt_clean _ _ h.clean h.wf) (quiet_clean _ hbr _ h.clean h.wf) i st2 h2
  have hlang : ∀ p q, p ≤ (pr.ctx lower input).len →
      (OpR (pr.ctx lower input) (optimize env fl op) p q ↔ OpR (pr.ctx lower input) op p q) :=
    fun p q hp => C08.optimize_preserves env fl _ op h.wf p q hp
  generalize matchesFrom (pr.ctx lower input) pr i st1 = r1 at ho1 ⊢
  generalize matchesNaive (pr.ctx lower input) op i st2 = r2 at ho2 ⊢
  have hbool : r1.1 = r2.1 := by
    rw [Bool.eq_iff_iff, ho1.iff, ho2.iff]
    constructor
    · rintro ⟨j, q, a, b, c⟩; exact ⟨j, q, a, b, (hlang j q b).1 c⟩
    · rintro ⟨j, q, a, b, c⟩; exact ⟨j, q, a, b, (hlang j q b).2 c⟩
  refine ⟨hbool, fun ht => ?_⟩
  obtain ⟨j1, n1, hs1, he1, hh1, a1, b1, c1, hm1, hl1⟩ := ho1.span_clean2 hs hwf hne hcp ht
  obtain ⟨j2, n2, hs2, he2, hh2, a2, b2, c2, hm2, hl2⟩ := ho2.span_clean h.clean h.wf hcp0 (hbool ▸ ht)
  have hj : j1 = j2 := by
    rcases Nat.lt_trichotomy j1 j2 with hlt | heq | hgt
    · exact absurd ((hlang j1 n1 (by omega)).1 hm1) (hl2 j1 n1 a1 hlt)
    · exact heq
    · exact absurd ((hlang j2 n2 (by omega)).2 hm2) (hl1 j2 n2 a2 hgt)
  subst hj
  have hhead := optimize_enum_head env fl _ S op h he j1 (by omega)
  rw [hh1, hh2] at hhead
  simp only [Option.some.injEq] at hhead
  subst hhead
  exact ⟨by rw [hs1, hs2], by rw [he1, he2]⟩

/-- in particular the two `is_match` answers coincide, with hypotheses on the parser tree only -/
theorem clean2_isMatch_eq_unopt' (env : Env) (pat : List Nat) (op : Op) (mp : Nat) (fl : CFlags)
    (lower : Nat → Nat) (input : List Nat) (hI : InputOKFor env fl lower input)
    (h : TreeOK op) (he : endTop op = true) (hcp0 : C02.capsPos op = true)
    (hlen : input.length < usizeMax) :
    (mkProgram pat (optimize env fl op) mp fl false).isMatch lower input =
      (mkBareProgram pat op mp fl false).isMatch lower input :=
  Clean2Complete.clean2_isMatch_eq_unopt env pat op mp fl lower input hI h.clean h.wf hcp0 h.ne
    (optimize_clean2 env fl op h.clean h.wf h.ge2 he) (optimize_clsCanonB env fl op h.can) hlen

/-! ### from the pattern text: the two compilations of a pattern -/

/-- the optimised and the un-optimised compilation of a (non-literal) pattern are `mkProgram` of the
    optimised tree and `mkBareProgram` of the parser's tree -/
theorem compile_pair (env : Env) (fl : CFlags) (pat : List Nat) (pr bare : Prog) (hlit : fl.literal = false)
    (h1 : compileCore env fl pat true = .ok pr) (h0 : compileCore env fl pat false = .ok bare) :
    ∃ op mp hb, bare = mkBareProgram pat op mp fl hb ∧ pr = mkProgram pat (optimize env fl op) mp fl hb := by
  unfold compileCore at h1 h0
  rw [hlit] at h1 h0
  simp only [Bool.false_eq_true, if_false] at h1 h0
  cases hp : parseExpr { pat := pat, fl := fl, env := env } (4 * pat.length + 16) {} true with
  | err e => rw [hp] at h1; cases h1
  | ok op s =>
    rw [hp] at h1 h0
    dsimp only at h1 h0
    split at h1
    · cases h1
    · rename_i hidx
      rw [if_neg hidx] at h0
      simp only [if_true, Out.ok.injEq] at h1 h0
      exact ⟨op, s.parens, s.hasBackrefs, h0.symm, h1.symm⟩

/-- C08 across the optimiser from the pattern text: if the UN-optimised compilation satisfies the
    decidable hypotheses (old fragment, parser shape, no back-reference flag), the optimised and the
    un-optimised compilation report the same Boolean and the same span on every input of scalar values,
    and the same `is_match` -/
theorem compile_opt_eq_unopt (env : Env) (fl : CFlags) (pat : List Nat) (pr bare : Prog)
    (hlit : fl.literal = false)
    (h1 : compileCore env fl pat true = .ok pr) (h0 : compileCore env fl pat false = .ok bare)
    (hnb : bare.hasBackrefs = false)
    (hc : cleanOp bare.op = true) (hwf : wfOp bare.op = true) (h2 : seqGe2 bare.op = true)
    (he : endTop bare.op = true) (hne : noEmptyAtoms bare.op = true) (hcan : clsCanonB bare.op = true)
    (hcp : C02.capsPos bare.op = true)
    (lower : Nat → Nat) (input : List Nat) (hI : InputOKFor env fl lower input) (hlen : input.length < usizeMax) :
    pr.isMatch lower input = bare.isMatch lower input ∧
    ∀ (i : Nat), i ≤ input.length → ∀ (st1 st2 : St), st1.panic = none → st2.panic = none →
      (matchesFrom (pr.ctx lower input) pr i st1).1 = (matchesFrom (bare.ctx lower input) bare i st2).1 ∧
      ((matchesFrom (pr.ctx lower input) pr i st1).1 = true →
        getParenStart (matchesFrom (pr.ctx lower input) pr i st1).2 0 =
          getParenStart (matchesFrom (bare.ctx lower input) bare i st2).2 0 ∧
        getParenEnd (matchesFrom (pr.ctx lower input) pr i st1).2 0 =
          getParenEnd (matchesFrom (bare.ctx lower input) bare i st2).2 0) := by
  obtain ⟨op, mp, hb, rfl, rfl⟩ := compile_pair env fl pat pr bare hlit h1 h0
  have hb0 : hb = false := hnb
  subst hb0
  have hbo : (mkBareProgram pat op mp fl false).op = (numberReps op 0).1 := rfl
  rw [hbo] at hc hwf h2 he hne hcan hcp
  rw [cleanOp_numberReps] at hc
  have hs0 := Clean2.cleanOp2_shape env fl.caseBlind fl.multiLine op (Clean2.cleanOp2_of_cleanOp env _ _ op hc)
  rw [numberReps_shape2 op hs0 0] at hwf h2 he hne hcan hcp
  have ht : TreeOK op := ⟨hc, hwf, h2, hne, hcan⟩
  exact ⟨clean2_isMatch_eq_unopt' env pat op mp fl lower input hI ht he hcp hlen,
    fun i hi st1 st2 a b =>
      clean2_opt_eq_unopt_full env pat op mp fl lower input hI ht he hcp hlen i hi st1 st2 a b⟩

/-! ### non-vacuity: `a*b(c|d)+e` as the model's compiler builds it, on "xaabcde" -/
section example_

def exEnv : Env :=
  { lower := id, closure := fun _ => [], category := fun _ => none, block := fun _ => none,
    digit := [], word := [], nameStart := [], nameChar := [] }

/-- `a*b(c|d)+e` -/
def exPat : List Nat := [97, 42, 98, 40, 99, 124, 100, 41, 43, 101]

/-- "xaabcde" -/
def exInput : List Nat := [120, 97, 97, 98, 99, 100, 101]

/-- the parser's tree (what `compileCore … false` runs) -/
def exUnopt : Op :=
  .seq [.gfixed (.atom [97]) 0 usizeMax 1, .atom [98],
        .gfixed (.capture 1 (.choice [.atom [99], .atom [100]])) 1 usizeMax 1, .atom [101], .endProgram]

/-- the optimised tree (what `compileCore … true` runs): `a*` has become an UnambiguousRepeat -/
def exOpt : Op :=
  .seq [.unamb (.atom [97]) 0 usizeMax, .atom [98],
        .gfixed (.capture 1 (.choice [.atom [99], .atom [100]])) 1 usizeMax 1, .atom [101], .endProgram]

/-- both compilations of the pattern text satisfy the decidable hypotheses: the un-optimised tree is
    in the OLD fragment and has the parser shape, the optimised tree is a program of the NEW fragment
    (and not of the old one) -/
theorem ex_compiled :
    (match compileCore exEnv {} exPat false with
     | .ok bare => cleanOp bare.op && wfOp bare.op && seqGe2 bare.op && endTop bare.op &&
         noEmptyAtoms bare.op && clsCanonB bare.op && C02.capsPos bare.op
     | _ => false) = true ∧
    (match compileCore exEnv {} exPat true with
     | .ok pr => cleanProg2 exEnv false false pr.op && wfOp pr.op && noEmptyAtoms pr.op &&
         clsCanonB pr.op && !cleanOp pr.op && !pr.hasBackrefs
     | _ => false) = true := by decide +kernel

theorem exUnopt_ok : TreeOK exUnopt ∧ endTop exUnopt = true ∧ C02.capsPos exUnopt = true := by
  refine ⟨⟨?_, ?_, ?_, ?_, ?_⟩, ?_, ?_⟩ <;> decide +kernel

/-- item 4 instantiated: the optimiser's output is in the fragment BY THE THEOREM … -/
theorem exOpt_clean : cleanProg2 exEnv false false (optimize exEnv {} exUnopt) = true :=
  optimize_clean2 exEnv {} exUnopt exUnopt_ok.1.clean exUnopt_ok.1.wf exUnopt_ok.1.ge2 exUnopt_ok.2.1

/-- … and it is the tree shown above -/
theorem exOpt_eq : (cleanProg2 exEnv false false exOpt && wfOp exOpt && noEmptyAtoms exOpt &&
    clsCanonB exOpt && C02.capsPos exOpt) = true := by decide +kernel

theorem exInputOK : InputOKFor exEnv {} id exInput :=
  .of_caseSensitive rfl (fun _ _ h => by cases h) (by decide) (by decide)

def exProg : Prog := mkProgram exPat exOpt 2 {} false
def exBare : Prog := mkBareProgram exPat exUnopt 2 {} false

/-- what the engine computes (kernel evaluation of the model): both programs report the span (1, 7);
    the optimised enumeration from 1 is [7], the un-optimised one is [7] too (inside, `a*` lists
    the ends 3, 2, 1 of which only 3 is followed by `b`) -/
theorem ex_computed :
    exProg.isMatch id exInput = .ok true ∧ exBare.isMatch id exInput = .ok true ∧
    (matchesFrom (exProg.ctx id exInput) exProg 0 {}).1 = true ∧
    getParenStart (matchesFrom (exProg.ctx id exInput) exProg 0 {}).2 0 = some 1 ∧
    getParenEnd (matchesFrom (exProg.ctx id exInput) exProg 0 {}).2 0 = some 7 ∧
    getParenStart (matchesFrom (exBare.ctx id exInput) exBare 0 {}).2 0 = some 1 ∧
    getParenEnd (matchesFrom (exBare.ctx id exInput) exBare 0 {}).2 0 = some 7 ∧
    enum2 (exProg.ctx id exInput) exProg.op 1 = [7] ∧ enum2 (exProg.ctx id exInput) exProg.op 0 = [] ∧
    enum (exProg.ctx id exInput) exUnopt 1 = [7] := by decide +kernel

/-- C01 instantiated: the right-hand side holds — it agrees with the computed answer -/
theorem ex_isMatch : ∃ j q, j ≤ exInput.length ∧ OpR (exProg.ctx id exInput) exProg.op j q := by
  have h := exOpt_eq
  simp only [Bool.and_eq_true] at h
  exact (Clean2Complete.clean2_isMatch_iff exEnv exPat exOpt 2 {} id exInput exInputOK
    h.1.1.1.1 h.1.1.1.2 h.1.1.2 h.1.2 (by decide)).1 ex_computed.1

/-- C02 instantiated: the predicted span — least start with a match, head of `enum2` from it — is the
    computed one -/
theorem ex_leftmost_first :
    ∃ j n, getParenStart (matchesFrom (exProg.ctx id exInput) exProg 0 {}).2 0 = some j ∧
      getParenEnd (matchesFrom (exProg.ctx id exInput) exProg 0 {}).2 0 = some n ∧
      j = 1 ∧ n = 7 ∧ (enum2 (exProg.ctx id exInput) exProg.op j).head? = some n ∧
      ∀ k q, k < j → ¬ OpR (exProg.ctx id exInput) exProg.op k q := by
  have h := exOpt_eq
  simp only [Bool.and_eq_true] at h
  obtain ⟨j, n, hs, he, hh, _, _, _, _, hmin⟩ :=
    Clean2Complete.clean2_match_is_leftmost_first exEnv exPat exOpt 2 {} id exInput exInputOK
      h.1.1.1.1 h.1.1.1.2 h.1.1.2 h.1.2 h.2 (by decide) 0 (Nat.zero_le _) {}
      (matchesFrom (exProg.ctx id exInput) exProg 0 {}).2 rfl
      (by
        have := ex_computed.2.2.1
        show matchesFrom (exProg.ctx id exInput) exProg 0 {} = _
        rw [← this])
  obtain ⟨_, _, _, hcs, hce, _⟩ := ex_computed
  have hj : j = 1 := by rw [hcs] at hs; exact (Option.some.inj hs).symm
  have hn : n = 7 := by rw [hce] at he; exact (Option.some.inj he).symm
  exact ⟨j, n, hs, he, hj, hn, hh, fun k q hk => hmin k q (Nat.zero_le _) hk⟩

/-- C08 across the optimiser, instantiated: the theorem predicts that the bare un-optimised program
    reports the same span — and the computed values agree (`ex_computed`) -/
theorem ex_unopt_same :
    getParenStart (matchesFrom ((mkBareProgram exPat exUnopt 2 {} false).ctx id exInput)
      (mkBareProgram exPat exUnopt 2 {} false) 0 {}).2 0 =
    getParenStart (matchesFrom ((mkProgram exPat (optimize exEnv {} exUnopt) 2 {} false).ctx id exInput)
      (mkProgram exPat (optimize exEnv {} exUnopt) 2 {} false) 0 {}).2 0 ∧
    getParenEnd (matchesFrom ((mkBareProgram exPat exUnopt 2 {} false).ctx id exInput)
      (mkBareProgram exPat exUnopt 2 {} false) 0 {}).2 0 =
    getParenEnd (matchesFrom ((mkProgram exPat (optimize exEnv {} exUnopt) 2 {} false).ctx id exInput)
      (mkProgram exPat (optimize exEnv {} exUnopt) 2 {} false) 0 {}).2 0 := by
  have h := clean2_opt_eq_unopt_full exEnv exPat exUnopt 2 {} id exInput exInputOK exUnopt_ok.1
    exUnopt_ok.2.1 exUnopt_ok.2.2 (by decide) 0 (Nat.zero_le _) {} {} rfl rfl
  have ht : (matchesFrom ((mkProgram exPat (optimize exEnv {} exUnopt) 2 {} false).ctx id exInput)
      (mkProgram exPat (optimize exEnv {} exUnopt) 2 {} false) 0 {}).1 = true := by decide +kernel
  exact ⟨(h.2 ht).1.symm, (h.2 ht).2.symm⟩

/-- the same from the pattern text: the two compilations of `a*b(c|d)+e` agree on every input of
    scalar values (hypotheses discharged by kernel evaluation of the un-optimised compilation) -/
theorem ex_from_text (input : List Nat) (hin : ∀ c ∈ input, c < cpLimit)
    (hsc : ∀ c ∈ input, isSurrogate c = false) (hlen : input.length < usizeMax) :
    ∀ pr bare, compileCore exEnv {} exPat true = .ok pr → compileCore exEnv {} exPat false = .ok bare →
      pr.isMatch id input = bare.isMatch id input := by
  intro pr bare h1 h0
  have hb : (bare.hasBackrefs = false ∧ cleanOp bare.op = true ∧ wfOp bare.op = true ∧ seqGe2 bare.op = true ∧
      endTop bare.op = true ∧ noEmptyAtoms bare.op = true ∧ clsCanonB bare.op = true ∧
      C02.capsPos bare.op = true) := by
    have hk : (match compileCore exEnv {} exPat false with
      | .ok b => !b.hasBackrefs && cleanOp b.op && wfOp b.op && seqGe2 b.op && endTop b.op &&
          noEmptyAtoms b.op && clsCanonB b.op && C02.capsPos b.op
      | _ => false) = true := by decide +kernel
    rw [h0] at hk
    simp only [Bool.and_eq_true, Bool.not_eq_true'] at hk
    exact ⟨hk.1.1.1.1.1.1.1, hk.1.1.1.1.1.1.2, hk.1.1.1.1.1.2, hk.1.1.1.1.2, hk.1.1.1.2, hk.1.1.2, hk.1.2, hk.2⟩
  obtain ⟨a, b, c, d, e, f, g, h⟩ := hb
  exact (compile_opt_eq_unopt exEnv {} exPat pr bare rfl h1 h0 a b c d e f g h id input
    (.of_caseSensitive rfl (fun _ _ hx => by cases hx) hin hsc) hlen).1

end example_

end Rx.Clean2End
