/-
  Props/C09e — the class parser UNDER FLAG i (`c.fl.caseBlind = true`), for the full class grammar
  of Props/C09c (`CExpr`: single characters, ranges, literal hyphens, class escapes, negation,
  nested subtraction).

  What the model parser does under flag i (`Model/Parser.lean`, `addCharCI`, `addClosureRange`,
  `clsSimple`):
    * a single character `a` (also a literal hyphen) adds `a` and every member of `env.closure a`;
    * a range `a-b` adds the whole interval `[a, b]` (surrogates included, exactly as without the
      flag) and then the closure of every NON-surrogate `y` with `a ≤ y ≤ b` (the loop skips
      surrogates; its fuel `b - a + 2` always reaches `b`);
    * class escapes (`\d`, `\P{L}`, ...) are NOT closed;
    * negation complements the closed set, subtraction removes the (closed) subtrahend.

  Definitions (helper file `Proofs/ClassCaseLemmas.lean`):
    closRange env fuel a b rs         `addClosureRange` written on the environment
    CExpr.denoteG env ci              the list the parser builds for flag value `ci`
                                      (`ci = false`: `CExpr.denote`, theorem `denoteG_false`)
    Item.MemI / CExpr.MemberI env x   the set-algebra reading under flag i
    ClosureOK env                     closure members are code points (`< cpLimit`)

  Headline theorems:
    parse_class_denote_i        the parser returns exactly `e.denoteI c.env`, consumes exactly `e`
    parse_class_denote_any      ... `e.denoteG c.env c.fl.caseBlind` for either value of the flag
    denoteI_member              `e.denoteI env` is canonical and contains `x` iff `e.MemberI env x`
    parse_class_full_i          both together
    positive_class_case_closed_partial / _false
                                a positive class of characters and ranges is closed under
                                `closure` when the closure relation is symmetric and transitive AND
                                surrogates have no closure; FALSE without the last hypothesis
    superset_of_cs              flag i only adds members to a positive class without subtraction
-/
import RxModel.Model.Parser
import RxModel.Props.C09c
import RxModel.Proofs.ClassCaseLemmas
import RxModel.Props.EnvStd
namespace Rx.C09
open Rx

/-! ### the denotation under flag i -/

/-- the inversion list of a class expression under flag i: as `CExpr.denote`, with the case
    closure added at single characters, literal hyphens and ranges -/
def CExpr.denoteI (env : Env) (e : CExpr) : Ranges := e.denoteG env true

/-- effect of a member on the character builder under flag i -/
theorem addBI_eq (env : Env) (b : Ranges) :
    (Item.one a).addBG env true b = addChars (env.closure a.val) (addChar a.val b) ∧
    (Item.range a a').addBG env true b =
      closRange env (a'.val - a.val + 2) a.val a'.val (addRange a.val (a'.val + 1) b) ∧
    Item.hyphen.addBG env true b = addChars (env.closure 45) (addChar 45 b) ∧
    (Item.cls e).addBG env true b = b ∧ (Item.prop pos name).addBG env true b = b :=
  ⟨rfl, rfl, rfl, rfl, rfl⟩

/-- compositional shape: `U` = (characters and ranges with their closures) ∪ class escapes;
    `[items]` = `U`, `[^items]` = complement of `U`, `[…-[sub]]` = … minus `sub.denoteI` -/
theorem denoteI_eq (env : Env) (neg : Bool) (items : List Item) (sub : CExpr) :
    let k := items.foldl (Item.stepG env true) { positive := !neg }
    let U := match k.addend with | some a => unionR k.builder a | none => k.builder
    (CExpr.leaf neg items).denoteI env = (if neg then complR U else U) ∧
    (CExpr.minus neg items sub).denoteI env =
      diffR (if neg then complR U else U) (sub.denoteI env) := by
  have hp := (foldl_stepG_fields env true items { positive := !neg }).2.2.1
  have hs := (foldl_stepG_fields env true items { positive := !neg }).2.2.2
  simp only [CExpr.denoteI, CExpr.denoteG, ClsSt.finish, hp, hs]
  cases neg <;> exact ⟨rfl, rfl⟩

/-! ### the parser under flag i -/

/-- for EITHER value of flag i the parser returns `e.denoteG c.env c.fl.caseBlind` and consumes
    exactly `e.render` -/
theorem parse_class_denote_any (c : PC) (e : CExpr)
    (hok : e.ok c.fl.xsd c.env = true) (s : PS) (rest : List Nat)
    (hpat : c.pat.drop s.idx = e.render ++ rest) (fuel : Nat) (hfuel : e.render.length ≤ fuel) :
    parseClass c fuel s =
      .ok (e.denoteG c.env c.fl.caseBlind) { s with idx := s.idx + e.render.length } :=
  parseClass_renderG e s rest fuel hok hpat hfuel

/-- UNDER FLAG i: the parser returns exactly `e.denoteI c.env`, consumes exactly `e.render` and
    leaves the rest of the parser state (group counters, captures, …) alone -/
theorem parse_class_denote_i (c : PC) (hci : c.fl.caseBlind = true) (e : CExpr)
    (hok : e.ok c.fl.xsd c.env = true) (s : PS) (rest : List Nat)
    (hpat : c.pat.drop s.idx = e.render ++ rest) (fuel : Nat) (hfuel : e.render.length ≤ fuel) :
    parseClass c fuel s = .ok (e.denoteI c.env) { s with idx := s.idx + e.render.length } := by
  rw [parse_class_denote_any c e hok s rest hpat fuel hfuel, hci]
  rfl

/-- the case-sensitive theorem of C09c is the other instance -/
theorem parse_class_denote_cs' (c : PC) (hci : c.fl.caseBlind = false) (e : CExpr)
    (hok : e.ok c.fl.xsd c.env = true) (s : PS) (rest : List Nat)
    (hpat : c.pat.drop s.idx = e.render ++ rest) (fuel : Nat) (hfuel : e.render.length ≤ fuel) :
    parseClass c fuel s = .ok (e.denote c.env) { s with idx := s.idx + e.render.length } := by
  rw [parse_class_denote_any c e hok s rest hpat fuel hfuel, hci, denoteG_false]

/-- `e.denoteI` is the set algebra under flag i: canonical, and `x` is in it iff `x` is (a member
    of some item or of the closure of a character of some item, XOR the class is negated) and not
    in the subtrahend -/
theorem denoteI_member (env : Env) (henv : EnvCanon env) (hc : ClosureOK env) (xsd : Bool) (e : CExpr)
    (hok : e.ok xsd env = true) :
    Canon (e.denoteI env) ∧
      ∀ x, x < cpLimit → (clsContains (e.denoteI env) x = true ↔ e.MemberI env x) :=
  ⟨(denoteI_spec henv hc 0 (by decide) e hok).1, fun x hx => (denoteI_spec henv hc x hx e hok).2⟩

/-- MAIN THEOREM under flag i -/
theorem parse_class_full_i (c : PC) (hci : c.fl.caseBlind = true) (henv : EnvCanon c.env)
    (hc : ClosureOK c.env) (e : CExpr)
    (hok : e.ok c.fl.xsd c.env = true) (s : PS) (rest : List Nat)
    (hpat : c.pat.drop s.idx = e.render ++ rest) (fuel : Nat) (hfuel : e.render.length ≤ fuel) :
    ∃ R, parseClass c fuel s = .ok R { s with idx := s.idx + e.render.length } ∧
      R = e.denoteI c.env ∧ Canon R ∧
      ∀ x, x < cpLimit → (clsContains R x = true ↔ e.MemberI c.env x) := by
  obtain ⟨h1, h2⟩ := denoteI_member c.env henv hc c.fl.xsd e hok
  exact ⟨_, parse_class_denote_i c hci e hok s rest hpat fuel hfuel, rfl, h1, h2⟩

/-- the fuel `parse_terminal` passes (`c.len + 2`) is always enough -/
theorem parse_class_full_i_terminal (c : PC) (hci : c.fl.caseBlind = true) (e : CExpr)
    (hok : e.ok c.fl.xsd c.env = true) (s : PS) (rest : List Nat)
    (hpat : c.pat.drop s.idx = e.render ++ rest) :
    parseClass c (c.len + 2) s = .ok (e.denoteI c.env) { s with idx := s.idx + e.render.length } := by
  apply parse_class_denote_i c hci e hok s rest hpat
  have := drop_len hpat
  simp only [List.length_append] at this
  omega

/-! ### case closure of positive classes -/

/-- the closure relation is symmetric and transitive on its domain -/
def ClosureEquiv (env : Env) : Prop :=
  (∀ x y, y ∈ env.closure x → x ∈ env.closure y) ∧
  (∀ x y z, y ∈ env.closure x → z ∈ env.closure y → z = x ∨ z ∈ env.closure x)

/-- surrogates have no case closure -/
def SurrogateFree (env : Env) : Prop := ∀ s, isSurrogate s = true → env.closure s = []

/-- single characters, literal hyphens and ranges only -/
def CharsOnly (items : List Item) : Prop := ∀ i ∈ items, i.isChars = true

/-- the target statement as given: for a negation-free, subtraction-free class of characters and
    ranges, the set denoted under flag i is closed under `closure` -/
def PositiveClassCaseClosed (env : Env) : Prop :=
  ClosureEquiv env → ∀ items, CharsOnly items → ∀ x y,
    (CExpr.leaf false items).MemberI env x → y ∈ env.closure x → (CExpr.leaf false items).MemberI env y

/-- TRUE VARIANT.  Missing from the target statement: surrogates must have no closure
    (`SurrogateFree`).  A range adds the surrogates it spans (as without the flag) but the closure
    loop skips them, so a surrogate with a non-empty closure would be a member whose case variants
    are not.  (Every environment whose closures are symmetric and consist of scalar values is
    `SurrogateFree`: `surrogateFree_of_scalar`.) -/
theorem positive_class_case_closed_partial (env : Env) (hsur : SurrogateFree env) :
    PositiveClassCaseClosed env := by
  intro heq items hitems x y hx hy
  simp only [CExpr.MemberI, iff_true] at hx ⊢
  obtain ⟨i, hi, hm⟩ := hx
  exact ⟨i, hi, Item.memI_closed heq.2 hsur (hitems i hi) hm hy⟩

/-- only the transitivity clause of `ClosureEquiv` is used (symmetry is not needed) -/
theorem positive_class_case_closed_of_trans (env : Env) (hsur : SurrogateFree env)
    (htr : ∀ x y z, y ∈ env.closure x → z ∈ env.closure y → z = x ∨ z ∈ env.closure x)
    (items : List Item) (hitems : CharsOnly items) (x y : Nat)
    (hx : (CExpr.leaf false items).MemberI env x) (hy : y ∈ env.closure x) :
    (CExpr.leaf false items).MemberI env y := by
  simp only [CExpr.MemberI, iff_true] at hx ⊢
  obtain ⟨i, hi, hm⟩ := hx
  exact ⟨i, hi, Item.memI_closed htr hsur (hitems i hi) hm hy⟩

/-- symmetric closures that contain only scalar values: surrogates have no closure -/
theorem surrogateFree_of_scalar (env : Env) (hsym : ∀ x y, y ∈ env.closure x → x ∈ env.closure y)
    (hsc : ∀ a x, x ∈ env.closure a → isSurrogate x = false) : SurrogateFree env := by
  intro s hs
  apply List.eq_nil_iff_forall_not_mem.2
  intro y hy
  have := hsc y s (hsym s y hy)
  rw [hs] at this
  cases this

/-- an environment in which the surrogate U+D800 and the character 5 are case variants of each
    other -/
def envBad : Env :=
  { envT with closure := fun x => if x = 55296 then [5] else if x = 5 then [55296] else [] }

theorem envBad_equiv : ClosureEquiv envBad := by
  constructor
  · intro x y h
    simp only [envBad] at h ⊢
    by_cases h1 : x = 55296
    · subst h1
      simp only [if_true, List.mem_singleton] at h
      subst h
      simp
    · by_cases h2 : x = 5
      · subst h2
        simp only [if_neg h1, if_true, List.mem_singleton] at h
        subst h
        simp
      · simp [h1, h2] at h
  · intro x y z h h'
    simp only [envBad] at h h' ⊢
    by_cases h1 : x = 55296
    · subst h1
      simp only [if_true, List.mem_singleton] at h
      subst h
      simp at h'
      exact Or.inl h'
    · by_cases h2 : x = 5
      · subst h2
        simp only [if_neg h1, if_true, List.mem_singleton] at h
        subst h
        simp at h'
        exact Or.inl h'
      · simp [h1, h2] at h

/-- REFUTATION of the target statement without `SurrogateFree`: in `envBad` the class
    `[\x{D800}-\x{D801}]` contains U+D800 under flag i but not its case variant 5 -/
theorem positive_class_case_closed_false : ∃ env, ¬ PositiveClassCaseClosed env := by
  refine ⟨envBad, fun h => ?_⟩
  have h1 := h envBad_equiv [.range (.plain 55296) (.plain 55297)]
    (by intro i hi; simp only [List.mem_singleton] at hi; subst hi; rfl) 55296 5
    (by
      simp only [CExpr.MemberI, iff_true]
      exact ⟨_, List.mem_singleton.2 rfl, Or.inl ⟨by simp [Single.val], by simp [Single.val]⟩⟩)
    (by simp [envBad])
  simp only [CExpr.MemberI, iff_true] at h1
  obtain ⟨i, hi, hm⟩ := h1
  simp only [List.mem_singleton] at hi
  subst hi
  rcases hm with ⟨h2, _⟩ | ⟨y, h2, h3, h4, _⟩
  · simp [Single.val] at h2
  · simp only [Single.val] at h2 h3
    have : y = 55296 ∨ y = 55297 := by omega
    rcases this with rfl | rfl <;> simp [isSurrogate] at h4

/-- flag i only ADDS members to a positive class without subtraction (class escapes included) -/
theorem superset_of_cs (env : Env) (items : List Item) (x : Nat)
    (h : (CExpr.leaf false items).Member env x) : (CExpr.leaf false items).MemberI env x := by
  simp only [CExpr.Member, CExpr.MemberI, iff_true] at h ⊢
  obtain ⟨i, hi, hm⟩ := h
  exact ⟨i, hi, Item.memI_of_mem hm⟩

/-- … and, dually, only REMOVES members from a negated class without subtraction -/
theorem subset_of_cs_neg (env : Env) (items : List Item) (x : Nat)
    (h : (CExpr.leaf true items).MemberI env x) : (CExpr.leaf true items).Member env x := by
  simp only [CExpr.Member, CExpr.MemberI, iff_false, Bool.true_eq_false] at h ⊢
  rintro ⟨i, hi, hm⟩
  exact h ⟨i, hi, Item.memI_of_mem hm⟩

/-! ### non-vacuity: a small environment in which `a` (97) and `A` (65) are case variants -/

def envI : Env :=
  { envT with closure := fun x => if x = 97 then [65] else if x = 65 then [97] else [] }

theorem envI_canon : EnvCanon envI where
  digit := envT_canon.digit
  word := envT_canon.word
  nameStart := envT_canon.nameStart
  nameChar := envT_canon.nameChar
  category := envT_canon.category
  block := envT_canon.block

theorem envI_closureOK : ClosureOK envI := by
  intro a x h
  simp only [envI] at h
  split at h
  · simp only [List.mem_singleton] at h; subst h; decide
  · split at h
    · simp only [List.mem_singleton] at h; subst h; decide
    · cases h

theorem envI_equiv : ClosureEquiv envI := by
  constructor
  · intro x y h
    simp only [envI] at h ⊢
    by_cases h1 : x = 97
    · subst h1
      simp only [if_true, List.mem_singleton] at h
      subst h
      simp
    · by_cases h2 : x = 65
      · subst h2
        simp only [if_neg h1, if_true, List.mem_singleton] at h
        subst h
        simp
      · simp [h1, h2] at h
  · intro x y z h h'
    simp only [envI] at h h' ⊢
    by_cases h1 : x = 97
    · subst h1
      simp only [if_true, List.mem_singleton] at h
      subst h
      simp at h'
      exact Or.inl h'
    · by_cases h2 : x = 65
      · subst h2
        simp only [if_neg h1, if_true, List.mem_singleton] at h
        subst h
        simp at h'
        exact Or.inl h'
      · simp [h1, h2] at h

theorem envI_surrogateFree : SurrogateFree envI := by
  intro s hs
  simp only [envI]
  have h1 : s ≠ 97 := by rintro rfl; simp [isSurrogate] at hs
  have h2 : s ≠ 65 := by rintro rfl; simp [isSurrogate] at hs
  simp [h1, h2]

/-- the class parser on a whole pattern under flag i, XPath dialect -/
def runI (pat : List Nat) : Res :=
  resOf (parseClass ⟨pat, { caseBlind := true }, envI⟩ (pat.length + 2) {})

/-- `[a-c]` -/
def exAC : CExpr := .leaf false [.range (.plain 97) (.plain 99)]

example : exAC.render = [91, 97, 45, 99, 93] := by decide
example : exAC.ok false envI = true := by decide
/-- `[a-c]` under i is `{A, a, b, c}`: it contains 65 -/
example : runI exAC.render = .ok ([(65, 66), (97, 100)], 5) := by decide +kernel
example : exAC.denoteI envI = [(65, 66), (97, 100)] := by decide +kernel
example : clsContains (exAC.denoteI envI) 65 = true ∧ clsContains (exAC.denoteI envI) 66 = false := by
  decide +kernel
/-- … and without the flag it does not -/
example : exAC.denote envI = [(97, 100)] := by decide +kernel

/-- `parse_class_full_i` applies (all hypotheses are met) -/
example : ∃ R, parseClass ⟨exAC.render, { caseBlind := true }, envI⟩ 7 {} = .ok R { idx := 5 } ∧
    R = exAC.denoteI envI ∧ Canon R ∧
    ∀ x, x < cpLimit → (clsContains R x = true ↔ exAC.MemberI envI x) :=
  parse_class_full_i ⟨exAC.render, { caseBlind := true }, envI⟩ rfl envI_canon envI_closureOK exAC
    (by decide) {} [] (by decide) 7 (by decide)

/-- `denoteI_member`, `positive_class_case_closed_partial`, `superset_of_cs` apply -/
example : exAC.MemberI envI 65 :=
  ((denoteI_member envI envI_canon envI_closureOK false exAC (by decide)).2 65 (by decide)).1
    (by decide +kernel)
example : exAC.MemberI envI 65 :=
  positive_class_case_closed_partial envI envI_surrogateFree envI_equiv _
    (by intro i hi; simp only [List.mem_singleton] at hi; subst hi; rfl) 97 65
    (superset_of_cs envI _ 97 (by
      simp only [CExpr.Member, iff_true]
      exact ⟨_, List.mem_singleton.2 rfl, by simp [Item.Mem, Single.val]⟩))
    (by simp [envI])

/-- negation complements the closed set, subtraction removes the closed subtrahend:
    `[^a]` under i excludes `A`; `[a-c-[A]]` under i is `{b, c}`; class escapes are not closed:
    `[\p{Nd}a]` -/
example : runI [91, 94, 97, 93] = .ok ([(0, 65), (66, 97), (98, 1114112)], 4) := by decide +kernel
example : runI [91, 97, 45, 99, 45, 91, 65, 93, 93] = .ok ([(98, 100)], 9) := by decide +kernel
example : (CExpr.minus false [.range (.plain 97) (.plain 99)] (.leaf false [.one (.plain 65)])).denoteI envI
    = [(98, 100)] := by decide +kernel
example : runI [91, 92, 112, 123, 78, 100, 125, 97, 93] = .ok ([(48, 58), (65, 66), (97, 98)], 9) := by
  decide +kernel

/-! ### the standard environment (the generated ICU tables) -/

theorem closureOK_std : ClosureOK Env.std := EnvStd.closure_bound_std

/-- under flag i, with the real tables: the parser builds the canonical list of `e.MemberI` -/
theorem parse_class_full_i_std (c : PC) (hci : c.fl.caseBlind = true) (henv : c.env = Env.std)
    (e : CExpr) (hok : e.ok c.fl.xsd c.env = true) (s : PS) (rest : List Nat)
    (hpat : c.pat.drop s.idx = e.render ++ rest) (fuel : Nat) (hfuel : e.render.length ≤ fuel) :
    ∃ R, parseClass c fuel s = .ok R { s with idx := s.idx + e.render.length } ∧
      R = e.denoteI c.env ∧ Canon R ∧
      ∀ x, x < cpLimit → (clsContains R x = true ↔ e.MemberI c.env x) :=
  parse_class_full_i c hci (henv ▸ EnvStd.envStd_canon) (henv ▸ closureOK_std) e hok s rest hpat
    fuel hfuel

/-- the hypotheses of `parse_class_full_i_std` are satisfiable: `[a-c]` against the real tables -/
example : ∃ R, parseClass ⟨exAC.render, { caseBlind := true }, Env.std⟩ 7 {} = .ok R { idx := 5 } ∧
    R = exAC.denoteI Env.std ∧ Canon R ∧
    ∀ x, x < cpLimit → (clsContains R x = true ↔ exAC.MemberI Env.std x) :=
  parse_class_full_i_std ⟨exAC.render, { caseBlind := true }, Env.std⟩ rfl rfl exAC (by decide) {} []
    (by decide) 7 (by decide)

end Rx.C09
