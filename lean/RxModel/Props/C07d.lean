/-
  Props/C07d — C07 as ONE theorem, nothing left as a hypothesis except that the pattern consists of
  code points (which a Rust `&str` guarantees): the compiler accepts a pattern if and only if the
  pattern is the rendering of a tree of the XPath / XSD regular-expression grammar
  (`Spec/Grammar.lean`, character classes via `C09.CExpr`) that is well formed for the dialect and
  the environment, with quantities below 2^64 (`ParserQuirkFree`, the one deviation kept visible);
  every rejection is `Error::Syntax`.  Obtained by plugging the class-parser inversion
  (`C09.parse_class_inv`, Props/C09d) into `C07c.compile_iff`.
-/
import RxModel.Props.C07c
import RxModel.Props.C09d
namespace Rx.C07d
open Rx Rx.Grammar
open Rx.C07b (ParserQuirkFree)

/-- the class-parser inversion is exactly the hypothesis `ClassInv` of C07c -/
theorem classInv_of_scalar (c : PC) (hps : C09.PatScalar c) : ClassInv c := by
  intro fuel s R s' h
  obtain ⟨e, hok, htake, _, hlt, hle, _⟩ := C09.parse_class_inv c hps fuel s s' R h
  exact ⟨e, hok, htake, hlt, hle⟩

/-- `Regex::xpath(p)` / `Regex::xsd(p)` (before the nullability probe) succeeds iff `p` conforms to the grammar -/
theorem compile_iff_full (env : Env) (fl : CFlags) (hlit : fl.literal = false) (pat : List Nat)
    (hps : ∀ x ∈ pat, x < cpLimit) (opt : Bool) :
    (∃ pr, compileCore env fl pat opt = .ok pr) ↔
      ∃ a : Ast, a.okFor fl.xsd env = true ∧ ParserQuirkFree a ∧ pat = a.render :=
  C07c.compile_iff env fl hlit pat (classInv_of_scalar { pat := pat, fl := fl, env := env } hps) opt

/-- the compiler itself never panics or diverges on a non-literal pattern: its result is `.ok` or `.err` -/
theorem compileCore_ok_or_err (env : Env) (fl : CFlags) (hlit : fl.literal = false) (pat : List Nat) (opt : Bool) :
    (∃ pr, compileCore env fl pat opt = .ok pr) ∨ (∃ e, compileCore env fl pat opt = .err e) := by
  unfold compileCore
  simp only [hlit, Bool.false_eq_true, if_false]
  cases hp : parseExpr { pat := pat, fl := fl, env := env } (4 * pat.length + 16) {} true with
  | err e => exact .inr ⟨e, rfl⟩
  | ok op s =>
    simp only
    by_cases hidx : (s.idx != pat.length) = true
    · simp only [hidx, if_true]; exact .inr ⟨_, rfl⟩
    · simp only [hidx, Bool.false_eq_true, if_false]
      cases opt
      · simp only [Bool.false_eq_true, if_false]; exact .inl ⟨_, rfl⟩
      · simp only [if_true]; exact .inl ⟨_, rfl⟩

/-- … and a pattern outside the grammar is rejected with `Error::Syntax` (never `Error::Internal`) -/
theorem reject_syntax_full (env : Env) (fl : CFlags) (hlit : fl.literal = false) (pat : List Nat)
    (hps : ∀ x ∈ pat, x < cpLimit) (opt : Bool)
    (hno : ¬ ∃ a : Ast, a.okFor fl.xsd env = true ∧ ParserQuirkFree a ∧ pat = a.render) :
    compileCore env fl pat opt = .err .syntax := by
  have hnot : ¬ ∃ pr, compileCore env fl pat opt = .ok pr :=
    fun h => hno ((compile_iff_full env fl hlit pat hps opt).1 h)
  rcases compileCore_ok_or_err env fl hlit pat opt with h | ⟨e, he⟩
  · exact absurd h hnot
  · rw [he, C07c.compileCore_err_syntax env fl pat opt e he]

end Rx.C07d
