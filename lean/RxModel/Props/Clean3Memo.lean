/-
  Props/Clean3Memo — SKIPPABLE general greedy repeats (`(?:ab|c)*d`, `x(?:a|bc)*y`, `{0,n}`) at the level of
  the whole search, by a MEMO INVARIANT.

  `CompleteAt` (Props/SearchComplete) is false for these programs (`Clean3.completeAt_min0_false`): the
  zero-length-match memo `st.hist` is written when a `min = 0` repeat is ENTERED, suppresses the
  zero-iteration alternative when the same repeat is entered again at the same position, and is never
  cleared by `matches` (Model/Search).  What is true instead:

  SHAPE COVERED (`Memo.cleanProg3m`): the program's tree is a root sequence whose elements are either in
  the fragment of Spec/Enum3 (anchors, literals, classes, captures, alternations, nested sequences, fixed
  quantifiers, justified `UnambiguousRepeat`s, general repeats with `min ≥ 1` — none of which writes the
  memo) or a SKIPPABLE general greedy repeat `.rep id c 0 mx true` over a rep-free, non-nullable,
  end-deterministic body; the keys `id` of the skippable repeats pairwise distinct (what `numberReps` builds).
  Skippable repeats under a capture / alternation of the root are NOT covered.

  THE INVARIANT (`Memo.HR ctx l st`): for every skippable repeat `id` of the root sequence `l`, with
  followers `B`, and every entry `(id, p)` of the memo: the followers have NO match from `p`
  (`¬ ∃ q, OpRSeq ctx B p q`) — skipping the repeat at `p` is hopeless, so suppressing that alternative
  loses nothing.  It depends on the memo only, holds of the empty memo, and:

    `matchAt_complete`     from a state satisfying it, `match_at(j)` succeeds IFF the language has a member
                           from `j` (sound and complete), and a FAILED attempt leaves it intact
                           — although entries are written on entry: an entry `(id, p)` is exposed to the
                           followers only (whose own invariant does not mention `id`), and when the
                           repeat's iterator is exhausted every end, `p` included, has been tried
    `clean3m_outcome`      `matches(i)` with all five shortcuts: the outcome of Props/SearchComplete
                           (least start, clean state) from every state with `panic = none ∧ HR`;
                           a failed search leaves such a state
    `clean3m_isMatch_iff` / `clean3m_isMatch_false`      C01 both directions for `mkProgram` programs
    `clean3m_matchesFrom_iff`, `clean3m_match_is_leftmost`

  AFTER A SUCCESSFUL `matches` the invariant can FAIL (`memo_after_success`): the entry on the successful
  path was written but its zero-iteration alternative never explored.  The scan loops (`replace`,
  `tokenize`, `analyze`) keep the matcher state between `matches` calls, so this is where a K3-like bug
  could surface.  Kernel-checked: for the NULLABLE pattern `x?(?:ab|c)*` on "x" the second `matches` (from
  1) fails with the threaded state and succeeds (empty match at 1) from a fresh one.  It is not
  observable through the API: every scan entry point rejects nullable regexes (`Regex.replaceAll`,
  `tokenize`, `analyze`: `matchesEmptyString`), and for NON-nullable patterns a live entry `(id, p)` from a
  successful match `[j, n)` has `p ≤ n`, the next search starts at `n`, and re-entering the repeat at `n`
  with everything around it empty would make the pattern nullable.  Experiment (`x?(?:ab|c)*d`,
  `(?:d|x)?(?:ab|c)*d`, `d*(?:ab|c)*d`, `(?:d(?:ab|c)*|x)d`, `(?:a|b)?(?:ab|c)*(?:d|b)`, `(?:ab|c)*(?:d|cd)`,
  `(?:ab|c)*d`; all inputs up to length 6–7 over the pattern's alphabet, ≈ 145 000 scans): the span
  sequence with the threaded memo equals the one with the memo reset before every `matches`.  NOT PROVED.
-/
import RxModel.Proofs.MemoLemmas
namespace Rx.Clean3Memo
open Rx Rx.SearchComplete Rx.Memo
open Rx.C08 (noEmptyAtoms)

/-! ## `match_at` -/

/-- sound, complete, and invariant-preserving on failure -/
theorem matchAt_complete (env : Env) (ctx : Ctx) (hIn : InputOK env ctx) (l : List Op)
    (hc : cleanProg3m env ctx.caseBlind ctx.multiLine (.seq l) = true) (hw : wfOp (.seq l) = true)
    (hn : noEmptyAtoms (.seq l) = true) (hcan : clsCanonB (.seq l) = true)
    (j : Nat) (hj : j ≤ ctx.len) (st : St) (hst : HR ctx l st) :
    ((matchAt ctx (.seq l) j st).1 = true ↔ ∃ q, OpR ctx (.seq l) j q) ∧
    ((matchAt ctx (.seq l) j st).1 = false → HR ctx l (matchAt ctx (.seq l) j st).2) :=
  matchAt_memo env ctx hIn l hc hw hn (clsCanon_of_B _ hcan) j hj st hst

/-- the invariant holds of a fresh matcher -/
theorem HR_fresh (ctx : Ctx) (l : List Op) : HR ctx l {} := HR_of_nil ctx l {} rfl

/-! ## `matches` -/

theorem clean3m_outcome (env : Env) (pat : List Nat) (op : Op) (mp : Nat) (fl : CFlags)
    (lower : Nat → Nat) (input : List Nat) (hI : InputOKFor env fl lower input) (l : List Op)
    (hop : (mkProgram pat op mp fl false).op = .seq l)
    (hc : cleanProg3m env fl.caseBlind fl.multiLine (.seq l) = true)
    (hwf : wfOp op = true) (hne : noEmptyAtoms op = true) (hcan : clsCanonB (.seq l) = true)
    (hlen : input.length < usizeMax)
    (i : Nat) (hi : i ≤ input.length) (st : St) (hp : st.panic = none)
    (hm : HR ((mkProgram pat op mp fl false).ctx lower input) l st) :
    OutcomeM ((mkProgram pat op mp fl false).ctx lower input) l i
      (matchesFrom ((mkProgram pat op mp fl false).ctx lower input) (mkProgram pat op mp fl false) i st) := by
  obtain ⟨T, F, hP⟩ := program_facts env pat op mp fl lower input hI l hop hc hwf hne hcan hlen
  exact matchesFrom_outcome_memo hop T F hlen hP i hi st ⟨hp, hm⟩

/-- `matches(i)` from a state satisfying the invariant: true iff some start `≥ i` has a match; the state
    stays panic-free; after a failure the invariant still holds -/
theorem clean3m_matchesFrom_iff (env : Env) (pat : List Nat) (op : Op) (mp : Nat) (fl : CFlags)
    (lower : Nat → Nat) (input : List Nat) (hI : InputOKFor env fl lower input) (l : List Op)
    (hop : (mkProgram pat op mp fl false).op = .seq l)
    (hc : cleanProg3m env fl.caseBlind fl.multiLine (.seq l) = true)
    (hwf : wfOp op = true) (hne : noEmptyAtoms op = true) (hcan : clsCanonB (.seq l) = true)
    (hlen : input.length < usizeMax)
    (i : Nat) (hi : i ≤ input.length) (st : St) (hp : st.panic = none)
    (hm : HR ((mkProgram pat op mp fl false).ctx lower input) l st) :
    ((matchesFrom ((mkProgram pat op mp fl false).ctx lower input) (mkProgram pat op mp fl false) i st).1 = true ↔
      ∃ j q, i ≤ j ∧ j ≤ input.length ∧
        OpR ((mkProgram pat op mp fl false).ctx lower input) (mkProgram pat op mp fl false).op j q) ∧
    (matchesFrom ((mkProgram pat op mp fl false).ctx lower input) (mkProgram pat op mp fl false) i st).2.panic = none ∧
    ((matchesFrom ((mkProgram pat op mp fl false).ctx lower input) (mkProgram pat op mp fl false) i st).1 = false →
      HR ((mkProgram pat op mp fl false).ctx lower input) l
        (matchesFrom ((mkProgram pat op mp fl false).ctx lower input) (mkProgram pat op mp fl false) i st).2) := by
  have ho := clean3m_outcome env pat op mp fl lower input hI l hop hc hwf hne hcan hlen i hi st hp hm
  rw [hop]
  exact ⟨ho.1.iff, ho.1.clean, ho.2⟩

/-- on success group 0 starts at the LEAST start `≥ i` that has a match and ends at a member of the
    language from there -/
theorem clean3m_match_is_leftmost (env : Env) (pat : List Nat) (op : Op) (mp : Nat) (fl : CFlags)
    (lower : Nat → Nat) (input : List Nat) (hI : InputOKFor env fl lower input) (l : List Op)
    (hop : (mkProgram pat op mp fl false).op = .seq l)
    (hc : cleanProg3m env fl.caseBlind fl.multiLine (.seq l) = true)
    (hwf : wfOp op = true) (hne : noEmptyAtoms op = true) (hcan : clsCanonB (.seq l) = true)
    (hcp : C02.capsPos op = true) (hlen : input.length < usizeMax)
    (i : Nat) (hi : i ≤ input.length) (st st' : St) (hp : st.panic = none)
    (hm : HR ((mkProgram pat op mp fl false).ctx lower input) l st)
    (h : matchesFrom ((mkProgram pat op mp fl false).ctx lower input) (mkProgram pat op mp fl false) i st
      = (true, st')) :
    ∃ j n, getParenStart st' 0 = some j ∧ getParenEnd st' 0 = some n ∧ i ≤ j ∧ j ≤ n ∧ n ≤ input.length ∧
      OpR ((mkProgram pat op mp fl false).ctx lower input) (mkProgram pat op mp fl false).op j n ∧
      ∀ k q, i ≤ k → k < j →
        ¬ OpR ((mkProgram pat op mp fl false).ctx lower input) (mkProgram pat op mp fl false).op k q := by
  have ho := clean3m_outcome env pat op mp fl lower input hI l hop hc hwf hne hcan hlen i hi st hp hm
  obtain ⟨hnum, _⟩ := WF.mkProgram_op pat op mp fl false
  have hwT : wfOp (.seq l) = true := by rw [← hop, hnum, WF.wfOp_numberReps]; exact hwf
  have hcT : C02.capsPos (.seq l) = true := by rw [← hop, hnum, WF.capsPos_numberReps]; exact hcp
  have := ho.1.leftmost hwT hcT (by rw [h])
  rw [h] at this
  rw [hop]
  exact this

/-! ## `is_match` -/

theorem clean3m_isMatch_ok (env : Env) (pat : List Nat) (op : Op) (mp : Nat) (fl : CFlags)
    (lower : Nat → Nat) (input : List Nat) (hI : InputOKFor env fl lower input) (l : List Op)
    (hop : (mkProgram pat op mp fl false).op = .seq l)
    (hc : cleanProg3m env fl.caseBlind fl.multiLine (.seq l) = true)
    (hwf : wfOp op = true) (hne : noEmptyAtoms op = true) (hcan : clsCanonB (.seq l) = true)
    (hlen : input.length < usizeMax) :
    ∃ b, (mkProgram pat op mp fl false).isMatch lower input = .ok b ∧
      (b = true ↔ ∃ j q, j ≤ input.length ∧
        OpR ((mkProgram pat op mp fl false).ctx lower input) (mkProgram pat op mp fl false).op j q) := by
  have ho := clean3m_outcome env pat op mp fl lower input hI l hop hc hwf hne hcan hlen 0 (Nat.zero_le _) {} rfl
    (HR_fresh _ l)
  have hiff := ho.1.iff
  have hcl := ho.1.clean
  rw [hop]
  unfold Prog.isMatch
  generalize matchesFrom ((mkProgram pat op mp fl false).ctx lower input) (mkProgram pat op mp fl false) 0 {} = r at *
  obtain ⟨m, st⟩ := r
  simp only at hcl hiff ⊢
  rw [hcl]
  refine ⟨m, rfl, hiff.trans ?_⟩
  constructor
  · rintro ⟨j, q, _, h2, h3⟩; exact ⟨j, q, h2, h3⟩
  · rintro ⟨j, q, h2, h3⟩; exact ⟨j, q, Nat.zero_le _, h2, h3⟩

/-- C01, both directions, for programs with skippable general repeats in their root sequence -/
theorem clean3m_isMatch_iff (env : Env) (pat : List Nat) (op : Op) (mp : Nat) (fl : CFlags)
    (lower : Nat → Nat) (input : List Nat) (hI : InputOKFor env fl lower input) (l : List Op)
    (hop : (mkProgram pat op mp fl false).op = .seq l)
    (hc : cleanProg3m env fl.caseBlind fl.multiLine (.seq l) = true)
    (hwf : wfOp op = true) (hne : noEmptyAtoms op = true) (hcan : clsCanonB (.seq l) = true)
    (hlen : input.length < usizeMax) :
    (mkProgram pat op mp fl false).isMatch lower input = .ok true ↔
      ∃ j q, j ≤ input.length ∧
        OpR ((mkProgram pat op mp fl false).ctx lower input) (mkProgram pat op mp fl false).op j q := by
  obtain ⟨b, hb, hiff⟩ := clean3m_isMatch_ok env pat op mp fl lower input hI l hop hc hwf hne hcan hlen
  rw [hb]
  constructor
  · intro h
    simp only [Out.ok.injEq] at h
    exact hiff.1 h
  · intro h
    rw [hiff.2 h]

theorem clean3m_isMatch_false (env : Env) (pat : List Nat) (op : Op) (mp : Nat) (fl : CFlags)
    (lower : Nat → Nat) (input : List Nat) (hI : InputOKFor env fl lower input) (l : List Op)
    (hop : (mkProgram pat op mp fl false).op = .seq l)
    (hc : cleanProg3m env fl.caseBlind fl.multiLine (.seq l) = true)
    (hwf : wfOp op = true) (hne : noEmptyAtoms op = true) (hcan : clsCanonB (.seq l) = true)
    (hlen : input.length < usizeMax)
    (hno : ¬ ∃ j q, j ≤ input.length ∧
        OpR ((mkProgram pat op mp fl false).ctx lower input) (mkProgram pat op mp fl false).op j q) :
    (mkProgram pat op mp fl false).isMatch lower input = .ok false := by
  obtain ⟨b, hb, hiff⟩ := clean3m_isMatch_ok env pat op mp fl lower input hI l hop hc hwf hne hcan hlen
  rw [hb]
  cases b with
  | false => rfl
  | true => exact absurd (hiff.1 rfl) hno

/-! ## examples: `(?:ab|c)*d` and `x(?:a|bc)*y` -/
section examples

def exEnv : Env :=
  { lower := id, closure := fun _ => [], category := fun _ => none, block := fun _ => none,
    digit := [], word := [], nameStart := [], nameChar := [] }

/-- `(?:ab|c)*d`, as handed to `ReProgram::new` -/
def starTree : Op :=
  .seq [.rep 0 (.choice [.atom [97, 98], .atom [99]]) 0 usizeMax true, .atom [100], .endProgram]
/-- … and numbered -/
def starList : List Op :=
  [.rep 1 (.choice [.atom [97, 98], .atom [99]]) 0 usizeMax true, .atom [100], .endProgram]
def starProg : Prog := mkProgram [] starTree 1 {} false

/-- `x(?:a|bc)*y` -/
def xyTree : Op :=
  .seq [.atom [120], .rep 0 (.choice [.atom [97], .atom [98, 99]]) 0 usizeMax true, .atom [121], .endProgram]
def xyList : List Op :=
  [.atom [120], .rep 1 (.choice [.atom [97], .atom [98, 99]]) 0 usizeMax true, .atom [121], .endProgram]
def xyProg : Prog := mkProgram [] xyTree 1 {} false

theorem star_op : starProg.op = .seq starList := rfl
theorem xy_op : xyProg.op = .seq xyList := rfl

/-- the decidable hypotheses — and the compiler's output for the pattern texts has these trees -/
theorem ex_ok :
    cleanProg3m exEnv false false (.seq starList) = true ∧ wfOp starTree = true ∧ noEmptyAtoms starTree = true ∧
    clsCanonB (.seq starList) = true ∧
    cleanProg3m exEnv false false (.seq xyList) = true ∧ wfOp xyTree = true ∧ noEmptyAtoms xyTree = true ∧
    clsCanonB (.seq xyList) = true := by
  refine ⟨?_, ?_, ?_, ?_, ?_, ?_, ?_, ?_⟩ <;> decide +kernel

theorem ex_compiled :
    (match compileCore exEnv {} [40, 63, 58, 97, 98, 124, 99, 41, 42, 100] true with
     | .ok pr => cleanProg3m exEnv false false pr.op && (pr.isMatch id [97, 98, 99, 100] == starProg.isMatch id [97, 98, 99, 100])
     | _ => false) = true ∧
    (match compileCore exEnv {} [120, 40, 63, 58, 97, 124, 98, 99, 41, 42, 121] true with
     | .ok pr => cleanProg3m exEnv false false pr.op && (pr.isMatch id [120, 97, 98, 99, 121] == xyProg.isMatch id [120, 97, 98, 99, 121])
     | _ => false) = true := by decide +kernel

theorem exInputOK (input : List Nat) (hin : ∀ c ∈ input, c < cpLimit) (hsc : ∀ c ∈ input, isSurrogate c = false) :
    InputOKFor exEnv {} id input :=
  .of_caseSensitive rfl (fun _ _ h => by cases h) hin hsc

/-- `clean3m_isMatch_iff` instantiated: for EVERY input of scalar values -/
theorem star_isMatch_iff (input : List Nat) (hin : ∀ c ∈ input, c < cpLimit)
    (hsc : ∀ c ∈ input, isSurrogate c = false) (hlen : input.length < usizeMax) :
    starProg.isMatch id input = .ok true ↔
      ∃ j q, j ≤ input.length ∧ OpR (starProg.ctx id input) starProg.op j q :=
  clean3m_isMatch_iff exEnv [] starTree 1 {} id input (exInputOK input hin hsc) starList star_op
    ex_ok.1 ex_ok.2.1 ex_ok.2.2.1 ex_ok.2.2.2.1 hlen

theorem xy_isMatch_iff (input : List Nat) (hin : ∀ c ∈ input, c < cpLimit)
    (hsc : ∀ c ∈ input, isSurrogate c = false) (hlen : input.length < usizeMax) :
    xyProg.isMatch id input = .ok true ↔
      ∃ j q, j ≤ input.length ∧ OpR (xyProg.ctx id input) xyProg.op j q :=
  clean3m_isMatch_iff exEnv [] xyTree 1 {} id input (exInputOK input hin hsc) xyList xy_op
    ex_ok.2.2.2.2.1 ex_ok.2.2.2.2.2.1 ex_ok.2.2.2.2.2.2.1 ex_ok.2.2.2.2.2.2.2 hlen

/-- the computed answers (kernel evaluation) on a few inputs: "xabcd" ✓, "abcab" ✗, "d" ✓, "" ✗;
    "zxabcay" ✓, "xy" ✓, "xaby" ✗ -/
theorem ex_computed :
    starProg.isMatch id [120, 97, 98, 99, 100] = .ok true ∧ starProg.isMatch id [97, 98, 99, 97, 98] = .ok false ∧
    starProg.isMatch id [100] = .ok true ∧ starProg.isMatch id [] = .ok false ∧
    xyProg.isMatch id [122, 120, 97, 98, 99, 97, 121] = .ok true ∧ xyProg.isMatch id [120, 121] = .ok true ∧
    xyProg.isMatch id [120, 97, 98, 121] = .ok false := by decide +kernel

/-- … agree with the right-hand side: e.g. the language of `(?:ab|c)*d` has a member in "xabcd" (1 → 5) and
    none in "abcab" -/
theorem ex_rhs :
    (∃ j q, j ≤ 5 ∧ OpR (starProg.ctx id [120, 97, 98, 99, 100]) starProg.op j q) ∧
    ¬ (∃ j q, j ≤ 5 ∧ OpR (starProg.ctx id [97, 98, 99, 97, 98]) starProg.op j q) :=
  ⟨(star_isMatch_iff _ (by decide) (by decide) (by decide)).1 ex_computed.1,
   fun h => by
     have := (star_isMatch_iff [97, 98, 99, 97, 98] (by decide) (by decide) (by decide)).2 h
     rw [ex_computed.2.1] at this
     cases this⟩

end examples

/-! ## after a SUCCESSFUL `matches` the invariant can fail — visible only for nullable patterns -/
section after_success

/-- `x?(?:ab|c)*` as the compiler builds it (nullable: every scan API rejects it) -/
def nullProg : Prog :=
  mkProgram [] (.seq [.gfixed (.atom [120]) 0 1 1, .rep 0 (.choice [.atom [97, 98], .atom [99]]) 0 usizeMax true,
    .endProgram]) 1 {} false

theorem nullProg_compiled :
    (match compileCore exEnv {} [120, 63, 40, 63, 58, 97, 98, 124, 99, 41, 42] true with
     | .ok pr => (pr.isMatch id [] == .ok true) &&
         ((matchesFrom (pr.ctx id [120]) pr 1 (matchesFrom (pr.ctx id [120]) pr 0 {}).2).1 ==
          (matchesFrom (nullProg.ctx id [120]) nullProg 1 (matchesFrom (nullProg.ctx id [120]) nullProg 0 {}).2).1)
     | _ => false) = true := by decide +kernel

/-- on "x": the first `matches(0)` reports (0, 1) and leaves the entry (1, 1) although skipping the repeat at
    1 DOES lead to a match; the second `matches(1)` from that state fails, from a fresh state it succeeds
    with the empty match at 1 -/
theorem memo_after_success :
    (matchesFrom (nullProg.ctx id [120]) nullProg 0 {}).1 = true ∧
    getParenEnd (matchesFrom (nullProg.ctx id [120]) nullProg 0 {}).2 0 = some 1 ∧
    memPair (matchesFrom (nullProg.ctx id [120]) nullProg 0 {}).2.hist 1 1 = true ∧
    (matchesFrom (nullProg.ctx id [120]) nullProg 1 (matchesFrom (nullProg.ctx id [120]) nullProg 0 {}).2).1 = false ∧
    (matchesFrom (nullProg.ctx id [120]) nullProg 1 {}).1 = true ∧
    nullProg.isMatch id [] = .ok true := by decide +kernel

end after_success

end Rx.Clean3Memo
