/-
  Props/C19 — back-references match a copy of what their group captured.
-/
import RxModel.Model.Compile
import RxModel.Proofs.LeafLemmas
namespace Rx.C19
open Rx

/-- `l` characters at `p` equal (up to case under flag i) the `l` characters at `s` -/
theorem sameText_spec (ctx : Ctx) (l p s : Nat) :
    sameText ctx l p s = true ↔
      ∀ k, k < l → ∃ a b, ctx.input[p + k]? = some a ∧ ctx.input[s + k]? = some b ∧ ctx.eqAt a b = true := by
  exact Leaf.sameText_iff ctx l p s

/-- the back-reference generator, given the recorded span of its group:
    a copy of the captured text must follow (then it is consumed), the state is never changed -/
theorem backref_copy (ctx : Ctx) (g p : Nat) (st : St) (hg : g < st.startBr.length) (s e : Nat)
    (hs : getO st.startBr g = some s) (he : getO st.endBr g = some e) (hse : s < e) :
    backrefGen ctx g p st =
      if p + (e - s) ≤ ctx.len ∧ sameText ctx (e - s) p s = true then Step.once (p + (e - s)) st else Step.nil st := by
  unfold backrefGen
  have h1 : ¬ (g ≥ st.startBr.length) := by omega
  have h3 : ¬ (e ≤ s) := by omega
  simp only [h1, if_false, hs, he, h3]
  by_cases h4 : p + (e - s) ≤ ctx.len
  · have : ¬ (p + (e - s) - 1 ≥ ctx.len) := by omega
    simp [h4, this]
  · have : (p + (e - s) - 1 ≥ ctx.len) := by omega
    simp [h4, this]

/-- a group that captured the empty string: the back-reference matches the empty string -/
theorem backref_empty (ctx : Ctx) (g p : Nat) (st : St) (hg : g < st.startBr.length) (s : Nat)
    (hs : getO st.startBr g = some s) (he : getO st.endBr g = some s) :
    backrefGen ctx g p st = Step.once p st := by
  unfold backrefGen
  have h1 : ¬ (g ≥ st.startBr.length) := by omega
  simp [h1, hs, he]

/-- a group that has not participated in the match: the back-reference matches the empty string -/
theorem backref_unset (ctx : Ctx) (g p : Nat) (st : St) (hg : g < st.startBr.length)
    (h : getO st.startBr g = none ∨ getO st.endBr g = none) :
    backrefGen ctx g p st = Step.once p st := by
  unfold backrefGen
  have h1 : ¬ (g ≥ st.startBr.length) := by omega
  rcases h with h | h
  · simp [h1, h]
  · cases getO st.startBr g <;> simp [h1, h]

/-- `\N` followed by digits: one more digit is taken exactly when the longer number still does not
    exceed the number of groups opened so far -/
theorem backrefDigits_step (c : PC) (parens f idx n : Nat) (hlt : idx < c.len) (hd : isDigit (c.at idx) = true) :
    backrefDigits c parens (f + 1) idx n =
      if n * 10 + (c.at idx - 48) > parens - 1 then (idx, n)
      else backrefDigits c parens f (idx + 1) (n * 10 + (c.at idx - 48)) := by
  simp [backrefDigits, hlt, hd]

theorem backrefDigits_stop (c : PC) (parens f idx n : Nat) (h : ¬ (idx < c.len ∧ isDigit (c.at idx) = true)) :
    backrefDigits c parens (f + 1) idx n = (idx, n) := by
  have : (decide (idx < c.len) && isDigit (c.at idx)) = false := by simpa using h
  simp [backrefDigits, this]

/-- the number never exceeds the number of groups opened so far (if the first digit did not) -/
theorem backrefDigits_le (c : PC) (parens f idx n : Nat) (hn : n ≤ parens - 1) :
    (backrefDigits c parens f idx n).2 ≤ parens - 1 ∧ idx ≤ (backrefDigits c parens f idx n).1 := by
  induction f generalizing idx n with
  | zero => simp [backrefDigits, hn]
  | succ f ih =>
    simp only [backrefDigits]
    split
    · split
      · exact ⟨hn, Nat.le_refl _⟩
      · have := ih (idx + 1) (n * 10 + (c.at idx - 48)) (by omega)
        exact ⟨this.1, by omega⟩
    · exact ⟨hn, Nat.le_refl _⟩

/-- a back-reference is accepted only outside brackets, only in the XPath dialect, and only to a
    group that is already closed -/
theorem escape_backref_valid (c : PC) (s s' : PS) (inBr : Bool) (n : Nat)
    (h : escape c s inBr = .ok (.backref n) s') :
    inBr = false ∧ c.fl.xsd = false ∧ n ∈ s.captures ∧ s'.hasBackrefs = true ∧ 1 ≤ n := by
  exact Leaf.escape_backref c s s' inBr n h

example : backrefGen { input := [97, 98, 97, 98], caseBlind := false, multiLine := false, hasBackrefs := true, maxParens := 2, lower := id }
    1 2 { startBr := [none, some 0], endBr := [none, some 2] } = Step.once 4 { startBr := [none, some 0], endBr := [none, some 2] } := by rfl

end Rx.C19
