import RxModel.Model.Basic
import RxModel.Model.Stream
import RxModel.Model.Engine
import RxModel.Model.Search
import RxModel.Model.Scan
import RxModel.Model.Api
