import random, subprocess, sys, collections, re
seed=int(sys.argv[1]) if len(sys.argv)>1 else 1
N=int(sys.argv[2]) if len(sys.argv)>2 else 2000
rnd=random.Random(seed)
FLAGS=sys.argv[3].split(",") if len(sys.argv)>3 else ["","i","m","im"]
# ---------- Rust Debug parser ----------
class P:
    def __init__(s,t): s.t=t; s.i=0
    def ws(s):
        while s.i<len(s.t) and s.t[s.i] in " \n": s.i+=1
    def parse(s):
        s.ws(); t=s.t
        c=t[s.i]
        if c=="[":
            s.i+=1; out=[]
            while True:
                s.ws()
                if t[s.i]=="]": s.i+=1; return out
                out.append(s.parse()); s.ws()
                if t[s.i]==",": s.i+=1
        if c=="'":
            # char literal
            s.i+=1
            if t[s.i]=="\\":
                s.i+=1; e=t[s.i]; s.i+=1
                if e=="u":
                    j=t.index("}",s.i); v=int(t[s.i+1:j],16); s.i=j+1
                else: v={"n":10,"r":13,"t":9,"\\":92,"'":39,"0":0,'"':34}[e]
            else:
                v=ord(t[s.i]); s.i+=1
            assert t[s.i]=="'",(t[s.i-5:s.i+5]); s.i+=1
            return ("chr",v)
        if c.isdigit():
            j=s.i
            while t[j].isdigit(): j+=1
            v=int(t[s.i:j]); s.i=j; return v
        # identifier
        j=s.i
        while t[j].isalnum() or t[j]=="_": j+=1
        name=t[s.i:j]; s.i=j; s.ws()
        if s.i<len(t) and t[s.i]=="{":
            s.i+=1; d={}
            while True:
                s.ws()
                if t[s.i]=="}": s.i+=1; return (name,d)
                k=s.i
                while t[k]!=":": k+=1
                key=t[s.i:k].strip(); s.i=k+1
                d[key]=s.parse(); s.ws()
                if t[s.i]==",": s.i+=1
        if s.i<len(t) and t[s.i]=="(":
            s.i+=1; args=[]
            while True:
                s.ws()
                if t[s.i]==")": s.i+=1; return (name,args)
                args.append(s.parse()); s.ws()
                if t[s.i]==",": s.i+=1
        return name
ctr=[0]
def sx(o):
    name,args=o; inner=args[0][1]
    if name=="Bol": return "(bol)"
    if name=="Eol": return "(eol)"
    if name=="Nothing": return "(nothing)"
    if name=="EndProgram": return "(end)"
    if name=="Atom": return "(atom "+" ".join(str(c[1]) for c in inner["atom"])+")"
    if name=="CharClass":
        inv=inner["character_class"][1][0][1]["inv_list"][1][0]
        return "(cls "+" ".join(str(x) for x in inv)+")"
    if name=="BackReference": return "(backref %d)"%inner["group_nr"]
    if name=="Capture": return "(capture %d %s)"%(inner["group_nr"],sx(inner["child_op"]))
    if name=="Choice": return "(choice "+" ".join(sx(b) for b in inner["branches"])+")"
    if name=="Sequence": return "(seq "+" ".join(sx(b) for b in inner["operations"])+")"
    if name=="Repeat":
        ctr[0]+=1; myid=ctr[0]
        return "(rep %d %s %d %d %d)"%(myid,sx(inner["operation"]),inner["min"],inner["max"],1 if inner["greedy"]=="true" else 0)
    if name=="GreedyFixed": return "(gfixed %s %d %d %d)"%(sx(inner["operation"]),inner["min"],inner["max"],inner["len"])
    if name=="ReluctantFixed": return "(rfixed %s %d %d %d)"%(sx(inner["operation"]),inner["min"],inner["max"],inner["len"])
    if name=="UnambiguousRepeat": return "(unamb %s %d %d)"%(sx(inner["operation"]),inner["min"],inner["max"])
    raise Exception(name)
# ---------- generator ----------
def gen(d, st):
    r=rnd.random()
    if d<=0 or r<0.28:
        k=rnd.random()
        if k<0.55: return rnd.choice("abc")
        if k<0.62: return "."
        if k<0.78: return rnd.choice(["[ab]","[^a]","[a-c]","[bc]","\\n"])
        if k<0.90 and st["closed"]: return "\\%d"%rnd.choice(st["closed"])
        return rnd.choice(["^","$"])
    if r<0.50: return gen(d-1,st)+gen(d-1,st)
    if r<0.64: return "(?:"+gen(d-1,st)+"|"+gen(d-1,st)+")"
    if r<0.78 and st["n"]<3:
        st["n"]+=1; me=st["n"]
        body=gen(d-1,st); st["closed"].append(me)
        return "("+body+")"
    body=gen(d-1,st)
    q=rnd.choice(["*","+","?","{2}","{1,2}","{0,2}","{2,}","{0,3}","*?","+?","??","{1,2}?","{2,}?","{0,2}?"])
    if not (len(body)==1 or re.fullmatch(r"\[[^\[\]]*\]|\\.",body) or (body[0]=="(" and balanced(body))): body="(?:"+body+")"
    return body+q
def balanced(s):
    d=0
    for i,c in enumerate(s):
        if c=="(": d+=1
        if c==")":
            d-=1
            if d==0 and i!=len(s)-1: return False
    return d==0
cases=[]
for i in range(N):
    st={"n":0,"closed":[]}
    p=gen(rnd.choice([1,2,3,3,4]),st); f=rnd.choice(FLAGS)
    for _ in range(3):
        s="".join(rnd.choice("abcAB\n" if "m" in f or "i" in f else "abc") for _ in range(rnd.randint(0,6)))
        cases.append((p,f,s))
hx=lambda s: ",".join(str(ord(c)) for c in s)
lines=[f"{i}\t{hx(p)}\t{f}\t{hx(s)}" for i,(p,f,s) in enumerate(cases)]
out={}; idx=0
while idx<len(lines):
    pr=subprocess.run(["/root/scratch/probe/target/release/eng"],input="\n".join(lines[idx:])+"\n",capture_output=True,text=True)
    last=idx-1
    for l in pr.stdout.splitlines():
        k,_,rest=l.partition("\t"); out[int(k)]=rest; last=int(k)
    idx=last+1
# build lean input
lean_in=[]; impl={}
stat=collections.Counter()
for i,(p,f,s) in enumerate(cases):
    got=out.get(i,"MISSING")
    if got.startswith("ERR") or got=="MISSING": stat["compile-err"]+=1; continue
    if got=="HANG": impl[i]=("HANG","HANG"); 
    parts=got.split("\t")
    if got=="HANG":
        # need debug: get via separate call w/o matching? skip debug => recompute using empty input
        pr=subprocess.run(["/root/scratch/probe/target/release/eng"],input=f"0\t{hx(p)}\t{f}\t\n",capture_output=True,text=True)
        l=pr.stdout.splitlines()
        if not l or l[0].endswith("HANG"): stat["hang-nodebug"]+=1; continue
        dbg=l[0].split("\t")[3]
    else:
        impl[i]=(parts[0],parts[1]); dbg=parts[2]
    dbg=dbg.replace("\\n","\n") if False else dbg
    tree=P(dbg).parse()
    prog=tree[1]["re_program"][1]
    ctr[0]=0
    ops=sx(prog["operation"])
    hasbr=prog["optimization_flags"]&1
    maxp=prog["max_parens"][1][0]
    facts=[]
    if prog["optimization_flags"]&2: facts.append("(hasbol)")
    facts.append("(minlen %d)"%prog["minimum_length"])
    if prog["prefix"]!="None": facts.append("(prefix "+" ".join(str(c[1]) for c in prog["prefix"][1][0])+")")
    if prog["initial_char_class"]!="None":
        inv=prog["initial_char_class"][1][0][1][0][1]["inv_list"][1][0]
        facts.append("(icc "+" ".join(str(x) for x in inv)+")")
    for pc in prog["preconditions"]:
        d=pc[1]; fp="none" if d["fixed_position"]=="None" else str(d["fixed_position"][1][0])
        ctr[0]+=1000
        facts.append("(pre %s %s %d)"%(sx(d["operation"]),fp,d["min_position"]))
    lean_in.append(f"{i}\t{f}\t{hasbr}\t{maxp}\t{hx(s)}\t{ops}\t{' '.join(facts)}")
pr=subprocess.run(["/root/scratch/spike/.lake/build/bin/drv"],input="\n".join(lean_in)+"\n",capture_output=True,text=True)
model={}
for l in pr.stdout.splitlines():
    a=l.split("\t")
    if len(a)>=3: model[int(a[0])]=(a[1],a[2])
bad=[]
for i,(m,r) in impl.items():
    if i not in model: stat["nomodel"]+=1; continue
    mm,mr=model[i]
    im = m; ir = r[3:] if r.startswith("OK:") else r
    # model doesn't know matches_empty_string gate: emulate
    stat["cases"]+=1
    if im=="HANG" or ir=="HANG":
        if mm=="HANG" or mr=="HANG": stat["hang-agree"]+=1
        else: bad.append((cases[i],"impl HANG",model[i]))
        continue
    if mm!=im: bad.append((cases[i],"match",im,mm)); continue
    if r.startswith("E:"): stat["nullable"]+=1; continue
    if ir!=mr: bad.append((cases[i],"replace",ir,mr)); continue
    stat["agree"]+=1
print(stat, "disagreements:",len(bad))
for b in bad[:40]: print("  ",b)
if pr.stderr: print(pr.stderr[:2000])
cat=collections.Counter()
for b in bad:
    (p,f,s)=b[0]
    if b[1]=="impl HANG": cat["impl-hang-model-not"]+=1
    elif b[-1]=="HANG": cat["model-hang-impl-answers:"+b[1]]+=1
    elif b[1]=="match" and "^" in p and "m" in f: cat["caret-multiline"]+=1
    else: cat["OTHER"]+=1; print("OTHER",b)
print("CATS",dict(cat))
