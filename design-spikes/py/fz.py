import random, re, subprocess, sys, collections
rnd = random.Random(int(sys.argv[1]) if len(sys.argv)>1 else 1)
N = int(sys.argv[2]) if len(sys.argv)>2 else 3000
MODE = sys.argv[3] if len(sys.argv)>3 else "full"
def gen(d, caps):
    # returns (string, nullable, features)
    r = rnd.random()
    if d<=0 or r<0.30:
        k=rnd.random()
        if k<0.6: return rnd.choice("abc"), False, set()
        if k<0.7: return ".", False, {"dot"}
        if k<0.85: return rnd.choice(["[ab]","[^a]","[a-c]","[bc]"]), False, {"class"}
        if MODE=="noanchor": return rnd.choice("abc"), False, set()
        return rnd.choice(["^","$"]), True, {"anchor"}
    if r<0.50:
        a=gen(d-1,caps); b=gen(d-1,caps)
        return a[0]+b[0], a[1] and b[1], a[2]|b[2]
    if r<0.65:
        a=gen(d-1,caps); b=gen(d-1,caps)
        return "(?:"+a[0]+"|"+b[0]+")", a[1] or b[1], a[2]|b[2]|{"alt"}
    if r<0.75 and MODE!="nocap":
        a=gen(d-1,caps); caps[0]+=1
        return "("+a[0]+")", a[1], a[2]|{"cap"}
    a=gen(d-1,caps)
    q=rnd.choice(["*","+","?","{2}","{1,2}","{0,2}","{2,}","*?","+?","??","{1,2}?","{2,}?"])
    f=set(a[2])
    f.add("lazy" if q.endswith("?") and len(q)>1 else "greedy")
    if a[1]: f.add("nullable-body")
    body=a[0]
    if not (len(body)==1 or (body.startswith("[") and body.endswith("]") and body.count("[")==1) or (body.startswith("(") and body.endswith(")") and balanced(body))):
        body="(?:"+body+")"
    nullable = a[1] or q[0] in "*?" or q.startswith("{0")
    return body+q, nullable, f
def balanced(s):
    d=0
    for i,c in enumerate(s):
        if c=="(": d+=1
        if c==")":
            d-=1
            if d==0 and i!=len(s)-1: return False
    return d==0
cases=[]
for i in range(N):
    caps=[0]
    p,nullable,f=gen(rnd.choice([1,2,3,3,4]),caps)
    for _ in range(3):
        s="".join(rnd.choice("abc") for _ in range(rnd.randint(0,6)))
        cases.append((p,s,frozenset(f),caps[0]))
def esc(x): return x.replace("\\","\\\\").replace("\n","\\n")
out={}
idx=0
lines=[f"{i}\t{esc(p)}\t\t{esc(s)}\t[$0]" for i,(p,s,f,c) in enumerate(cases)]
while idx<len(lines):
    pr=subprocess.run(["/root/scratch/probe/target/release/probe"],input="\n".join(lines[idx:])+"\n",capture_output=True,text=True)
    last=idx-1
    for l in pr.stdout.splitlines():
        k,_,rest=l.partition("\t"); out[int(k)]=rest; last=int(k)
    idx=last+1
stat=collections.Counter(); bad=collections.defaultdict(list)
for i,(p,s,f,c) in enumerate(cases):
    got=out.get(i,"MISSING")
    try:
        rx=re.compile(p)
    except re.error as e:
        stat["pyerr"]+=1; continue
    exp_m = rx.search(s) is not None
    if got.startswith("ERR"):
        stat["implerr"]+=1; bad["implerr"].append((p,s,got)); continue
    if got=="HANG" or got=="PANIC":
        stat[got]+=1; bad[got].append((p,s,sorted(f))); continue
    parts=dict(x.split("=",1) for x in got.split("\t"))
    m = parts["match"]=="true"
    stat["total"]+=1
    if m!=exp_m:
        stat["match-diff"]+=1; bad["match-diff"].append((p,s,"impl=%s"%m,sorted(f))); continue
    # spans via replace
    if "MatchesEmptyString" in parts["replace"]:
        stat["nullable"]+=1
        if rx.search("") is None: bad["nullable-wrong"].append((p,s))
        continue
    if rx.search("") is not None:
        bad["nullable-missed"].append((p,s,parts["replace"])); stat["nullable-missed"]+=1; continue
    exp = rx.sub(lambda mo:"["+mo.group(0)+"]", s)
    if parts["replace"]!='Ok("%s")'%exp:
        stat["span-diff"]+=1; bad["span-diff"].append((p,s,parts["replace"],exp,sorted(f)))
    if parts["an"]=="PANIC":
        stat["an-panic"]+=1; bad["an-panic"].append((p,s))
print(stat)
for k,v in bad.items():
    print("==",k,len(v))
    for x in v[:int(sys.argv[4]) if len(sys.argv)>4 else 12]: print("   ",x)
