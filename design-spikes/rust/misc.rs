use regexml::Regex;
fn is_send_sync<T: Send + Sync>() {}
fn main() {
    is_send_sync::<Regex>();
    let t = |p: &str, f: &str, s: &str| {
        let r = std::panic::catch_unwind(|| Regex::xpath(p, f).map(|r| r.is_match(s)));
        println!("{:?} {:?} {:?} -> {:?}", if p.len() > 60 { &p[..60] } else { p }, f, s, r.map_err(|_| "PANIC"));
    };
    let x = |p: &str, f: &str, s: &str| {
        let r = std::panic::catch_unwind(|| Regex::xsd(p, f).map(|r| r.is_match(s)));
        println!("XSD {:?} {:?} {:?} -> {:?}", p, f, s, r.map_err(|_| "PANIC"));
    };
    t("(?:ab){9223372036854775808}", "", "ab");
    t("a{18446744073709551615}", "", "a");
    t("a{18446744073709551616}", "", "a");
    t("(?:ab){2,9223372036854775808}", "", "abab");
    t("a\u{c}b", "x", "ab");
    t("a\u{c}b", "x", "a\u{c}b");
    t("[ ]", "x", " ");
    t("\\ n", "x", "\n");
    x("a*?", "", "a"); x("(?:a)", "", "a"); x("(a)\\1", "", "aa"); x("\\$", "", "$"); x("a", "q", "a"); x("^a$", "", "^a$"); x("^a$", "", "a");
    x("a^*", "", "a^^"); x("a", "i;g", "A");
    let depth: usize = std::env::args().nth(1).map(|s| s.parse().unwrap()).unwrap_or(0);
    if depth > 0 {
        let p = "(".repeat(depth) + "a" + &")".repeat(depth);
        t(&p, "", "a");
    }
}
