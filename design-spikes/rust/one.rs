fn main(){ let a: Vec<String> = std::env::args().collect(); let r = regexml::Regex::xpath(&a[1], &a[2]); println!("{:?}", r.map(|r| r.is_match(&a[3]))); }
