use regexml::Regex;
use std::io::BufRead;
use std::sync::mpsc;
use std::time::Duration;
// line: id \t pattern \t flags \t input ; output: id \t result ; on hang prints HANG and exits 3
fn unesc(s: &str) -> String {
    let mut out = String::new();
    let mut it = s.chars();
    while let Some(c) = it.next() {
        if c == '\\' {
            match it.next() {
                Some('n') => out.push('\n'), Some('r') => out.push('\r'), Some('t') => out.push('\t'),
                Some('\\') => out.push('\\'),
                Some('u') => { let h: String = it.by_ref().take_while(|c| *c != ';').collect(); out.push(char::from_u32(u32::from_str_radix(&h,16).unwrap()).unwrap()); }
                Some(o) => { out.push('\\'); out.push(o); } None => out.push('\\') }
        } else { out.push(c) }
    }
    out
}
fn run(p: String, f: String, s: String, rep: String) -> String {
    let r = std::panic::catch_unwind(|| {
        match Regex::xpath(&p, &f) {
            Err(e) => format!("ERR {:?}", e),
            Ok(re) => {
                let m = re.is_match(&s);
                let rp = re.replace_all(&s, &rep);
                let tok = re.tokenize(&s).map(|t| t.take(60).collect::<Vec<_>>());
                let an = std::panic::catch_unwind(|| re.analyze(&s).map(|t| t.take(130).collect::<Vec<_>>()));
                format!("match={}\treplace={:?}\ttok={:?}\tan={}", m, rp, tok, match an { Ok(a) => format!("{:?}", a), Err(_) => "PANIC".into() })
            }
        }
    });
    match r { Ok(x) => x, Err(_) => "PANIC".to_string() }
}
fn main() {
    std::panic::set_hook(Box::new(|_| {}));
    let stdin = std::io::stdin();
    for line in stdin.lock().lines() {
        let line = line.unwrap();
        let parts: Vec<String> = line.split('\t').map(|x| unesc(x)).collect();
        if parts.len() < 4 { continue; }
        let id = parts[0].clone();
        let (p, f, s) = (parts[1].clone(), parts[2].clone(), parts[3].clone());
        let rep = parts.get(4).cloned().unwrap_or("[$0]".to_string());
        let (tx, rx) = mpsc::channel();
        std::thread::spawn(move || { let _ = tx.send(run(p, f, s, rep)); });
        match rx.recv_timeout(Duration::from_millis(1500)) {
            Ok(r) => println!("{}\t{}", id, r),
            Err(_) => { println!("{}\tHANG", id); std::process::exit(3); }
        }
    }
}
