use regexml::Regex;
fn main() {
    let a: Vec<String> = std::env::args().collect();
    let r = Regex::xpath(&a[1], a.get(2).map(|s| s.as_str()).unwrap_or("")).unwrap();
    println!("{:?}", r);
}
