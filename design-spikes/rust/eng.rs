use regexml::Regex;
use std::io::BufRead;
use std::sync::mpsc;
use std::time::Duration;
fn unhex(s: &str) -> String { s.split(',').filter(|x| !x.is_empty()).map(|x| char::from_u32(x.parse::<u32>().unwrap()).unwrap()).collect() }
fn run(p: String, f: String, s: String) -> String {
    let r = std::panic::catch_unwind(|| {
        match Regex::xpath(&p, &f) {
            Err(e) => format!("ERR {:?}", e),
            Ok(re) => {
                let dbg = format!("{:?}", re);
                let m = std::panic::catch_unwind(|| re.is_match(&s)).map(|b| if b {"T".to_string()} else {"F".to_string()}).unwrap_or("PANIC".into());
                let rp = std::panic::catch_unwind(|| re.replace_all(&s, "<$0|$1|$2|$3>")).map(|r| match r { Ok(s) => format!("OK:{}", s), Err(e) => format!("E:{:?}", e)}).unwrap_or("PANIC".into());
                format!("{}\t{}\t{}", m, rp, dbg)
            }
        }
    });
    match r { Ok(x) => x, Err(_) => "PANIC".to_string() }
}
fn main() {
    std::panic::set_hook(Box::new(|_| {}));
    let stdin = std::io::stdin();
    for line in stdin.lock().lines() {
        let line = line.unwrap();
        let parts: Vec<&str> = line.split('\t').collect();
        if parts.len() < 4 { continue; }
        let id = parts[0].to_string();
        let (p, f, s) = (unhex(parts[1]), parts[2].to_string(), unhex(parts[3]));
        let (tx, rx) = mpsc::channel();
        std::thread::spawn(move || { let _ = tx.send(run(p, f, s)); });
        match rx.recv_timeout(Duration::from_millis(2000)) {
            Ok(r) => println!("{}\t{}", id, r.replace('\n', "\\n")),
            Err(_) => { println!("{}\tHANG", id); std::process::exit(3); }
        }
    }
}
