/-
  Spike: faithful port of regexml's matching engine as resumption streams.
  No Mathlib. Everything total; panics / divergence are explicit outcomes.
-/
namespace Rx

def usizeMax : Nat := 18446744073709551615

structure Cap where
  parenCount : Nat := 0
  startn : Array (Option Nat) := #[none, none, none]
  endn   : Array (Option Nat) := #[none, none, none]
deriving Repr, BEq, Inhabited

structure St where
  cap : Cap := {}
  startBr : Array (Option Nat) := #[]
  endBr   : Array (Option Nat) := #[]
  hist : List (Nat × Nat) := []
  panic : Option String := none      -- sticky panic marker
deriving Repr, Inhabited

inductive Step where
  | nil     : St → Step
  | cons    : Nat → St → (St → Step) → Step
  | diverge : Step

abbrev Gen := Nat → St → Step

namespace Step
def once (n : Nat) (st : St) : Step := .cons n st .nil

def append : Step → (St → Step) → Step
  | .nil st, f => f st
  | .cons n st r, f => .cons n st (fun st' => (r st').append f)
  | .diverge, _ => .diverge

def bind : Step → (Nat → St → Step) → Step
  | .nil st, _ => .nil st
  | .cons n st r, f => (f n st).append (fun st' => (r st').bind f)
  | .diverge, _ => .diverge

/-- like bind, but the first element (primed path) and the later ones use different continuations -/
def bindFR : Step → (Nat → St → Step) → (Nat → St → Step) → Step
  | .nil st, _, _ => .nil st
  | .cons n st r, f, g => (f n st).append (fun st' => (r st').bind g)
  | .diverge, _, _ => .diverge

def mapSt : Step → (Nat → St → St) → Step
  | .nil st, _ => .nil st
  | .cons n st r, f => .cons n (f n st) (fun st' => (r st').mapSt f)
  | .diverge, _ => .diverge

def onNil : Step → (St → St) → Step
  | .nil st, f => .nil (f st)
  | .cons n st r, f => .cons n st (fun st' => (r st').onNil f)
  | .diverge, _ => .diverge

/-- ForceProgressIterator -/
def force (cnt : Nat) (cur : Option Nat) : Step → Step
  | .nil st => .nil st
  | .cons n st r =>
    let cnt' := if some n == cur then cnt + 1 else 0
    .cons n st (fun st' => if cnt' > 3 then .nil st' else (r st').force cnt' (some n))
  | .diverge => .diverge
end Step

inductive Op where
  | bol | eol | nothing | endProgram
  | atom (cs : Array Nat)
  | cls (ranges : List (Nat × Nat))        -- half-open [a,b)
  | backref (g : Nat)
  | capture (g : Nat) (child : Op)
  | choice (bs : List Op)
  | seq (ops : List Op)
  | rep (id : Nat) (child : Op) (min max : Nat) (greedy : Bool)
  | gfixed (child : Op) (min max len : Nat)
  | rfixed (child : Op) (min max len : Nat)
  | unamb (child : Op) (min max : Nat)
deriving Repr, Inhabited

structure Ctx where
  input : Array Nat
  caseBlind : Bool
  multiLine : Bool
  hasBackrefs : Bool
  maxParens : Nat
  lower : Nat → Nat

def Ctx.len (c : Ctx) := c.input.size
def Ctx.eqCB (c : Ctx) (a b : Nat) : Bool := a == b || c.lower a == c.lower b
def Ctx.nlAt (c : Ctx) (i : Nat) : Bool := c.input[i]? == some 10

def clsContains (rs : List (Nat × Nat)) (c : Nat) : Bool := rs.any (fun r => r.1 ≤ c && c < r.2)

/-! capture-state primitives -/
def growTo (a : Array (Option Nat)) (g : Nat) (fuel : Nat) : Array (Option Nat) :=
  match fuel with
  | 0 => a
  | f+1 => if g ≥ a.size then growTo (a ++ Array.replicate a.size none) g f else a

def Cap.setStart (c : Cap) (g p : Nat) : Cap :=
  let a := growTo c.startn g 64
  { c with startn := a.set! g (some p) }
def Cap.setEnd (c : Cap) (g p : Nat) : Cap :=
  let a := growTo c.endn g 64
  { c with endn := a.set! g (some p) }

def optGe (a : Option Nat) (pos : Nat) : Bool := match a with | some s => s ≥ pos | none => false

def clearArr (starts ends : Array (Option Nat)) (pos : Nat) : Array (Option Nat) :=
  (List.range starts.size).foldl (fun e i =>
    let s := starts[i]!
    if optGe s pos then e.set! i s else e) ends

def clearBeyond (st : St) (pos : Nat) : St :=
  { st with cap := { st.cap with endn := clearArr st.cap.startn st.cap.endn pos },
            endBr := clearArr st.startBr st.endBr pos }

/-! contains_capturing_expressions -/
mutual
def containsCap : Op → Bool
  | .seq ops => containsCapL ops
  | .choice bs => containsCapL bs
  | .rep _ c _ _ _ => (match c with | .capture _ _ => true | _ => false) || containsCap c
  | .gfixed c _ _ _ => (match c with | .capture _ _ => true | _ => false) || containsCap c
  | .rfixed c _ _ _ => (match c with | .capture _ _ => true | _ => false) || containsCap c
  | .unamb c _ _ => (match c with | .capture _ _ => true | _ => false) || containsCap c
  | _ => false
termination_by structural o => o
def containsCapL : List Op → Bool
  | [] => false
  | o :: os => ((match o with | .capture _ _ => true | _ => false) || containsCap o) || containsCapL os
termination_by structural l => l
end

/-! generators -/
def atomGen (ctx : Ctx) (cs : Array Nat) : Gen := fun p st =>
  if p + cs.size > ctx.len then .nil st
  else
    let ok := (List.range cs.size).all fun k =>
      let a := ctx.input[p+k]!; let b := cs[k]!
      if ctx.caseBlind then ctx.eqCB a b else a == b
    if ok then .once (p + cs.size) st else .nil st

def clsGen (ctx : Ctx) (rs : List (Nat × Nat)) : Gen := fun p st =>
  if p < ctx.len && clsContains rs ctx.input[p]! then .once (p+1) st else .nil st

def bolGen (ctx : Ctx) : Gen := fun p st =>
  if p != 0 then
    if ctx.multiLine && ctx.nlAt (p-1) && p < ctx.len then .once p st else .nil st
  else .once p st

def eolGen (ctx : Ctx) : Gen := fun p st =>
  if ctx.multiLine then
    if ctx.len == 0 || p ≥ ctx.len || ctx.nlAt p then .once p st else .nil st
  else if ctx.len == 0 || p ≥ ctx.len then .once p st else .nil st

def endGen : Gen := fun p st => .once p { st with cap := st.cap.setEnd 0 p }

def backrefGen (ctx : Ctx) (g : Nat) : Gen := fun p st =>
  if g ≥ st.startBr.size then .nil { st with panic := some "backref index" } else
  match st.startBr[g]!, st.endBr[g]! with
  | some s, some e =>
    if s == e then .once p st
    else if e < s then .nil { st with panic := some "backref e<s underflow" }
    else
      let l := e - s
      if p + l - 1 ≥ ctx.len then .nil st
      else
        let ok := (List.range l).all fun k =>
          let a := ctx.input[p+k]!; let b := ctx.input[s+k]!
          if ctx.caseBlind then ctx.eqCB a b else a == b
        if ok then .once (p + l) st else .nil st
  | _, _ => .nil st

def captureGen (ctx : Ctx) (g : Nat) (child : Gen) : Gen := fun p st =>
  let st1 := if ctx.hasBackrefs then { st with startBr := st.startBr.set! g (some p) } else st
  (child p st1).mapSt fun n st' =>
    let cap := st'.cap
    let cap := if g ≥ cap.parenCount then { cap with parenCount := g + 1 } else cap
    let cap := (cap.setStart g p).setEnd g n
    let st' := { st' with cap := cap }
    if ctx.hasBackrefs then { st' with startBr := st'.startBr.set! g (some p), endBr := st'.endBr.set! g (some n) } else st'

def choiceGen : List Gen → Gen
  | [] => fun _ st => .nil st
  | g :: gs => fun p st => (g p (clearBeyond st p)).append (fun st' => choiceGen gs p st')

def seqGo : List Gen → Gen
  | [] => fun _ st => .nil st            -- unreachable: sequences are non-empty
  | [g] => fun p st => (g p st).mapSt (fun n st' => clearBeyond st' n)
  | g :: gs => fun p st => ((g p st).mapSt (fun n st' => clearBeyond st' n)).bind (seqGo gs)

def seqGen (hasCap : Bool) (gs : List Gen) : Gen := fun p st =>
  let saved := st.cap
  (seqGo gs p st).onNil (fun st' => if hasCap then { st' with cap := saved } else st')

/-- first result only (iterator created, pulled once, dropped) -/
def first1 (s : Step) : Option (Nat × St) × St :=
  match s with
  | .cons n st _ => (some (n, st), st)
  | .nil st => (none, st)
  | .diverge => (none, { (default : St) with panic := some "diverge" })

/-- GreedyFixed: eager counting loop, then descending positions -/
def gfixedLoop (child : Gen) (len max guard : Nat) : (fuel : Nat) → (p cnt : Nat) → St → Nat × Nat × St
  | 0, p, m, st => (p, m, st)
  | f+1, p, m, st =>
    if p ≤ guard then
      match first1 (child p st) with
      | (some _, st') =>
        let m := m + 1; let p := p + len
        if m == max then (p, m, st') else gfixedLoop child len max guard f p m st'
      | (none, st') => (p, m, st')
    else (p, m, st)

def descend (len limit : Nat) : (fuel : Nat) → (cur : Nat) → St → Step
  | 0, _, st => .nil st
  | f+1, cur, st =>
    if cur ≥ limit then .cons cur st (fun st' => if cur ≥ limit + len ∧ len > 0 then descend len limit f (cur - len) st' else .nil st')
    else .nil st

def gfixedGen (ctx : Ctx) (child : Gen) (min max len : Nat) : Gen := fun position st =>
  let guard0 := ctx.len
  let guard := if max < usizeMax then Nat.min guard0 (position + len * max) else guard0
  if position ≥ guard && min > 0 then .nil st else
  let (p, nmatch, st') := gfixedLoop child len max guard (ctx.len + 2) position 0 st
  if nmatch < min then .nil st'
  else descend len (position + len * min) (ctx.len + 2) p st'

/-- ReluctantFixed -/
def rfixedMin (child : Gen) (min : Nat) : (fuel : Nat) → (count pos : Nat) → St → Option (Nat × Nat) × St
  | 0, _, _, st => (none, { st with panic := some "rfixedMin fuel" })
  | f+1, count, pos, st =>
    if count < min then
      match first1 (child pos st) with
      | (some (n, _), st') => rfixedMin child min f (count+1) n st'
      | (none, st') => (none, st')
    else (some (count, pos), st)

def rfixedMore (child : Gen) (max position : Nat) : (fuel : Nat) → (count pos : Nat) → St → Step
  | 0, _, _, _ => .diverge
  | f+1, count, pos, st =>
    if count < max then
      let st1 := clearBeyond st position
      match first1 (child pos st1) with
      | (some (n, _), st') => .cons n st' (fun st'' => rfixedMore child max position f (count+1) n st'')
      | (none, st') => .nil st'
    else .nil st

def rfixedGen (ctx : Ctx) (child : Gen) (min max : Nat) : Gen := fun position st =>
  match rfixedMin child min (min + 1) 0 position st with
  | (none, st') => .nil st'
  | (some (count, pos), st') => .cons pos st' (fun st'' => rfixedMore child max position (6 * (ctx.len + 2)) count pos st'')

/-- UnambiguousRepeat -/
def unambLoop (child : Gen) (max guard : Nat) : (fuel : Nat) → (p cnt : Nat) → St → Nat × Nat × St
  | 0, p, m, st => (p, m, st)
  | f+1, p, m, st =>
    if m < max && p ≤ guard then
      match first1 (child p st) with
      | (some (n, _), st') => unambLoop child max guard f n (m+1) st'
      | (none, st') => (p, m, st')
    else (p, m, st)

def unambGen (ctx : Ctx) (child : Gen) (min max : Nat) : Gen := fun position st =>
  let (p, nmatch, st') := unambLoop child max ctx.len (Nat.min max (ctx.len + 2) + 1) position 0 st
  if nmatch < min then .nil st' else .once p st'

/-- greedy Repeat: post-order DFS over the children's result streams.
    `len` = current length of the iterator stack (including the zero-iteration entry, if any).
    On the primed (leftmost) path the extension limit is "`primedLeft` more pushes";
    on re-extension paths it is `len < bound`. -/
def greedyNode (child : Gen) (min bound : Nat) : (fuel : Nat) → (len : Nat) → (primedLeft : Option Nat) → Nat → St → Step
  | 0, len, _, n, st => if len ≥ min then .once n st else .nil st
  | f+1, len, primedLeft, n, st =>
    let canExtend : Bool := match primedLeft with
      | some k => decide (k > 0)
      | none => decide (len < bound)
    let deeper : Step :=
      if canExtend then
        (child n st).bindFR
          (fun n2 st2 => greedyNode child min bound f (len+1) (primedLeft.map (· - 1)) n2 st2)
          (fun n2 st2 => greedyNode child min bound f (len+1) none n2 st2)
      else .nil st
    deeper.append (fun st' => if len ≥ min then .once n st' else .nil st')

def repGreedyGen (ctx : Ctx) (id : Nat) (child : Gen) (min max : Nat) : Gen := fun position st =>
  let bound := Nat.min max (ctx.len - position + 1)
  let fuel := ctx.len + 3
  if min == 0 then
    if st.hist.contains (id, position) then
      -- duplicate zero-length: no zero-iteration entry; stack starts empty
      ((child position st).bindFR
        (fun n st2 => greedyNode child min bound fuel 1 (some (bound - 1)) n st2)
        (fun n st2 => greedyNode child min bound fuel 1 none n st2)).force 0 none
    else
      let st1 := { st with hist := (id, position) :: st.hist }
      -- zero-iteration entry is stack element #1 at `position`, primed with `bound` pushes left
      (greedyNode child min bound fuel 1 (some bound) position st1).force 0 none
  else
    if bound == 0 then .nil st else
    ((child position st).bindFR
      (fun n st2 => greedyNode child min bound fuel 1 (some (bound - 1)) n st2)
      (fun n st2 => greedyNode child min bound fuel 1 none n st2)).force 0 none

/-- ReluctantRepeatIterator.next, one call; returns the new (counter, position) and the yielded value -/
def relNextLoop (child : Gen) (min max : Nat) : (fuel : Nat) → (counter : Nat) → (position : Option Nat) → St → Option (Nat × Option Nat) × St
  | 0, _, _, st => (none, st)      -- diverges
  | f+1, counter, position, st =>
    let (counter, position, st) :=
      match position with
      | some pos =>
        match first1 (child pos st) with
        | (some (n, _), st') =>
          let counter := counter + 1
          if counter > max then (counter, none, st') else (counter, some n, st')
        | (none, st') => (counter, some pos, st')
      | none =>
        if min == 0 && counter == 0 then (counter + 1, none, st) else (counter, none, st)
    if counter ≥ min || position.isNone then (some (counter, position), st)
    else relNextLoop child min max f counter position st

def relStream (child : Gen) (min max : Nat) (inner : Nat) : (fuel : Nat) → (counter : Nat) → (position : Option Nat) → St → Step
  | 0, _, _, _ => .diverge
  | f+1, counter, position, st =>
    match relNextLoop child min max inner counter position st with
    | (none, _) => .diverge
    | (some (counter, position), st') =>
      match position with
      | none => .nil st'
      | some p => .cons p st' (fun st'' => relStream child min max inner f counter (some p) st'')

def repReluctantGen (ctx : Ctx) (child : Gen) (min max : Nat) : Gen := fun position st =>
  (relStream child min max (min + 50) (6 * (ctx.len + 3)) 0 (some position) st).force 0 none

mutual
def sem (ctx : Ctx) : Op → Gen
  | .bol => bolGen ctx
  | .eol => eolGen ctx
  | .nothing => fun p st => .once p st
  | .endProgram => endGen
  | .atom cs => atomGen ctx cs
  | .cls rs => clsGen ctx rs
  | .backref g => backrefGen ctx g
  | .capture g c => captureGen ctx g (sem ctx c)
  | .choice bs => choiceGen (semL ctx bs)
  | .seq ops => seqGen (containsCapL ops) (semL ctx ops)
  | .rep id c min max greedy =>
      if greedy then repGreedyGen ctx id (sem ctx c) min max else repReluctantGen ctx (sem ctx c) min max
  | .gfixed c min max len => gfixedGen ctx (sem ctx c) min max len
  | .rfixed c min max _ => rfixedGen ctx (sem ctx c) min max
  | .unamb c min max => unambGen ctx (sem ctx c) min max
termination_by structural o => o
def semL (ctx : Ctx) : List Op → List Gen
  | [] => []
  | o :: os => sem ctx o :: semL ctx os
termination_by structural l => l
end

/-! program, match_at, matches (naive search only in this spike) -/
structure Prog where
  op : Op
  hasBackrefs : Bool
  maxParens : Nat
  caseBlind : Bool
  multiLine : Bool

inductive Outcome where
  | ok (r : String) | panic (s : String) | diverge
deriving Repr

def matchAt (ctx : Ctx) (op : Op) (i : Nat) (st : St) : Bool × Bool × St :=   -- (diverged, matched, st)
  let cap := { st.cap with parenCount := 1 }
  let cap := cap.setStart 0 i
  let st := { st with cap := cap }
  let st := if ctx.hasBackrefs then
      { st with startBr := Array.replicate ctx.maxParens none, endBr := Array.replicate ctx.maxParens none } else st
  match sem ctx op i st with
  | .cons n st' _ => (false, true, { st' with cap := st'.cap.setEnd 0 n })
  | .nil st' => (false, false, { st' with cap := { st'.cap with parenCount := 0 } })
  | .diverge => (true, false, st)

def matchesNaive (ctx : Ctx) (op : Op) : (fuel : Nat) → (j : Nat) → St → Bool × Bool × St
  | 0, _, st => (false, false, st)
  | f+1, j, st =>
    if j > ctx.len then (false, false, st) else
    match matchAt ctx op j st with
    | (true, _, st') => (true, false, st')
    | (false, true, st') => (false, true, st')
    | (false, false, st') => matchesNaive ctx op f (j+1) st'

structure Facts where
  hasBol : Bool := false
  minLen : Nat := 0
  prefix_ : Option (Array Nat) := none
  icc : Option (List (Nat × Nat)) := none
  pre : List (Op × Option Nat × Nat) := []
  naive : Bool := true

/-- `matches_iter(..).next().is_some()` for a precondition operation -/
def preHolds (ctx : Ctx) (op : Op) (p : Nat) (st : St) : Bool × St :=
  -- Repeat at a position beyond the input underflows `len - position` (debug build panics)
  match op with
  | .rep _ _ _ _ _ =>
    if p > ctx.len then (false, { st with panic := some "op_repeat:86 len - position" }) else
    match sem ctx op p st with
    | .cons _ st' _ => (true, st')
    | .nil st' => (false, st')
    | .diverge => (false, { st with panic := some "diverge" })
  | _ =>
    match sem ctx op p st with
    | .cons _ st' _ => (true, st')
    | .nil st' => (false, st')
    | .diverge => (false, { st with panic := some "diverge" })

def findFrom (ctx : Ctx) (op : Op) : (fuel : Nat) → (j : Nat) → St → Bool × St
  | 0, _, st => (false, st)
  | f+1, j, st =>
    if j < ctx.len then
      match preHolds ctx op j st with
      | (true, st') => (true, st')
      | (false, st') => findFrom ctx op f (j+1) st'
    else (false, st)

def checkPre (ctx : Ctx) (start : Nat) : List (Op × Option Nat × Nat) → St → Bool × St
  | [], st => (true, st)
  | (op, fp, mp) :: rest, st =>
    match fp with
    | some fixed =>
      match preHolds ctx op fixed st with
      | (true, st') => checkPre ctx start rest st'
      | (false, st') => (false, st')
    | none =>
      let i := if start < mp then mp else start
      match findFrom ctx op (ctx.len + 1) i st with
      | (true, st') => checkPre ctx start rest st'
      | (false, st') => (false, st')

/-- try match_at at each candidate produced by `cand`, in order -/
def tryCands (ctx : Ctx) (op : Op) : List Nat → St → Bool × Bool × St
  | [], st => (false, false, st)
  | j :: js, st =>
    match matchAt ctx op j st with
    | (true, _, st') => (true, false, st')
    | (false, true, st') => (false, true, st')
    | (false, false, st') => tryCands ctx op js st'

def matches_ (ctx : Ctx) (op : Op) (fx : Facts) (i : Nat) (st : St) : Bool × Bool × St :=
  let st := { st with cap := {} }
  if fx.naive then matchesNaive ctx op (ctx.len + 2) i st else
  if fx.hasBol then
    if !ctx.multiLine then
      if i != 0 then (false, false, st) else
      match checkPre ctx i fx.pre st with
      | (false, st') => (false, false, st')
      | (true, st') => tryCands ctx op [i] st'
    else
      -- match_at(i) first, then the position after each newline at index ≥ i, while < len
      let cands := (List.range ctx.len).filter (fun k => k ≥ i && ctx.nlAt k) |>.map (· + 1) |>.filter (· < ctx.len)
      tryCands ctx op (i :: cands) st
  else
    let actual := ctx.len - i
    if actual < fx.minLen then (false, false, st) else
    match fx.prefix_ with
    | some pre =>
      let cands := (List.range (ctx.len + 1 - pre.size)).filter (fun j => j ≥ i &&
        (List.range pre.size).all (fun k => let a := ctx.input[j+k]!; let b := pre[k]!
          if ctx.caseBlind then ctx.eqCB a b else a == b))
      tryCands ctx op cands st
    | none =>
      match fx.icc with
      | some rs =>
        let cands := (List.range ctx.len).filter (fun j => j ≥ i && clsContains rs ctx.input[j]!)
        tryCands ctx op cands st
      | none =>
        match checkPre ctx i fx.pre st with
        | (false, st') => (false, false, st')
        | (true, st') => tryCands ctx op ((List.range (ctx.len + 1)).filter (· ≥ i)) st'

def getParen (ctx : Ctx) (st : St) (g : Nat) : Option (Nat × Nat) :=
  if g < st.cap.parenCount then
    match st.cap.startn[g]?, st.cap.endn[g]? with
    | some (some s), some (some e) => some (s, e)
    | _, _ => none
  else none

/-- spans + group spans of every match found by the replace loop -/
def scan (ctx : Ctx) (op : Op) (fx : Facts) : (fuel : Nat) → (pos : Nat) → St → List String → Outcome
  | 0, _, _, _ => .diverge
  | f+1, pos, st, acc =>
    if pos < ctx.len then
      match matches_ ctx op fx pos st with
      | (true, _, _) => .diverge
      | (false, false, st') =>
        match st'.panic with
        | some s => .panic s
        | none => .ok (String.intercalate ";" acc.reverse)
      | (false, true, st') =>
        match st'.panic with
        | some s => .panic s
        | none =>
        let grp (g : Nat) : String := match getParen ctx st' g with
          | some (s, e) => s!"{s}-{e}"
          | none => "-"
        let desc := String.intercalate "," ((List.range ctx.maxParens).map grp)
        let e := match st'.cap.endn[0]? with | some (some e) => e | _ => pos
        let newpos := if e == pos then e + 1 else e
        scan ctx op fx f newpos st' (desc :: acc)
    else .ok (String.intercalate ";" acc.reverse)

def isMatch (ctx : Ctx) (op : Op) (fx : Facts) : Outcome :=
  match matches_ ctx op fx 0 {} with
  | (true, _, _) => .diverge
  | (false, m, st) => match st.panic with
    | some s => .panic s
    | none => .ok (if m then "T" else "F")

end Rx
