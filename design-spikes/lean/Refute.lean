import Spike.Engine
namespace Rx
-- ^(?:(?:xx|x)(?:ab|c)*){2}$ on "xx"  (x=120, a=97 b=98 c=99)
def w12 : Op := .seq [.bol,
  .rep 1 (.seq [.choice [.atom #[120,120], .atom #[120]],
                .rep 2 (.choice [.atom #[97,98], .atom #[99]]) 0 usizeMax true]) 2 2 true,
  .eol, .endProgram]
def ctx12 : Ctx := { input := #[120,120], caseBlind := false, multiLine := false, hasBackrefs := false, maxParens := 1, lower := id }
#eval (matchesNaive ctx12 w12 5 0 {}).2.1
theorem refute12 : (matchesNaive ctx12 w12 5 0 {}).2.1 = false := by decide +kernel
end Rx
