import Spike.Engine
namespace Rx

/-- every yield satisfies P, whatever state the consumer hands back -/
inductive Step.AllYields (P : Nat → Prop) : Step → Prop
  | nil (st) : AllYields P (.nil st)
  | cons (n st r) : P n → (∀ st', AllYields P (r st')) → AllYields P (.cons n st r)
  | diverge : AllYields P .diverge

namespace Step.AllYields
variable {P Q : Nat → Prop}

theorem mono (h : ∀ n, P n → Q n) {s : Step} (hs : s.AllYields P) : s.AllYields Q := by
  induction hs with
  | nil st => exact .nil st
  | cons n st r hn _ ih => exact .cons _ _ _ (h _ hn) ih
  | diverge => exact .diverge

theorem append {s : Step} {f : St → Step}
    (hs : s.AllYields P) (hf : ∀ st, (f st).AllYields P) : (s.append f).AllYields P := by
  induction hs with
  | nil st => exact hf st
  | cons n st r hn _ ih => exact .cons _ _ _ hn ih
  | diverge => exact .diverge

theorem bind {s : Step} {f : Nat → St → Step}
    (hs : s.AllYields P) (hf : ∀ n st, P n → (f n st).AllYields Q) : (s.bind f).AllYields Q := by
  induction hs with
  | nil st => exact .nil st
  | cons n st r hn _ ih => exact (hf n st hn).append ih
  | diverge => exact .diverge

theorem bindFR {s : Step} {f g : Nat → St → Step}
    (hs : s.AllYields P) (hf : ∀ n st, P n → (f n st).AllYields Q)
    (hg : ∀ n st, P n → (g n st).AllYields Q) : (s.bindFR f g).AllYields Q := by
  cases hs with
  | nil st => exact .nil st
  | cons n st r hn hr => exact (hf n st hn).append (fun st' => (hr st').bind hg)
  | diverge => exact .diverge

theorem mapSt {s : Step} {f : Nat → St → St} (hs : s.AllYields P) : (s.mapSt f).AllYields P := by
  induction hs with
  | nil st => exact .nil st
  | cons n st r hn _ ih => exact .cons _ _ _ hn ih
  | diverge => exact .diverge

theorem onNil {s : Step} {f : St → St} (hs : s.AllYields P) : (s.onNil f).AllYields P := by
  induction hs with
  | nil st => exact .nil _
  | cons n st r hn _ ih => exact .cons _ _ _ hn ih
  | diverge => exact .diverge

theorem force {s : Step} (hs : s.AllYields P) : ∀ cnt cur, (s.force cnt cur).AllYields P := by
  induction hs with
  | nil st => intro _ _; exact .nil _
  | cons n st r hn _ ih =>
    intro cnt cur
    refine .cons _ _ _ hn (fun st' => ?_)
    generalize (if (some n == cur) = true then cnt + 1 else 0) = c
    by_cases hc : c > 3
    · simp only [hc, if_true]; exact .nil _
    · simp only [hc, if_false]; exact ih st' _ _
  | diverge => intro _ _; exact .diverge
end Step.AllYields

/-- a generator is sound for a position relation R -/
def GenSound (g : Gen) (R : Nat → Nat → Prop) : Prop := ∀ p st, (g p st).AllYields (R p)

/-- k-fold composition of a relation -/
inductive IterR (R : Nat → Nat → Prop) : Nat → Nat → Nat → Prop
  | zero (p) : IterR R 0 p p
  | succ {k p q r} : IterR R k p q → R q r → IterR R (k+1) p r

/-- greedy DFS: everything yielded from a node reached after `k` iterations at `n`
    is reachable by ≥ k iterations -/
theorem greedyNode_sound {child : Gen} {R : Nat → Nat → Prop} (hc : GenSound child R)
    (min bound start : Nat) :
    ∀ fuel len pl k n st, IterR R k start n →
      (greedyNode child min bound fuel len pl n st).AllYields (fun q => ∃ k', k ≤ k' ∧ IterR R k' start q) := by
  intro fuel
  induction fuel with
  | zero =>
    intro len pl k n st hk
    unfold greedyNode
    split
    · exact .cons _ _ _ ⟨k, Nat.le_refl _, hk⟩ (fun _ => .nil _)
    · exact .nil _
  | succ f ih =>
    intro len pl k n st hk
    unfold greedyNode
    simp only
    have hdeep : ∀ pl', ((child n st).bindFR
          (fun n2 st2 => greedyNode child min bound f (len+1) pl' n2 st2)
          (fun n2 st2 => greedyNode child min bound f (len+1) none n2 st2)).AllYields
            (fun q => ∃ k', k ≤ k' ∧ IterR R k' start q) := by
      intro pl'
      apply Step.AllYields.bindFR (hc n st)
      · intro n2 st2 h2
        exact (ih _ _ (k+1) n2 st2 (.succ hk h2)).mono (fun q ⟨k', hk', hq⟩ => ⟨k', by omega, hq⟩)
      · intro n2 st2 h2
        exact (ih _ _ (k+1) n2 st2 (.succ hk h2)).mono (fun q ⟨k', hk', hq⟩ => ⟨k', by omega, hq⟩)
    apply Step.AllYields.append
    · split <;> split <;> first | exact hdeep _ | exact .nil _
    · intro st'
      split
      · exact .cons _ _ _ ⟨k, Nat.le_refl _, hk⟩ (fun _ => .nil _)
      · exact .nil _

/-- sequence of two generators -/
theorem seqGo_sound2 {g1 g2 : Gen} {R1 R2 : Nat → Nat → Prop} (h1 : GenSound g1 R1) (h2 : GenSound g2 R2) :
    GenSound (seqGo [g1, g2]) (fun p q => ∃ m, R1 p m ∧ R2 m q) := by
  intro p st
  unfold seqGo
  apply Step.AllYields.bind ((h1 p st).mapSt)
  intro n st' hn
  unfold seqGo
  exact ((h2 n st').mapSt).mono (fun q hq => ⟨n, hn, hq⟩)

theorem choiceGen_sound {gs : List Gen} {R : Nat → Nat → Prop} (h : ∀ g ∈ gs, GenSound g R) :
    GenSound (choiceGen gs) R := by
  induction gs with
  | nil => intro p st; exact .nil _
  | cons g gs ih =>
    intro p st
    unfold choiceGen
    exact (h g (by simp) p _).append (fun st' => ih (fun g' hg' => h g' (by simp [hg'])) p st')

end Rx
