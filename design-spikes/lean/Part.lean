import Spike.Tab
namespace Part
/-- flatten, sort by start (insertion into sorted), check they tile [0,0xD7FF] ∪ [0xE000,0x10FFFF] exactly -/
def insertR (r : Nat × Nat) : List (Nat × Nat) → List (Nat × Nat)
  | [] => [r]
  | x :: xs => if r.1 ≤ x.1 then r :: x :: xs else x :: insertR r xs
def sortR (l : List (Nat × Nat)) : List (Nat × Nat) := l.foldr insertR []
def mergeF : Nat → List (Nat × Nat) → List (Nat × Nat) → List (Nat × Nat)
  | 0, _, _ => []
  | _+1, [], ys => ys
  | _+1, xs, [] => xs
  | f+1, x :: xs, y :: ys => if x.1 ≤ y.1 then x :: mergeF f xs (y :: ys) else y :: mergeF f (x :: xs) ys
def merge (xs ys : List (Nat × Nat)) := mergeF (xs.length + ys.length + 1) xs ys
def mergeAll : List (List (Nat × Nat)) → List (Nat × Nat)
  | [] => []
  | l :: ls => merge l (mergeAll ls)
/-- tiles from `next` : every range starts at next, nonempty; skipping the surrogate gap -/
def tiles : Nat → List (Nat × Nat) → Bool
  | next, [] => next == 0x110000
  | next, (a,b) :: rs =>
    let next := if next == 0xD800 then 0xE000 else next
    a == next && a ≤ b && tiles (b+1) rs
theorem partition : tiles 0 (mergeAll Tab.all) = true := by decide +kernel
end Part
