namespace Scan
/-- abstract matcher: `find p` = span of the first match at or after p. (stateless here; the real one threads σ) -/
abbrev Find := Nat → Option (Nat × Nat)

def slice (s : List Nat) (a b : Nat) : List Nat := (s.drop a).take (b - a)

/-- ReMatcher::replace with replacement "$0" (spans kept as pieces) -/
def replaceGo (s : List Nat) (find : Find) (R : List Nat → List Nat) : (fuel : Nat) → (pos : Nat) → (first : Bool) → List Nat → List Nat
  | 0, _, _, acc => acc
  | f+1, pos, first, acc =>
    if pos < s.length then
      match find pos with
      | some (a, b) =>
        let acc := acc ++ slice s pos a ++ R (slice s a b)
        let newpos := if b == pos then b + 1 else b
        replaceGo s find R f newpos false acc
      | none => if first then s else acc ++ s.drop pos
    else if first then s else acc ++ s.drop pos

def replace (s : List Nat) (find : Find) (R : List Nat → List Nat) : List Nat :=
  replaceGo s find R (s.length + 1) 0 true []

/-- TokenIter -/
def tokensGo (s : List Nat) (find : Find) : (fuel : Nat) → (prevEnd : Option Nat) → List (List Nat)
  | 0, _ => []
  | _+1, none => []
  | f+1, some p =>
    match find p with
    | some (a, b) => slice s p a :: tokensGo s find f (some b)
    | none => [s.drop p]

def tokens (s : List Nat) (find : Find) : List (List Nat) :=
  if s.isEmpty then [] else tokensGo s find (s.length + 2) (some 0)

inductive Entry | m (t : List Nat) | n (t : List Nat) deriving Repr, BEq

structure AState where
  nextSub : Option (List Nat) := none
  prevEnd : Option Nat := some 0
  skip : Bool := false
  lastEnd : Option Nat := none      -- matcher.get_paren_end(0)

def analyzeNext (s : List Nat) (find : Find) (st : AState) : Option Entry × AState :=
  match st.prevEnd with
  | none => (none, st)
  | some prevEnd =>
    match st.nextSub with
    | some sub => (some (.m sub), { st with nextSub := none, prevEnd := st.lastEnd })
    | none =>
      let searchStart := if st.skip then prevEnd + 1 else prevEnd
      if st.skip && searchStart ≥ s.length && ¬ (prevEnd < s.length) then (none, { st with prevEnd := none }) else
      match find searchStart with
      | some (a, b) =>
        let st := { st with skip := a == b, lastEnd := some b }
        if prevEnd == a then (some (.m (slice s a b)), { st with nextSub := none, prevEnd := some b })
        else (some (.n (slice s prevEnd a)), { st with nextSub := some (slice s a b) })
      | none =>
        if prevEnd < s.length then (some (.n (s.drop prevEnd)), { st with nextSub := none, prevEnd := none })
        else (none, { st with prevEnd := none })

def analyzeGo (s : List Nat) (find : Find) : (fuel : Nat) → AState → List Entry
  | 0, _ => []
  | f+1, st => match analyzeNext s find st with
    | (some e, st') => e :: analyzeGo s find f st'
    | (none, _) => []

def analyze (s : List Nat) (find : Find) : List Entry := analyzeGo s find (2 * s.length + 3) {}

def Entry.text : Entry → List Nat | .m t => t | .n t => t

/-- a find built from a list of disjoint increasing non-empty spans -/
def findOf (spans : List (Nat × Nat)) : Find := fun p => spans.find? (fun ab => ab.1 ≥ p)

def checkAll (s : List Nat) (spans : List (Nat × Nat)) : Bool :=
  let f := findOf spans
  let toks := tokens s f
  let an := analyze s f
  (an.map Entry.text).flatten == s
  && replace s f id == s
  && replace s f (fun _ => [0]) == (if s.isEmpty then [] else (toks.intersperse [0]).flatten)
  && toks.length == (if s.isEmpty then 0 else spans.length + 1)
  && (an.filter (fun e => match e with | .m _ => true | _ => false)).map Entry.text == spans.map (fun ab => slice s ab.1 ab.2)

/-- all span lists over a string of length n: choose cut points -/
def allSpans : (n : Nat) → (from_ : Nat) → List (List (Nat × Nat))
  | 0, _ => [[]]
  | fuel+1, p =>
    [[]] ++ ((List.range 6).flatMap fun a => (List.range 7).flatMap fun b =>
      if p ≤ a && a < b && b ≤ 6 then (allSpans fuel b).map (fun rest => (a,b) :: rest) else [])

#eval ((List.range 7).flatMap fun len => (allSpans 4 0).filter (fun sp => sp.all (fun ab => ab.2 ≤ len)) |>.map (fun sp => checkAll ((List.range len).map (· + 10)) sp)).all id
#eval ((List.range 7).flatMap fun len => (allSpans 4 0).filter (fun sp => sp.all (fun ab => ab.2 ≤ len))).length
end Scan
