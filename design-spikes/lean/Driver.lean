import Spike.Engine
namespace Rx

inductive SExp where
  | atom (s : String)
  | list (xs : List SExp)
deriving Repr, Inhabited

partial def parseSExps (toks : List String) (acc : List SExp) : List SExp × List String :=
  match toks with
  | [] => (acc.reverse, [])
  | ")" :: rest => (acc.reverse, rest)
  | "(" :: rest =>
    let (xs, rest') := parseSExps rest []
    parseSExps rest' (SExp.list xs :: acc)
  | t :: rest => parseSExps rest (SExp.atom t :: acc)

def tokenize (s : String) : List String :=
  ((s.replace "(" " ( ").replace ")" " ) ").splitOn " " |>.filter (· ≠ "")

def num : SExp → Nat
  | .atom s => s.toNat!
  | _ => 0

def pairs : List SExp → List (Nat × Nat)
  | a :: b :: rest => (num a, num b) :: pairs rest
  | _ => []

partial def toOp : SExp → Op
  | .list (.atom "bol" :: _) => .bol
  | .list (.atom "eol" :: _) => .eol
  | .list (.atom "nothing" :: _) => .nothing
  | .list (.atom "end" :: _) => .endProgram
  | .list (.atom "atom" :: cs) => .atom (cs.map num).toArray
  | .list (.atom "cls" :: rs) => .cls (pairs rs)
  | .list [.atom "backref", g] => .backref (num g)
  | .list [.atom "capture", g, c] => .capture (num g) (toOp c)
  | .list (.atom "choice" :: bs) => .choice (bs.map toOp)
  | .list (.atom "seq" :: ops) => .seq (ops.map toOp)
  | .list [.atom "rep", id, c, mn, mx, g] => .rep (num id) (toOp c) (num mn) (num mx) (num g == 1)
  | .list [.atom "gfixed", c, mn, mx, l] => .gfixed (toOp c) (num mn) (num mx) (num l)
  | .list [.atom "rfixed", c, mn, mx, l] => .rfixed (toOp c) (num mn) (num mx) (num l)
  | .list [.atom "unamb", c, mn, mx] => .unamb (toOp c) (num mn) (num mx)
  | _ => .nothing

def asciiLower (c : Nat) : Nat := if 65 ≤ c && c ≤ 90 then c + 32 else c

def showOutcome : Outcome → String
  | .ok r => r
  | .panic s => "PANIC " ++ s
  | .diverge => "HANG"

/-- replace with replacement <$0|$1|$2|$3> -/
def replaceRun (ctx : Ctx) (op : Op) (fx : Facts) : (fuel : Nat) → (pos : Nat) → St → (first : Bool) → List Nat → Outcome
  | 0, _, _, _, _ => .diverge
  | f+1, pos, st, first, acc =>
    let finish (st : St) (pos : Nat) (acc : List Nat) : Outcome :=
      match st.panic with
      | some s => .panic s
      | none => .ok (String.mk ((acc ++ (ctx.input.toList.drop pos)).map Char.ofNat))
    if pos < ctx.len then
      match matches_ ctx op fx pos st with
      | (true, _, _) => .diverge
      | (false, false, st') => if first then finish st' 0 [] else finish st' pos acc
      | (false, true, st') =>
        match st'.panic with
        | some s => .panic s
        | none =>
        let start := match st'.cap.startn[0]? with | some (some s) => s | _ => pos
        let acc := acc ++ (ctx.input.toList.drop pos).take (start - pos)
        let maxCapture := ctx.maxParens - 1
        let grp (g : Nat) : List Nat :=
          if maxCapture ≥ g then
            match getParen ctx st' g with
            | some (s, e) => (ctx.input.toList.drop s).take (e - s)
            | none => []
          else []
        let acc := acc ++ [60] ++ grp 0 ++ [124] ++ grp 1 ++ [124] ++ grp 2 ++ [124] ++ grp 3 ++ [62]
        let e := match st'.cap.endn[0]? with | some (some e) => e | _ => pos
        let newpos := if e == pos then e + 1 else e
        replaceRun ctx op fx f newpos st' false acc
    else if first then finish st 0 [] else finish st pos acc

def toFacts (xs : List SExp) : Facts := Id.run do
  let mut fx : Facts := { naive := false }
  for x in xs do
    match x with
    | .list [.atom "hasbol"] => fx := { fx with hasBol := true }
    | .list [.atom "minlen", n] => fx := { fx with minLen := num n }
    | .list (.atom "prefix" :: cs) => fx := { fx with prefix_ := some (cs.map num).toArray }
    | .list (.atom "icc" :: rs) => fx := { fx with icc := some (pairs rs) }
    | .list [.atom "pre", o, .atom fp, mp] =>
        fx := { fx with pre := fx.pre ++ [(toOp o, (if fp == "none" then none else some fp.toNat!), num mp)] }
    | _ => pure ()
  return fx

def handle (line : String) : String :=
  match line.splitOn "\t" with
  | [id, flags, hasBr, maxP, inputHex, opS, factsS] =>
    let input := (inputHex.splitOn "," |>.filter (· ≠ "")).map String.toNat!
    let (xs, _) := parseSExps (tokenize opS) []
    let op := toOp xs.head!
    let (fs, _) := parseSExps (tokenize factsS) []
    let fx := if factsS == "naive" then ({} : Facts) else toFacts fs
    let ctx : Ctx := { input := input.toArray, caseBlind := flags.contains 'i', multiLine := flags.contains 'm',
                       hasBackrefs := hasBr == "1", maxParens := maxP.toNat!, lower := asciiLower }
    let m := showOutcome (isMatch ctx op fx)
    let r := showOutcome (replaceRun ctx op fx (ctx.len + 2) 0 {} true [])
    s!"{id}\t{m}\t{r.replace "\n" "\\n"}"
  | _ => "bad"

partial def loop (h : IO.FS.Stream) : IO Unit := do
  let line ← h.getLine
  if line.isEmpty then return ()
  IO.println (handle (line.dropRightWhile (· == '\n')))
  loop h

end Rx

def main : IO Unit := do Rx.loop (← IO.getStdin)
