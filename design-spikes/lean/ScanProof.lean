import Spike.Scan
namespace Scan

def Valid (s : List Nat) (find : Find) : Prop :=
  ∀ p a b, find p = some (a, b) → p ≤ a ∧ a < b ∧ b ≤ s.length

theorem slice_take_drop (s : List Nat) (a b : Nat) (h : a ≤ b) :
    s.take a ++ slice s a b = s.take b := by
  unfold slice
  have : b = a + (b - a) := by omega
  conv => rhs; rw [this, List.take_add]
  

theorem replaceGo_id (s : List Nat) (find : Find) (hv : Valid s find) :
    ∀ fuel pos first, pos ≤ s.length → s.length + 1 ≤ fuel + pos →
      replaceGo s find id fuel pos first (s.take pos) = s := by
  intro fuel
  induction fuel with
  | zero => intro pos first hp hf; omega
  | succ f ih =>
    intro pos first hp hf
    unfold replaceGo
    by_cases hlt : pos < s.length
    · simp only [hlt, if_true]
      cases hfind : find pos with
      | none =>
        simp only
        split
        · rfl
        · exact List.take_append_drop pos s
      | some ab =>
        obtain ⟨a, b⟩ := ab
        obtain ⟨h1, h2, h3⟩ := hv pos a b hfind
        simp only [id]
        have hne : (b == pos) = false := by simp; omega
        simp only [hne]
        rw [slice_take_drop s pos a h1, slice_take_drop s a b (by omega)]
        exact ih b false h3 (by omega)
    · simp only [hlt, if_false]
      split
      · rfl
      · exact List.take_append_drop pos s

theorem replace_dollar0 (s : List Nat) (find : Find) (hv : Valid s find) : replace s find id = s := by
  unfold replace
  exact replaceGo_id s find hv _ 0 true (by omega) (by omega)

end Scan
