namespace T
inductive Op where
  | atom (c : Nat)
  | seq (ops : List Op)
  | cap (g : Nat) (o : Op)

mutual
def size : Op → Nat
  | .atom _ => 1
  | .seq ops => sizeL ops
  | .cap _ o => size o + 1
termination_by structural o => o
def sizeL : List Op → Nat
  | [] => 0
  | o :: os => size o + sizeL os
termination_by structural l => l
end
example : size (.seq [.atom 1, .cap 2 (.atom 3)]) = 3 := by decide +kernel

mutual
def gen : Op → (Nat → List Nat)
  | .atom c => fun p => [p + c]
  | .seq ops => genL ops
  | .cap _ o => gen o
termination_by structural o => o
def genL : List Op → (Nat → List Nat)
  | [] => fun p => [p]
  | o :: os => fun p => (gen o p).flatMap (genL os)
termination_by structural l => l
end
example : gen (.seq [.atom 1, .cap 2 (.atom 3)]) 0 = [4] := by decide +kernel

-- non-mutual via List.map
def gen2 : Op → (Nat → List Nat)
  | .atom c => fun p => [p + c]
  | .seq ops => fun p => (ops.map gen2).foldl (fun acc g => acc.flatMap g) [p]
  | .cap _ o => gen2 o
example : gen2 (.seq [.atom 1, .cap 2 (.atom 3)]) 0 = [4] := by decide +kernel
end T
