import Spike.Engine
namespace Rx
def isCons : Step → Bool | .cons .. => true | _ => false
def c0 : Ctx := { input := #[120,120], caseBlind := false, multiLine := false, hasBackrefs := false, maxParens := 1, lower := id }
example : containsCapL [.atom #[1]] = false := by decide +kernel
example : isCons (atomGen c0 #[120] 0 {}) = true := by decide +kernel
example : isCons (sem c0 (.atom #[120]) 0 {}) = true := by decide +kernel
example : isCons (sem c0 (.seq [.atom #[120], .endProgram]) 0 {}) = true := by decide +kernel
example : isCons (sem c0 (.choice [.atom #[120], .endProgram]) 0 {}) = true := by decide +kernel
example : isCons (sem c0 (.rep 1 (.atom #[120]) 0 5 true) 0 {}) = true := by decide +kernel
example : (matchAt c0 (.seq [.atom #[120], .endProgram]) 0 {}).2.1 = true := by decide +kernel
example : (matchesNaive c0 (.seq [.atom #[120], .endProgram]) 5 0 {}).2.1 = true := by decide +kernel
end Rx
