namespace Spike

structure St where
  startn : List (Option Nat) := []
  endn   : List (Option Nat) := []
  hist   : List (Nat × Nat) := []
deriving Repr

/-- resumption stream: a pull-based generator whose tail depends on the state the consumer leaves behind -/
inductive Step where
  | nil     : St → Step
  | cons    : Nat → St → (St → Step) → Step
  | diverge : Step

abbrev Gen := Nat → St → Step

def Step.append : Step → (St → Step) → Step
  | .nil st, f => f st
  | .cons n st r, f => .cons n st (fun st' => (r st').append f)
  | .diverge, _ => .diverge

def Step.bind : Step → (Nat → St → Step) → Step
  | .nil st, _ => .nil st
  | .cons n st r, f => (f n st).append (fun st' => (r st').bind f)
  | .diverge, _ => .diverge

def Step.force (cnt : Nat) (cur : Option Nat) : Step → Step
  | .nil st => .nil st
  | .cons n st r =>
    let cnt' := if some n = cur then cnt + 1 else 0
    .cons n st (fun st' => if cnt' > 3 then .nil st' else (r st').force cnt' (some n))
  | .diverge => .diverge

inductive Op where
  | atom (cs : List Char)
  | seq (ops : List Op)
  | choice (ops : List Op)
  | rep (id : Nat) (body : Op) (min max : Nat) (greedy : Bool)
  | cap (g : Nat) (body : Op)

structure Ctx where
  input : Array Char

def atomGen (ctx : Ctx) (cs : List Char) : Gen := fun p st =>
  if (List.range cs.length).all (fun i => ctx.input[p+i]? == cs[i]?) && p + cs.length ≤ ctx.input.size
  then .cons (p + cs.length) st .nil else .nil st

def seqGen : List Gen → Gen
  | [] => fun p st => .cons p st .nil
  | [g] => g
  | g :: gs => fun p st => (g p st).bind (seqGen gs)

def choiceGen : List Gen → Gen
  | [] => fun _ st => .nil st
  | g :: gs => fun p st => (g p st).append (fun st' => choiceGen gs p st')

/-- greedy DFS, post-order; depth fuel = bound -/
def greedyNode (child : Gen) (min : Nat) : (fuel depth : Nat) → Nat → St → Step
  | 0, depth, n, st => if depth ≥ min then .cons n st .nil else .nil st
  | fuel+1, depth, n, st =>
    ((child n st).bind (greedyNode child min fuel (depth+1))).append
      (fun st' => if depth ≥ min then .cons n st' .nil else .nil st')

def sem (ctx : Ctx) : Op → Gen
  | .atom cs => atomGen ctx cs
  | .seq ops => seqGen (ops.map (sem ctx))
  | .choice ops => choiceGen (ops.map (sem ctx))
  | .rep _ body min max _ => fun p st =>
      let bound := Nat.min max (ctx.input.size - p + 1)
      (greedyNode (sem ctx body) min bound 0 p st).force 0 none
  | .cap _ body => sem ctx body

def Step.first : Step → Option Nat
  | .cons n _ _ => some n
  | _ => none

def Step.toListPure (fuel : Nat) : Step → List Nat
  | .cons n st r => match fuel with
    | 0 => [n]
    | f+1 => n :: (r st).toListPure f
  | _ => []

def ex : Op := .seq [.rep 0 (.choice [.atom ['a'], .atom ['a','b']]) 0 100 true, .atom ['b']]
#eval (sem ⟨"abab".toList.toArray⟩ ex 0 {}).toListPure 10

/-- every yield satisfies P, whatever the consumer does to the state -/
inductive Step.AllYields (P : Nat → Prop) : Step → Prop
  | nil (st) : AllYields P (.nil st)
  | cons (n st r) : P n → (∀ st', AllYields P (r st')) → AllYields P (.cons n st r)

theorem Step.AllYields.append {P} {s : Step} {f : St → Step}
    (hs : s.AllYields P) (hf : ∀ st, (f st).AllYields P) : (s.append f).AllYields P := by
  induction hs with
  | nil st => exact hf st
  | cons n st r hn _ ih => exact .cons _ _ _ hn (fun st' => ih st')

end Spike
