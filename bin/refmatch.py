"""refmatch — an executable reading of the XSD 1.1 / XPath 3.1 regex semantics over the generator's
pattern ASTs, independent of regexml's design: a backtracking enumeration of ALL match paths in
ordered-choice priority.  Used only by the failing-input search and the known-finding attribution
(never as a proof).  Set semantics (language membership) = "some path"; ordered semantics = "first
path".  Captures are functional (restored on backtracking), last iteration wins, a back-reference
to a group that has not participated matches the empty string.
"""
import unicodedata, sys

sys.setrecursionlimit(10000)


def ceq(a, b, ci):
    if a == b:
        return True
    if not ci:
        return False
    return simple_lower(a) == simple_lower(b)


def simple_lower(c):
    l = c.lower()
    return l if len(l) == 1 else c


def is_name_start(c):
    o = ord(c)
    return (c in ":_" or "A" <= c <= "Z" or "a" <= c <= "z" or 0xC0 <= o <= 0xD6 or 0xD8 <= o <= 0xF6 or 0xF8 <= o <= 0x2FF
            or 0x370 <= o <= 0x37D or 0x37F <= o <= 0x1FFF or 0x200C <= o <= 0x200D or 0x2070 <= o <= 0x218F
            or 0x2C00 <= o <= 0x2FEF or 0x3001 <= o <= 0xD7FF or 0xF900 <= o <= 0xFDCF or 0xFDF0 <= o <= 0xFFFD
            or 0x10000 <= o <= 0xEFFFF)


def is_name_char(c):
    o = ord(c)
    return is_name_start(c) or c in "-." or "0" <= c <= "9" or o == 0xB7 or 0x300 <= o <= 0x36F or 0x203F <= o <= 0x2040


def esc_member(name, c):
    """membership of character c in the class escape \\name"""
    if name == "n":
        return c == "\n"
    if name == "d":
        return unicodedata.category(c) == "Nd"
    if name == "D":
        return unicodedata.category(c) != "Nd"
    if name == "s":
        return c in " \t\n\r"
    if name == "S":
        return c not in " \t\n\r"
    if name == "w":
        return unicodedata.category(c)[0] not in "PZC"
    if name == "W":
        return unicodedata.category(c)[0] in "PZC"
    if name == "i":
        return is_name_start(c)
    if name == "I":
        return not is_name_start(c)
    if name == "c":
        return is_name_char(c)
    if name == "C":
        return not is_name_char(c)
    if name.startswith("p{") or name.startswith("P{"):
        cat = name[2:-1]
        got = unicodedata.category(c)
        inn = got == cat if len(cat) == 2 else got[0] == cat
        return inn if name[0] == "p" else not inn
    raise ValueError("escape " + name)


def fold(c):
    """simple case folding (single-character results only)"""
    for x in (c.casefold(), c.lower()):
        if len(x) == 1:
            return x
    return c


def same_case(a, b):
    return a == b or fold(a) == fold(b)


def cls_member(node, c, ci):
    _, neg, items, sub = node
    inn = False
    for it in items:
        if it[0] == "c":
            inn = inn or (same_case(c, it[1]) if ci else c == it[1])
        elif it[0] == "r":
            if ci:
                inn = inn or it[1] <= c <= it[2] or any(same_case(c, chr(o)) for o in range(ord(it[1]), min(ord(it[2]), ord(it[1]) + 400) + 1))
            else:
                inn = inn or it[1] <= c <= it[2]
        else:
            inn = inn or esc_member(it[1], c)
    if neg:
        inn = not inn
    if sub is not None and cls_member(sub, c, ci):
        inn = False
    return inn


class Ref:
    def __init__(self, s, flags, budget=200000):
        self.s = s
        self.ci = "i" in flags
        self.ml = "m" in flags
        self.dotall = "s" in flags
        self.budget = budget

    def tick(self):
        self.budget -= 1
        if self.budget < 0:
            raise TimeoutError()

    def m(self, node, i, caps):
        """generator of (j, caps) in priority order"""
        self.tick()
        s = self.s
        t = node[0]
        if t == "lit":
            if i < len(s) and ceq(s[i], node[1], self.ci):
                yield i + 1, caps
        elif t == "dot":
            if i < len(s) and (self.dotall or s[i] not in "\n\r"):
                yield i + 1, caps
        elif t == "cls":
            if i < len(s) and cls_member(node, s[i], self.ci):
                yield i + 1, caps
        elif t == "esc":
            if i < len(s) and esc_member(node[1], s[i]):
                yield i + 1, caps
        elif t == "bol":
            if i == 0 or (self.ml and s[i - 1] == "\n" and i < len(s)):
                yield i, caps
        elif t == "eol":
            if i == len(s) or (self.ml and s[i] == "\n"):
                yield i, caps
        elif t == "backref":
            sp = caps.get(node[1])
            txt = s[sp[0]:sp[1]] if sp else ""
            if len(txt) <= len(s) - i and all(ceq(s[i + k], txt[k], self.ci) for k in range(len(txt))):
                yield i + len(txt), caps
        elif t == "grp":
            for j, c2 in self.m(node[2], i, caps):
                if node[1]:
                    c3 = dict(c2)
                    c3[node[3]] = (i, j)
                    yield j, c3
                else:
                    yield j, c2
        elif t == "alt":
            for b in node[1]:
                yield from self.m(b, i, caps)
        elif t == "seq":
            yield from self.seq(node[1], 0, i, caps)
        elif t == "rep":
            yield from self.rep(node, i, caps, 0)
        else:
            raise ValueError(t)

    def seq(self, items, k, i, caps):
        if k == len(items):
            yield i, caps
            return
        for j, c2 in self.m(items[k], i, caps):
            yield from self.seq(items, k + 1, j, c2)

    def rep(self, node, i, caps, count):
        self.tick()
        _, body, mn, mx, greedy, _sp = node
        can_more = mx is None or count < mx
        if not greedy and count >= mn:
            yield i, caps
        if can_more:
            for j, c2 in self.m(body, i, caps):
                if j == i:
                    # an empty iteration: it can only help to reach the minimum
                    if count < mn:
                        yield from self.rep(node, i, c2, mn)
                    continue
                yield from self.rep(node, j, c2, count + 1)
        if greedy and count >= mn:
            yield i, caps


def all_ends(ast, s, flags, i, budget=200000):
    """all end positions from i, or None when the exploration budget is exhausted"""
    try:
        r = Ref(s, flags, budget)
        return sorted({j for j, _ in r.m(ast, i, {})})
    except (TimeoutError, RecursionError):
        return None


def is_match(ast, s, flags, budget=300000):
    """True/False, or None when the exploration budget is exhausted"""
    try:
        r = Ref(s, flags, budget)
        for i in range(len(s) + 1):
            for _ in r.m(ast, i, {}):
                return True
        return False
    except (TimeoutError, RecursionError):
        return None


def first_match(ast, s, flags, start, budget=300000):
    """leftmost match at or after start, ordered-choice: (a, b, caps) | False | None (budget)"""
    try:
        r = Ref(s, flags, budget)
        for i in range(start, len(s) + 1):
            for j, caps in r.m(ast, i, {}):
                return (i, j, caps)
        return False
    except (TimeoutError, RecursionError):
        return None


def matches_empty(ast, flags):
    return is_match(ast, "", flags)


def spans(ast, s, flags, budget=300000):
    """the spans a scan reports for a regex that does not match the empty string"""
    out = []
    pos = 0
    while pos <= len(s):
        m = first_match(ast, s, flags, pos, budget)
        if m is None:
            return None
        if m is False:
            break
        a, b, caps = m
        out.append((a, b, caps))
        pos = b if b > a else b + 1
    return out
