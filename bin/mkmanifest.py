#!/usr/bin/env python3
"""writes MANIFEST.json from manifest_src.json (per-property texts) — keeps the schema shape in one place"""
import json, os
V = os.path.dirname(os.path.dirname(os.path.abspath(__file__)))
src = json.load(open(os.path.join(V, "manifest_src.json")))
checks = []
for pid, e in sorted(src["checks"].items()):
    checks.append({
        "property_id": pid,
        "quick_cmd": f"bin/check {pid} --tier quick",
        "thorough_cmd": f"bin/check {pid} --tier thorough",
        "evidence_file": f"/verif/evidence/{pid}.json",
        "replay_cmd_template": f"bin/check {pid} --replay {{path}}",
        "engine": "lean4-model-E",
        "level_claimed": {"category": "proof", "text": e["text"], "design_ref": e.get("design_ref", "DESIGN.md §6 " + pid)},
        "level_note": e["note"],
        "technique": e["technique"],
    })
m = {
    "version": 1,
    "setup_cmd": "bin/setup",
    "hooks": {
        "guard": "regexml_verif",
        "enable": "RUSTFLAGS='--cfg regexml_verif' (set in /verif/harness/.cargo/config.toml; the harness crate depends on /repo/regexml by path)",
        "baseline_off_cmd": "cd /repo && cargo test --workspace --no-fail-fast --offline",
        "source_commits": src["hook_commits"],
        "add_only": True,
    },
    "engines": [{"name": "lean4-model-E", "path": "/verif/lean", "serves_properties": sorted(src["checks"].keys()),
                 "kind_free_text": "Lean 4 executable model of regexml (compiler, engine, search, scan loops, API) with machine-checked theorems; tied to /repo by a translator for the data tables and by a differential correspondence check (Rust harness rxh vs Lean driver rxdrv)"}],
    "checks": checks,
    "notes": src["notes"],
    "not_applicable": [{"property_id": k, "reason": v} for k, v in sorted(src["not_applicable"].items())],
}
json.dump(m, open(os.path.join(V, "MANIFEST.json"), "w"), indent=1)
print("MANIFEST.json:", len(checks), "checks,", len(m["not_applicable"]), "not applicable")
