"""props2 — streams and oracles for C07, C10–C14, C16–C20 (imported by props.py)."""
import os, re, itertools, json, unicodedata, copy
import rxlib, refmatch
from rxlib import Case, Gen, render, features, nullable, VERIF, REPO
from props import (Group, gen_pattern, rand_input, sample, abnormal, parse_analyze, parse_tokens, parse_replace,
                   analyze_spans, mtext, group_texts, regroup_same_apis, random_groups, FLAGSETS, ASTRAL)

# ------------------------------------------------------------------------------------------------
# C07 — accepts exactly the grammar and the flag set

VALID_EXTRAS = ["\\p{IsBasicLatin}", "\\P{IsGreek}", "\\p{Lu}", "\\p{L}", "\\P{Nd}", "\\p{IsPrivateUse}", "[\\p{Ll}-[a-c]]", "[^\\s\\d]",
                "[a-z-[aeiou]]", "[\\-a]", "[a\\-z]", "[a-]", "[-a]", "[a--[b]]", "[--[a]]", "[a-z--[m]]", "[\\d--[5]]", "[^a--[b]]", "[a-c-]", "\\i\\c*", "\\I\\C", "x{2,}?", "(?:a|b)??", "\\$", "\\^", "\\\\", "\\|",
                "[\\[\\]]", "\\p{IsCombiningDiacriticalMarks}", "\\p{IsLatin-1Supplement}", "a{0}", "a{0,0}", "(a)(b)(c)(d)(e)(f)(g)(h)(i)(j)\\10",
                "(a)\\1", "((a))\\2", "[+*?.|(){}]", "\\n\\r\\t", "a|", "|a", "(|a)", "()", "(?:)", "a{1,1}", "\\w+\\W+", "\\d\\D", "\\s\\S",
                "[a-c-[b]-]" if False else "[a-c-[b]]", "^$", "^*", "$+", "(?:^)?a", ".", "..*", "\\.", "[.]"]


def flags_ok(f, xsd):
    main, sep, tail = f.partition(";")
    if any(c not in ("smixq" if not xsd else "smix") for c in main):
        return False
    if sep and any(c not in "gkK" for c in tail):
        return False
    return True


def invalid_mutations(r, p, ng):
    """patterns that are certainly outside the grammar, built from a valid pattern p with ng groups"""
    return [
        (p + ")", "unmatched )"), ("(" + p, "unclosed ("), ("*" + p, "quantifier without operand"), ("+" + p, "quantifier without operand"),
        ("?" + p, "quantifier without operand"), ("{2}" + p, "quantifier without operand"), (p + "a{3,2}", "{n,m} with n>m"),
        (p + "a{x}", "malformed bounds"), (p + "a{,2}", "malformed bounds"), (p + "a{2", "malformed bounds"), (p + "a{2,3", "malformed bounds"),
        (p + "a{18446744073709551616}", "bound ≥ 2^64"), (p + "\\", "dangling escape"), (p + "\\q", "unknown escape"), (p + "\\e", "unknown escape"),
        (p + "\\0", "octal escape"), (p + "\\p{Xx}", "unknown category"), (p + "\\p{IsNoSuchBlock}", "unknown block"), (p + "\\p{Lu", "unclosed \\p"),
        (p + "\\pL", "\\p without brace"), (p + "[b-a]", "reversed range"), (p + "[]", "empty class"), (p + "[^]", "empty negative class"),
        (p + "[a", "unclosed ["), (p + "\\%d" % (ng + 1) if ng + 1 <= 9 else p + "\\99", "back-reference to a group that does not exist"),
        (p + "[\\1]", "back-reference inside a class"), (p + "(a\\%d)" % (ng + 1) if ng + 1 <= 9 else p + "(", "back-reference to an open group"),
        (p + "a**", "double quantifier"), (p + "}", "unescaped }"), (p + "]", "unescaped ]"), (p + "[a[b]]", "unescaped [ in class"),
        (p + "[a-\\d]", "class escape as range end"), (p + "(?=a)", "unsupported group syntax"), (p + "[a--b]", "bad hyphen"),
    ]


EDIT_CHARS = "()[]{}|*+?\\^$-,0:. _"


def edit_neighbourhood(r, p, limit):
    """texts one edit away from a valid pattern: every prefix, single deletions, single insertions of a
    metacharacter, the two bounds of a {n,m} swapped.  Whether each is in the grammar is decided by the model's
    parser (proved to accept exactly the grammar: C07d.compile_iff_full), not guessed here."""
    out = [p[:k] for k in range(len(p))]
    out += [p[:k] + p[k + 1:] for k in range(len(p))]
    out += [p[:k] + c + p[k:] for k in range(len(p) + 1) for c in EDIT_CHARS]
    for m in re.finditer(r"\{(\d+),(\d+)\}", p):
        out.append(p[:m.start()] + "{%s,%s}" % (m.group(2), m.group(1)) + p[m.end():])
    out = sorted(set(out) - {p})
    return out if len(out) <= limit else r.sample(out, limit)


EDIT_SEEDS = ["(a*){1,2}b", "(a?){2,5}", "(a|){0,3}", "(){1,2}", "^{1,2}a", "a${0,3}", "[a-z-[aeiou]]x", "[a-[b]]+", "^[\\w-[\\d]]$", "[a-[b]]|c",
              "([a-z-[m-p]])", "[^a-[b]]", "a{2,3}", "(ab){0,2}", "x[a-z]{10,12}", "(a{0}b{0})c", "x|a{0}b{0}", "(^*$?)a", "\\p{Lu}{1,2}", "(a)\\1{2,3}",
              "(?:a|b)*?c", "[\\-a]", "[a--[b]]", "\\p{IsBasicLatin}", "\\P{IsGreek}x", "[\\p{IsBasicLatin}-[a]]", "\\p{Lu}", "(?:x)(a)\\1", "(a)(?:b)(c)\\2", "a|(b|(c|d))", "\\$\\^\\.", "(a)(b)\\2\\1"]


def c07_streams(ctx):
    r = ctx.rnd
    gs = []
    n = ctx.scale(1200, 15000)
    # one-edit neighbourhoods of valid patterns; expectation = the model's (proved) grammar decision
    seeds = list(EDIT_SEEDS)
    for _ in range(ctx.scale(40, 600)):
        ast, p, alpha = gen_pattern(ctx, big_bounds=(r.random() < 0.2), maxgroups=3, alphabet="ab")
        if len(p) <= 24:
            seeds.append(p)
    for p in seeds:
        for q in edit_neighbourhood(r, p, ctx.scale(40, 400)):
            d = "xs" if r.random() < 0.15 else "xp"
            gs.append(Group([Case(q, "", "compile", dialect=d)], {"features": set(), "expect": "MODEL", "why": "one edit away from the valid pattern %r" % p}))
    # flag x: exactly #x9, #xA, #xD, #x20 are removed (outside classes) before the grammar applies; other white-space-like
    # characters are ordinary pattern characters — inserted where removal would change grammaticality; expectation = model
    wsl = ["\t", "\n", "\r", " ", "\x0b", "\x0c", "\x85", "\xa0", "\u2028", "\u3000", "\u1680"]
    for ch in wsl:
        for q in [ch + "+", "\\" + ch + "d", "\\p{" + ch + "Lu}", "a{" + ch + "2}", "(?" + ch + ":a)", "[a" + ch + "-z]", "a" + ch + "*", "(" + ch + ")\\1", "a|" + ch + "?", "\\" + ch, "[" + ch + "]+", "a{1," + ch + "2}"]:
            for f in ("x", "", "ix"):
                gs.append(Group([Case(q, f, "compile")], {"features": set(), "expect": "MODEL", "why": "white-space-like character U+%04X under flags %r" % (ord(ch), f)}))
    for p in r.sample(seeds, min(len(seeds), ctx.scale(25, 200))):
        for _ in range(ctx.scale(6, 30)):
            k = r.randint(0, len(p))
            q = p[:k] + r.choice(wsl) + p[k:]
            gs.append(Group([Case(q, "x", "compile")], {"features": set(), "expect": "MODEL", "why": "a white-space-like character inserted into the valid pattern %r under flag x" % p}))
    for i in range(n):
        ast, p, alpha = gen_pattern(ctx, big_bounds=(r.random() < 0.1), maxgroups=r.choice([3, 12]), alphabet=r.choice(["abc", "ab-^", "a]b", "ab\n", "aé\U00010400"]))
        if r.random() < 0.25:
            p = p + r.choice(VALID_EXTRAS)
            if "\\10" in p or "\\1" in p or "\\2" in p:
                p = r.choice(VALID_EXTRAS)          # keep group numbers meaningful: use the extra alone
        f = r.choice(["", "i", "m", "s", "x", "ims", "imsx", "i;g", ";k", "x;gkK"])
        if "x" in f and any(ch in p for ch in "\t\n\r "):
            f = f.replace("x", "")          # literal whitespace would be stripped and change the pattern
        gs.append(Group([Case(p, f, "compile")], {"features": set(), "expect": "OK", "why": "rendered from a generated AST / a valid fragment"}))
        if r.random() < 0.5:
            ng = sum(1 for nd in rxlib.walk(ast) if nd[0] == "grp" and nd[1])
            base = render(ast)
            q, why = r.choice(invalid_mutations(r, base, ng))
            gs.append(Group([Case(q, r.choice(["", "i", "s"]), "compile")], {"features": set(), "expect": "ERR:Syntax", "why": why}))
    for e in VALID_EXTRAS:
        gs.append(Group([Case(e, "", "compile")], {"features": set(), "expect": "OK", "why": "valid fragment"}))
    for q, why in invalid_mutations(r, "a", 0) + invalid_mutations(r, "(a)(b)", 2):
        gs.append(Group([Case(q, "", "compile")], {"features": set(), "expect": "ERR:Syntax", "why": why}))
    # all flag strings up to length 3 over a superset alphabet, both dialects
    alph = "smixq;gkKzS \U0001F600"
    for k in range(0, 4 if not ctx.quick() else 3):
        for t in itertools.product(alph, repeat=k):
            f = "".join(t)
            for xsd in (False, True):
                gs.append(Group([Case("a", f, "compile", dialect="xs" if xsd else "xp")],
                                {"features": set(), "expect": "OK" if flags_ok(f, xsd) else "ERR:InvalidFlags", "why": "flag string"}))
    if ctx.quick():
        for _ in range(400):
            f = "".join(r.choice(alph) for _ in range(3))
            xsd = r.random() < 0.5
            gs.append(Group([Case("a", f, "compile", dialect="xs" if xsd else "xp")],
                            {"features": set(), "expect": "OK" if flags_ok(f, xsd) else "ERR:InvalidFlags", "why": "flag string"}))
    else:
        ctx.exhaustive = True
    return gs


def c07_oracle(ctx, g):
    a = g.impl[0]
    exp = g.meta["expect"]
    if exp == "MODEL":
        exp = g.model[0]
        if exp not in ("OK", "ERR:Syntax"):
            return []
        ctx.hist["edit:" + exp] += 1
        if a != exp:
            what = "is in the grammar" if exp == "OK" else "is not in the grammar"
            return [f"Regex::{'xsd' if g.cases[0].dialect == 'xs' else 'xpath'}({g.cases[0].pattern!r}) answered {a}; the pattern {what} (decided by the model's parser, which C07d.compile_iff_full proves equal to the grammar; {g.meta['why']})"]
        return []
    ctx.hist[exp + "→" + a[:16]] += 1
    ctx.distinct.add((g.cases[0].pattern, g.cases[0].flags, g.cases[0].dialect))
    if exp == "OK" and a == "OK":
        sample(ctx, g, {"expected": exp})
    if a != exp:
        return [f"Regex::{'xsd' if g.cases[0].dialect == 'xs' else 'xpath'}({g.cases[0].pattern!r}, {g.cases[0].flags!r}) answered {a}, expected {exp} ({g.meta['why']})"]
    return []


# ------------------------------------------------------------------------------------------------
# C10 — category, block and name escapes

ARMS = {"L": ["Lu", "Ll", "Lt", "Lm", "Lo"], "M": ["Mn", "Mc", "Me"], "N": ["Nd", "Nl", "No"], "P": ["Pc", "Pd", "Ps", "Pe", "Pi", "Pf", "Po"],
        "Z": ["Zs", "Zl", "Zp"], "S": ["Sm", "Sc", "Sk", "So"], "C": ["Cc", "Cf", "Co", "Cn"]}
TWO = [c for v in ARMS.values() for c in v]


def icu_tables():
    """general categories as dumped by the harness (the data actually linked)"""
    import subprocess
    out = subprocess.run([rxlib.RXH, "dump-icu"], capture_output=True, text=True).stdout
    gc = {}
    for line in out.splitlines():
        f = line.split()
        if f[0] == "gc":
            xs = [int(x) for x in f[3:]]
            gc[f[1]] = [(xs[i], xs[i + 1]) for i in range(0, len(xs), 2)]
    return gc


def blocks_txt():
    out = []
    d = os.path.join(REPO, "regexml-ucd-blocks/src")
    for fn in ("Blocks.txt", "CompatBlocks.txt"):
        for line in open(os.path.join(d, fn)):
            line = line.split("#")[0].strip()
            m = re.match(r"([0-9A-Fa-f]+)\.\.([0-9A-Fa-f]+)\s*;\s*(.+)$", line)
            if m:
                out.append((m.group(3).strip(), int(m.group(1), 16), int(m.group(2), 16)))
    return out


def scalar(o):
    return 0 <= o < 0x110000 and not (0xD800 <= o < 0xE000)


def c10_streams(ctx):
    r = ctx.rnd
    gs = []
    gc = icu_tables()
    # representatives of every two-letter category: first / last / random members
    reps = {}
    for c2 in TWO:
        rs = gc[c2]
        picks = {rs[0][0], rs[-1][1] - 1}
        for _ in range(ctx.scale(4, 40)):
            a, b = r.choice(rs)
            picks.add(r.randrange(a, b))
        reps[c2] = sorted(o for o in picks if scalar(o))
    for name in list(ARMS) + TWO:
        members = set(ARMS[name]) if name in ARMS else {name}
        chars, expect = [], []
        for c2 in TWO:
            for o in reps[c2]:
                chars.append(chr(o))
                expect.append(c2 in members)
        for pat, neg in (("^\\p{%s}$" % name, False), ("^\\P{%s}$" % name, True)):
            cs = [Case(pat, "", "is_match", ch) for ch in chars]
            gs.append(Group(cs, {"features": set(), "kind": "category", "name": name, "chars": chars,
                                 "expect": [e != neg for e in expect]}))
    # several escapes in ONE pattern — both polarities of one name, the same name twice, two names: each escape denotes its
    # own set wherever it stands (pairs of a member and a non-member in every order)
    for name in r.sample(TWO, ctx.scale(10, len(TWO))) + ["L", "N", "Lu"]:
        members = set(ARMS[name]) if name in ARMS else {name}
        ins = [reps[c2][0] for c2 in TWO if c2 in members and reps[c2]][:2]
        outs = [reps[c2][0] for c2 in TWO if c2 not in members and reps[c2]][:2]
        if not ins or not outs:
            continue
        m, o = chr(ins[0]), chr(outs[0])
        for pat, want in (("^\\p{%s}\\P{%s}$", lambda a, b: a and not b), ("^\\P{%s}\\p{%s}$", lambda a, b: (not a) and b), ("^\\p{%s}\\p{%s}$", lambda a, b: a and b),
                          ("^[\\P{%s}][\\p{%s}]$", lambda a, b: (not a) and b), ("^\\P{%s}+\\p{%s}+$", lambda a, b: (not a) and b), ("^[^\\p{%s}]\\P{%s}$", lambda a, b: (not a) and not b)):
            chars = [m + o, o + m, m + m, o + o]
            isin = {m: True, o: False}
            cs = [Case(pat % (name, name), "", "is_match", ch) for ch in chars]
            gs.append(Group(cs, {"features": set(), "kind": "two-escapes", "name": name, "chars": chars, "expect": [bool(want(isin[ch[0]], isin[ch[1]])) for ch in chars]}))
    for (nm, a, b) in r.sample(blocks_txt(), ctx.scale(8, 60)):
        key = nm.replace(" ", "").replace("_", "")
        if not (scalar(a) and scalar(b + 1) and scalar(a + 1)):
            continue
        m, o = chr(a), chr(b + 1)
        for pat, want in (("^\\p{Is%s}\\P{Is%s}$", lambda x, y: x and not y), ("^\\P{Is%s}\\p{Is%s}$", lambda x, y: (not x) and y)):
            chars = [m + o, o + m, m + m, o + o]
            isin = {m: True, o: False}
            cs = [Case(pat % (key, key), "", "is_match", ch) for ch in chars]
            gs.append(Group(cs, {"features": set(), "kind": "two-escapes", "name": key, "chars": chars, "expect": [bool(want(isin[ch[0]], isin[ch[1]])) for ch in chars]}))
    # \d \w \s \i \c and complements against the definitions
    probe = sorted({o for c2 in TWO for o in reps[c2][:3]} | {9, 10, 13, 32, 0x3A, 0x5F, 0x2D, 0x2E, 0x30, 0xB7, 0x300, 0x203F, 0x37E, 0xF900, 0x2000})
    cat_of = {}
    for c2 in TWO:
        for (a, b) in gc[c2]:
            for o in probe:
                if a <= o < b:
                    cat_of[o] = c2
    defs = {"d": lambda o: cat_of.get(o) == "Nd", "w": lambda o: cat_of.get(o, "Cn")[0] not in "PZC", "s": lambda o: o in (9, 10, 13, 32),
            "i": lambda o: refmatch.is_name_start(chr(o)), "c": lambda o: refmatch.is_name_char(chr(o))}
    for e, fn in defs.items():
        for esc, neg in ((e, False), (e.upper(), True)):
            chars = [chr(o) for o in probe if scalar(o)]
            cs = [Case("^\\%s$" % esc, "", "is_match", ch) for ch in chars]
            gs.append(Group(cs, {"features": set(), "kind": "escape", "name": esc, "chars": chars, "expect": [fn(ord(ch)) != neg for ch in chars]}))
    # blocks: every name of Blocks.txt / CompatBlocks.txt, boundaries ±1
    bl = blocks_txt()
    if ctx.quick():
        bl = r.sample(bl, 120) + [b for b in bl if b[0] in ("Basic Latin", "Greek", "Latin-1 Supplement")]
    else:
        ctx.exhaustive = True
    for (nm, a, b) in bl:
        key = nm.replace(" ", "").replace("_", "")
        chars, expect = [], []
        for o, e in ((a - 1, False), (a, True), (b, True), (b + 1, False), ((a + b) // 2, True)):
            if scalar(o):
                chars.append(chr(o))
                expect.append(e)
        cs = [Case("^\\p{Is%s}$" % key, "", "is_match", ch) for ch in chars]
        gs.append(Group(cs, {"features": set(), "kind": "block", "name": key, "chars": chars, "expect": expect}))
    pu = [(0xE000, True), (0xF8FF, True), (0xF0000, True), (0xFFFFD, True), (0x100000, True), (0x10FFFD, True), (0x61, False), (0xF900, False),
          (0xD7FF, False), (0xEFFFF, False), (0xFFFFE, False), (0xFFFFF, False), (0x10FFFE, False), (0x10FFFF, False), (0xE800, True), (0xF1234, True)]
    for esc, neg in (("p", False), ("P", True)):
        gs.append(Group([Case("^\\%s{IsPrivateUse}$" % esc, "", "is_match", chr(o)) for o, _ in pu],
                        {"features": set(), "kind": "block", "name": "PrivateUse", "chars": [chr(o) for o, _ in pu], "expect": [e != neg for _, e in pu]}))
    for bad in ["\\p{Xx}", "\\p{IsNoSuchBlock}", "\\p{Cs}", "\\p{IsBasic Latin}", "\\p{Lx}", "\\p{}", "\\p{Isbasiclatin}", "\\p{LU}"]:
        gs.append(Group([Case(bad, "", "compile")], {"features": set(), "kind": "unknown", "name": bad, "chars": [""], "expect": ["ERR:Syntax"]}))
    # the compiled classes themselves (model tables vs the crate's): dumps are compared by run_full
    for name in list(ARMS) + TWO:
        gs.append(Group([Case("\\p{%s}" % name, "", "dump")], {"features": set(), "kind": "dump", "name": name, "chars": [""], "expect": [None]}))
    for e in "dwsic":
        gs.append(Group([Case("\\" + e, "", "dump")], {"features": set(), "kind": "dump", "name": e, "chars": [""], "expect": [None]}))
    return gs


def c10_oracle(ctx, g):
    out = []
    for c, ch, a, e in zip(g.cases, g.meta["chars"], g.impl, g.meta["expect"]):
        ctx.hist[g.meta["kind"]] += 1
        if e is None:
            continue
        want = e if isinstance(e, str) else ("T" if e else "F")
        ctx.distinct.add((c.pattern, ch))
        if a != want and not out:
            cpt = " ".join("U+%04X" % ord(x) for x in ch)
            out.append(f"{c.pattern!r} on {cpt}: answered {a}, the Unicode / XML data say {want}" if ch else f"{c.pattern!r}: answered {a}, expected {want}")
    if len(ctx.samples) < 8:
        ctx.samples.append({"escape": g.cases[0].pattern, "tested": len(g.cases)})
    return out


# ------------------------------------------------------------------------------------------------
# C11 — flag i

CASE_ALPHABETS = ["abAB", "aéÉb", "αΑβΒ", "жЖдД", "\U00010428\U00010400ab", "abAB1 \n-"]


def swapc(c):
    for x in (c.upper(), c.lower()):
        if len(x) == 1 and x != c:
            return x
    return c


def swap_ast(node, r):
    t = node[0]
    if t == "lit":
        return ("lit", swapc(node[1]) if r.random() < 0.6 else node[1])
    if t == "cls":
        def sw(cl):
            if cl is None:
                return None
            items = []
            for it in cl[2]:
                if it[0] == "c":
                    items.append(("c", swapc(it[1])))
                elif it[0] == "r" and it[1].isascii() and it[2].isascii() and it[1].isalpha() and it[2].isalpha() and it[1].islower() == it[2].islower():
                    items.append(("r", swapc(it[1]), swapc(it[2])))
                else:
                    items.append(it)
            return ("cls", cl[1], items, sw(cl[3]))
        return sw(node)
    if t == "grp":
        return ("grp", node[1], swap_ast(node[2], r), node[3])
    if t in ("alt", "seq"):
        return (t, [swap_ast(b, r) for b in node[1]])
    if t == "rep":
        return ("rep", swap_ast(node[1], r)) + node[2:]
    return node


def props2_parse(p):
    try:
        return parse_escaped(p)
    except Exception:
        return None


def parse_escaped(p):
    """like parse_full but with backslash-escaped literal metacharacters"""
    out, i = [], 0
    # translate escaped literals to private-use placeholders, parse, and map back
    table = {}
    q = ""
    while i < len(p):
        if p[i] == "\\" and i + 1 < len(p) and not p[i + 1].isdigit():
            ph = chr(0xF000 + len(table))
            table[ph] = p[i + 1]
            q += ph
            i += 2
        else:
            q += p[i]
            i += 1
    ast = parse_full(q)

    def back(n):
        t = n[0]
        if t == "lit":
            return ("lit", table.get(n[1], n[1]))
        if t == "grp":
            return ("grp", n[1], back(n[2]), n[3])
        if t in ("alt", "seq"):
            return (t, [back(b) for b in n[1]])
        if t == "rep":
            return ("rep", back(n[1])) + n[2:]
        return n
    return back(ast)


def c11_streams(ctx):
    r = ctx.rnd
    gs = []
    n = ctx.scale(2200, 30000)
    for i in range(n):
        alpha = r.choice(CASE_ALPHABETS)
        g = Gen(r, alphabet=alpha, escapes=(r.random() < 0.5))
        ast = g.gen(r.choice([1, 2, 3, 3]))
        p = render(ast)
        p2 = render(swap_ast(ast, r))
        fe = features(ast)
        for _ in range(2):
            s = rand_input(ctx, alpha, 6)
            s2 = "".join(swapc(c) if r.random() < 0.6 else c for c in s)
            cs = [Case(p, "i", "analyze", s), Case(p, "i", "analyze", s2), Case(p2, "i", "analyze", s), Case(p, "", "is_match", s), Case(p, "i", "is_match", s)]
            # category escapes are case-sensitive by design (\\p{Lu} ...): no input swapping for those patterns
            cse = bool(re.search(r"[pP]\{L[ult]?\}", p))
            gs.append(Group(cs, {"features": fe, "input": s, "ast": ast, "s2": s2, "p2": p2, "case_sensitive_escape": cse}))
    # a literal prefix that starts with a case-less character and continues with letters (the prefix scan)
    for _ in range(ctx.scale(300, 3000)):
        alpha = r.choice(CASE_ALPHABETS[:5])
        w = r.choice("1 -(") + "".join(r.choice(alpha) for _ in range(r.randint(1, 3)))
        tail = r.choice(["", "+", "x", "(?:y|z)", "$"])
        lit = "".join("\\" + c if c in "()-" else c for c in w)
        p = lit + tail
        ast = props2_parse(p)
        if ast is None:
            continue
        w2 = "".join(swapc(c) for c in w)
        for s in [r.choice(["", "z"]) + w2 + r.choice(["", "x", w2]), w + w2]:
            s2 = "".join(swapc(c) if r.random() < 0.6 else c for c in s)
            cs = [Case(p, "i", "analyze", s), Case(p, "i", "analyze", s2), Case(p, "i", "analyze", s), Case(p, "", "is_match", s), Case(p, "i", "is_match", s)]
            gs.append(Group(cs, {"features": set(), "input": s, "ast": ast, "s2": s2, "p2": p, "case_sensitive_escape": False}))
    # a quantified case-SENSITIVE class escape followed by a literal whose case counterpart is in the class: the repeat
    # must give a character back to the (case-blind) literal; compared with the literal written in the other case
    for _ in range(ctx.scale(150, 2000)):
        alpha = r.choice(CASE_ALPHABETS[:5])
        lo = [c for c in alpha if c.islower()] or ["a"]
        a = r.choice(lo)
        esc = r.choice(["\\p{Ll}", "\\p{Lu}", "\\P{Lu}", "[\\p{Ll}\\d]", "\\p{L}", "[\\p{Lu}1]"])
        q = r.choice(["*", "+", "{1,3}", "*?", "+?"])
        litc = r.choice([a, a.upper()])
        pre, suf = r.choice(["", "^"]), r.choice(["", "$", "x"])
        p = pre + esc + q + litc + suf
        p2 = pre + esc + q + swapc(litc) + suf
        ast = ("seq", [("lit", a)])          # not used by the span comparison
        for s in [a * 2, a.upper() * 2, a + a.upper(), a.upper() + a + "x", a * 3 + "x", "1" + a]:
            cs = [Case(p, "i", "analyze", s), Case(p, "i", "analyze", s), Case(p2, "i", "analyze", s), Case(p, "i", "is_match", s), Case(p, "i", "is_match", s)]
            gs.append(Group(cs, {"features": set(), "input": s, "ast": ast, "s2": s, "p2": p2, "case_sensitive_escape": True}))
    # comparison matrix: every ASCII character (and a few cased letters beyond) as a one-character literal against an
    # input holding all of them: without i only the identical character matches, with i exactly the case counterparts
    # — case-less characters (controls, punctuation, digits) have none, whatever their bit patterns
    probes = [chr(c) for c in range(1, 128)] + list("éÉµßàÀſKσΣдД")
    allp = "".join(probes)
    meta_chars = set(".\\?*+{}()[]|^$-")
    for x in probes:
        lit = ("\\" + x) if x in meta_chars else x
        for (p, inp, kind) in [(lit, allp, "matrix"), (lit + "b", "".join(y + "b\u2603" for y in probes), "matrix2")]:
            cs = [Case(p, "i", "analyze", inp), Case(p, "", "analyze", inp)]
            gs.append(Group(cs, {"features": set(), "input": inp, "kind": kind, "x": x, "probes": probes}))
    # without i a literal matches only the identical characters
    for alpha in CASE_ALPHABETS[:5]:
        for _ in range(ctx.scale(30, 300)):
            w = "".join(r.choice(alpha) for _ in range(r.randint(1, 4)))
            w2 = "".join(swapc(c) for c in w)
            cs = [Case("^" + w + "$", "", "is_match", w2), Case("^" + w + "$", "i", "is_match", w2), Case("^" + w + "$", "", "is_match", w)]
            gs.append(Group(cs, {"features": set(), "input": w2, "kind": "exact", "w": w}))
    return gs


def spans_only(ans):
    sp = analyze_spans(ans)
    return None if sp is None else [(a, b) for a, b, _ in sp]


def c11_oracle(ctx, g):
    if g.meta.get("kind") in ("matrix", "matrix2"):
        x, probes, inp = g.meta["x"], g.meta["probes"], g.meta["input"]
        step, stride = (1, 1) if g.meta["kind"] == "matrix" else (2, 3)
        ctx.hist[g.meta["kind"]] += 1
        out = []
        for ans, fl in zip(g.impl, ("i", "")):
            if not ans.startswith("OK"):
                if not abnormal(ans):
                    out.append(f"literal {x!r} (flags {fl!r}): {ans[:40]}")
                continue
            sp = spans_only(ans)
            if sp is None:
                continue
            got = set()
            for (a, b) in sp:
                if b - a != step or a % stride:
                    out.append(f"literal {x!r} (flags {fl!r}): unexpected span {(a, b)}")
                    break
                got.add(inp[a])
            if fl == "":
                want = {x}
            else:
                want = {y for y in probes if y == x or y.lower() == x.lower() or y.upper() == x.upper()}
            # required: the character itself and its one-to-one simple case partner; allowed: anything whose simple
            # lower or upper case coincides (whether `s` also matches U+017F is class-closure business: K8)
            need = {x} | ({y for y in probes if y != x and ((y == x.lower() and x == y.upper()) or (y == x.upper() and x == y.lower()))} if fl == "i" else set())
            if not out and not (need <= got <= want):
                out.append(f"the one-character literal {x!r} under flags {fl!r} matches {sorted(got)} among the probe characters; required {sorted(need)}, allowed {sorted(want)}")
            ctx.distinct.add((g.meta["kind"], x, fl))
        return out[:1]
    if g.meta.get("kind") == "exact":
        a, b, c = g.impl
        w, w2 = g.meta["w"], g.meta["input"]
        ctx.hist["exact"] += 1
        ctx.distinct.add(("exact", w))
        out = []
        if w != w2 and a != "F":
            out.append(f"without flag i the literal {w!r} matches {w2!r}")
        if b != "T":
            out.append(f"with flag i the literal {w!r} does not match its case counterpart {w2!r}")
        if c != "T":
            out.append(f"the literal {w!r} does not match itself")
        return out[:1]
    a1, a2, a3, m0, mi = g.impl
    ctx.hist["analyze:" + a1[:4]] += 1
    out = []
    if any(abnormal(x) for x in g.impl):
        return []
    s, s2, p, p2 = g.meta["input"], g.meta["s2"], g.cases[0].pattern, g.meta["p2"]
    if g.meta.get("case_sensitive_escape"):
        pass
    elif a1.startswith("OK") and a2.startswith("OK") and spans_only(a1) != spans_only(a2):
        out.append(f"flag i: pattern {p!r} gives spans {spans_only(a1)} on {s!r} but {spans_only(a2)} on the case-swapped input {s2!r}")
    elif a1[:3] != a2[:3]:
        out.append(f"flag i: pattern {p!r}: {a1[:30]} on {s!r} vs {a2[:30]} on case-swapped {s2!r}")
    if not out and a1.startswith("OK") and a3.startswith("OK") and spans_only(a1) != spans_only(a3):
        out.append(f"flag i: {p!r} and the case-swapped pattern {p2!r} give different spans on {s!r}: {spans_only(a1)} vs {spans_only(a3)}")
    elif not out and a1[:3] != a3[:3]:
        out.append(f"flag i: {p!r} vs case-swapped pattern {p2!r} on {s!r}: {a1[:30]} vs {a3[:30]}")
    if not out and m0 == "T" and mi == "F":
        out.append(f"{p!r} matches {s!r} without flag i but not with it")
    if a1.startswith("OK:") and spans_only(a1):
        ctx.distinct.add((p, s))
        sample(ctx, g)
    return out[:1]


# ------------------------------------------------------------------------------------------------
# C12 — anchors and dot

C12_ATOMS = [("lit", "a"), ("dot",), ("bol",), ("eol",), ("lit", "\n")]
C12_QUANTS = [(0, None, "*", True), (1, None, "+", True), (0, 1, "?", True), (1, None, "+", False), (2, 2, "{2}", True)]


def c12_streams(ctx):
    r = ctx.rnd
    gs = []
    flagsets = ["", "m", "s", "ms"]
    inputs = rxlib.strings_upto("ab\n\r", ctx.scale(3, 4))
    # exhaustive small patterns with anchors / dot in every position
    pats = []
    for size in range(1, ctx.scale(3, 4) + 1):
        for ast in rxlib.enum_asts(size, C12_ATOMS, C12_QUANTS):
            if any(n[0] in ("bol", "eol", "dot") for n in rxlib.walk(ast)):
                pats.append(ast)
    if ctx.quick():
        pats = r.sample(pats, min(len(pats), 260))
        inputs = r.sample(inputs, min(len(inputs), 40)) + ["", "\n", "a\n", "\na", "a\nb", "a\n\n", "\r\n"]
    else:
        ctx.exhaustive = True
    for ast in pats:
        p = render(ast)
        fe = features(ast)
        for f in flagsets:
            for s in inputs:
                gs.append(Group([Case(p, f, "is_match", s), Case(p, f, "analyze", s)], {"features": fe, "input": s, "ast": ast, "flags": f}))
    # random larger patterns
    for i in range(ctx.scale(600, 8000)):
        ast, p, alpha = gen_pattern(ctx, alphabet="ab\n", escapes=False)
        f = r.choice(flagsets)
        s = "".join(r.choice("ab\n\r") for _ in range(r.randint(0, 6)))
        gs.append(Group([Case(p, f, "is_match", s), Case(p, f, "analyze", s)], {"features": features(ast), "input": s, "ast": ast, "flags": f}))
    # the dot against every kind of line-break-like and space-like character
    for p in [".", "^.$", "a.b", ".+", "(.)", "[^a].", ".{2}"]:
        ast = parse_full(p.replace("[^a]", "c"))
        if "[^a]" in p:
            ast = ("seq", [("cls", True, [("c", "a")], None), ("dot",)])
        for f in flagsets:
            for ch in "\n\r\x0b\x0c\x85\u2028\u2029\t \x00a":
                for s in [ch, "a" + ch + "b", ch + ch]:
                    gs.append(Group([Case(p, f, "is_match", s), Case(p, f, "analyze", s)], {"features": set(), "input": s, "ast": ast, "flags": f}))
    # anchors as bare branches of an alternation after a repeat, and next to quantified terms
    for p in ["a*(?:^|b)a", "[ab]{0,3}(?:^|c)b", "x\n*(?:^|b)\ny", "x\n*(?:$|b)\ny", "a+(?:$|b)", "(?:a|^)+b", "a*(?:b|$)a", "(?:^a|b)*c", "a?(?:^|$)a",
              # a quantified single character directly followed by an anchor (the repeat must be able to give everything back)
              "a*^a", "a?^a", "[ab]*^ab", ".*^ab", "a{0,2}^a", "a*?^a", "a*$", "a*$a", "a+$", "[ab]*$b", "b*^", "a*^$", "x*^ab", "a*^a|b",
              # `^` that is NOT the first top-level term (behind a group, an optional term, `$`, a line break): under m the
              # match may start on a later line, so nothing may be pinned to offset 0
              "(^a)", "(?:^a)b", "b?^a", "$^a", "(^)a", "\n?^a", "(?:b|^)a", "x?^ab", "(^a|c)b", "(?:)^a", "b*^a+", "($)\n^a", "(^[ab])a", "()^a{2}",
              "a$\n?", "(a$)", "a(?:$|b)\n^b"]:
        ast = parse_escaped(p.replace("\\n", "\n")) if "\\" in p else parse_full(p)
        for f in flagsets:
            for s in ["a", "b", "ab", "aa", "x\n\ny", "x\ny", "ba", "x\n\n\ny", "c", "aab", "ac",
                      "b\na", "b\nab", "\na", "b\n\naa", "c\nab\nab", "a\nb", "b\na\n", "x\nab", "a\n\nb"]:
                gs.append(Group([Case(p, f, "is_match", s), Case(p, f, "analyze", s)], {"features": features(ast), "input": s, "ast": ast, "flags": f}))
    return gs


def c12_oracle(ctx, g):
    a, an = g.impl
    ast, s, f = g.meta["ast"], g.meta["input"], g.meta["flags"]
    ctx.hist["is_match:" + a[:3]] += 1
    if a not in ("T", "F"):
        return []
    ref = refmatch.is_match(ast, s, f)
    if ref is None:
        return []
    ctx.distinct.add((g.cases[0].pattern, f, s))
    if ref:
        sample(ctx, g)
    if (a == "T") != ref:
        return [f"is_match({g.cases[0].pattern!r}, flags {f!r}, {s!r}) = {a}; by the anchor / dot rules " + ("a" if ref else "no") + " match exists"]
    if an.startswith("OK:") and not an.endswith("+MORE") and not (g.meta["features"] & {"rep_nullable_body"}):
        sp = spans_only(an)
        rs = refmatch.spans(ast, s, f)
        if rs is not None and [(x, y) for x, y, _ in rs] != sp:
            return [f"spans of {g.cases[0].pattern!r} (flags {f!r}) on {s!r}: {sp}, the anchor / dot rules with ordered choice give {[(x, y) for x, y, _ in rs]}"]
    return []


# ------------------------------------------------------------------------------------------------
# C13 — flag q


def c13_streams(ctx):
    r = ctx.rnd
    gs = []
    metas = "()[]{}\\?*+|.^$ab1 \t"
    for i in range(ctx.scale(900, 12000)):
        p = "".join(r.choice(metas) for _ in range(r.randint(1, 4)))
        overlap = r.random() < 0.3
        if overlap:
            # a literal whose start overlaps itself (aab, ((a, ..*): an occurrence running into a partial one
            p = p[0] * r.randint(1, 2) + p
        f = r.choice(["q", "q", "qi", "qm", "qs", "qx", "qms", "iq"])
        parts = []
        for _ in range(r.randint(0, 3)):
            parts.append("".join(r.choice("ab(. ") for _ in range(r.randint(0, 2))))
            parts.append(p if r.random() < 0.7 else (p.upper() if "i" in f else p[:-1]))
        s = "".join(parts)
        if overlap:
            s = r.choice(["", "x"]) + p[:r.randint(1, len(p) - 1)] + p + r.choice(["", p[:1], "b"])
        R = r.choice(["$1", "\\", "$", "x", "", "$0\\$", "\\n"])
        cs = [Case(p, f, "is_match", s), Case(p, f, "replace", s, R), Case(p, f, "tokenize", s), Case(p, f, "analyze", s)]
        gs.append(Group(cs, {"features": set(), "input": s, "R": R}))
    for p in "()[]{}\\?*+|.^$":
        for s in [p, "a" + p + "b", "ab", p + p]:
            cs = [Case(p, "q", "is_match", s), Case(p, "q", "replace", s, "$1\\"), Case(p, "q", "tokenize", s), Case(p, "q", "analyze", s)]
            gs.append(Group(cs, {"features": set(), "input": s, "R": "$1\\"}))
    return gs


def c13_oracle(ctx, g):
    m, rp, tk, an = g.impl
    c = g.cases[0]
    p, f, s, R = c.pattern, c.flags, g.meta["input"], g.meta["R"]
    ctx.hist["is_match:" + m[:3]] += 1
    if any(abnormal(x) for x in g.impl):
        return [f"flag q: pattern {p!r} on {s!r}: {g.impl}"]
    ci = "i" in f
    hay, needle = (s.lower(), p.lower()) if ci else (s, p)
    out = []
    want = needle in hay
    if m != ("T" if want else "F"):
        out.append(f"flag {f!r}: is_match({p!r}, {s!r}) = {m}, the literal " + ("occurs" if want else "does not occur") + " in the input")
    # pieces by literal search (non-overlapping, leftmost)
    pieces, pos = [], 0
    while True:
        k = hay.find(needle, pos)
        if k < 0:
            break
        pieces.append(s[pos:k])
        pos = k + len(needle)
    pieces.append(s[pos:])
    if not out and rp != "OK:" + rxlib.cps(R.join(pieces)):
        out.append(f"flag {f!r}: replace_all({s!r}, {R!r}) = {rp[:60]}, the replacement used verbatim gives {R.join(pieces)!r}")
    if not out and s != "" and parse_tokens(tk) != pieces:
        out.append(f"flag {f!r}: tokenize({s!r}) = {tk[:60]}, splitting on the literal gives {pieces!r}")
    if not out:
        ents = parse_analyze(an)
        if ents is None:
            out.append(f"flag {f!r}: analyze fails on the literal {p!r}: {an}")
        else:
            for e in ents:
                if e[0] == "M" and (len(e[2]) != 1 or e[2][0][0] != "S"):
                    out.append(f"flag {f!r}: analyze reports groups for the literal {p!r}: {an[:80]}")
    if want:
        ctx.distinct.add((p, f, s))
        sample(ctx, g)
    return out[:1]


# ------------------------------------------------------------------------------------------------
# C14 — flag x

WS = "\t\n\r "


def class_depth_positions(p):
    """for every index of p: is it inside a character class expression? (p is a valid pattern)"""
    inside = []
    depth = 0
    i = 0
    while i < len(p):
        c = p[i]
        if c == "\\" and i + 1 < len(p):
            inside += [depth > 0, depth > 0]
            i += 2
            continue
        if c == "[":
            inside.append(depth > 0)
            depth += 1
        elif c == "]" and depth > 0:
            depth -= 1
            inside.append(depth > 0)
        else:
            inside.append(depth > 0)
        i += 1
    return inside


def c14_streams(ctx):
    r = ctx.rnd
    gs = []
    for i in range(ctx.scale(1300, 16000)):
        ast, p, alpha = gen_pattern(ctx, alphabet=r.choice(["abc", "ab-^", "a]b"]))
        inside = class_depth_positions(p)
        # insert whitespace at arbitrary positions; remember which insertions are inside a class (kept)
        pw, pdel = "", ""
        for k in range(len(p) + 1):
            if r.random() < 0.25:
                w = "".join(r.choice(WS) for _ in range(r.randint(1, 2)))
                in_cls = inside_cls_gap(p, inside, k)
                pw += w
                if in_cls:
                    pdel += w
            if k < len(p):
                pw += p[k]
                pdel += p[k]
        f = r.choice(["", "i", "m", "s"])
        for _ in range(2):
            s = rand_input(ctx, alpha + " ", 7)
            cs = []
            for api, repl in (("compile", ""), ("is_match", ""), ("replace", "<$0>"), ("tokenize", ""), ("analyze", "")):
                cs.append(Case(pw, f + "x", api, s, repl))
                cs.append(Case(pdel, f, api, s, repl))
            gs.append(Group(cs, {"features": features(ast), "input": s, "pw": pw, "pdel": pdel}))
    # whitespace that splits a multi-character token ("( ?:", "\\ (", "{ 2 , 3 }") in patterns whose group structure
    # (nested groups that can be empty) is observable through analyze-string and replacement
    bases = [("(?:x)(a(b?))", ["xa", "xab", "zxaxab"]), ("\\(x\\)(a(b?))", ["(x)a", "(x)ab", "-(x)a-"]), ("a\\)(b(c?))", ["a)b", "a)bc"]),
             ("(?:x|y)((a)(b?))c", ["xac", "yabc", "xacyac"]), ("(a(b*)){2,3}\\[(c?)\\]", ["aab[]", "abab[c]"]), ("\\\\(a(b?))\\1", ["\\aa", "\\abab"]),
             ("(?:a(?:b(c?)))\\|(d?)x", ["ab|x", "abc|dx"]), ("[(](a(b?))[)]", ["(a)", "(ab)"]), ("(a)(?:(b)|(c?))\\)", ["a)", "ab)", "ac)"])]
    for bp, ins in bases:
        inside = class_depth_positions(bp)
        for _ in range(ctx.scale(6, 40)):
            pw = ""
            for k in range(len(bp) + 1):
                if r.random() < 0.5 and not inside_cls_gap(bp, inside, k):
                    pw += "".join(r.choice(WS) for _ in range(r.randint(1, 2)))
                if k < len(bp):
                    pw += bp[k]
            for s in ins:
                cs = []
                for api, repl in (("compile", ""), ("is_match", ""), ("replace", "<$1|$2|$3>"), ("tokenize", ""), ("analyze", "")):
                    cs.append(Case(pw, "x", api, s, repl))
                    cs.append(Case(bp, "", api, s, repl))
                gs.append(Group(cs, {"features": {"capture_in_rep"} if "{2,3}" in bp else set(), "input": s, "pw": pw, "pdel": bp}))
    # an ESCAPED BACKSLASH directly in front of a bracket: the stripper's "escaped" state must end with the second
    # backslash, otherwise its notion of "inside a class" is off by one from there on
    for pw, pdel, ins in [(r"[\\] a", r"[\\]a", ["\\a", "\\ a"]), (r"\\ [ ] b", r"\\[ ]b", ["\\ b", "\\b"]), (r"\\[a ] b", r"\\[a ]b", ["\\ab", "\\ b", "\\a b"]),
                          (r"[a\\] [ b]", r"[a\\][ b]", ["a ", "\\b", "a b"]), (r"\\\[ a", r"\\\[a", ["\\[a", "\\[ a"]), (r"[\\]\n [ ]", r"[\\]\n[ ]", ["\\\n ", "\\ "]),
                          (r"(\\) [ x] y", r"(\\)[ x]y", ["\\ y", "\\xy", "\\ xy"]), (r"[^\\] a [b ]", r"[^\\]a[b ]", ["xab", "xa ", "x a b"])]:
        for s in ins:
            cs = []
            for api, repl in (("compile", ""), ("is_match", ""), ("replace", "<$0>"), ("tokenize", ""), ("analyze", "")):
                cs.append(Case(pw, "x", api, s, repl))
                cs.append(Case(pdel, "", api, s, repl))
            gs.append(Group(cs, {"features": set(), "input": s, "pw": pw, "pdel": pdel}))
    # other characters are never removed
    for ch in ["\x0c", "\x0b", " ", " ", "　", "\x85"]:
        cs = []
        for api in ("is_match",):
            cs.append(Case("a" + ch + "b", "x", api, "a" + ch + "b"))
            cs.append(Case("a" + ch + "b", "", api, "a" + ch + "b"))
            cs.append(Case("a" + ch + "b", "x", api, "ab"))
            cs.append(Case("a" + ch + "b", "", api, "ab"))
        gs.append(Group(cs, {"features": set(), "input": "ab", "pw": "a" + ch + "b", "pdel": "a" + ch + "b"}))
    return gs


def inside_cls_gap(p, inside, k):
    """is the gap before index k strictly inside a class (after its '[' and before its ']')?"""
    # the gap is inside iff the character before it is inside-or-opening and the character after is inside-or-closing
    depth = 0
    i = 0
    while i < k:
        c = p[i]
        if c == "\\" and i + 1 < len(p):
            i += 2
            continue
        if c == "[":
            depth += 1
        elif c == "]" and depth > 0:
            depth -= 1
        i += 1
    return depth > 0


def c14_oracle(ctx, g):
    out = []
    ctx.hist["groups"] += 1
    for k in range(0, len(g.cases), 2):
        a, b = g.impl[k], g.impl[k + 1]
        if a != b and not out:
            c = g.cases[k]
            out.append(f"{c.api}: pattern {g.meta['pw']!r} with flag x answers {a[:60]!r}; the pattern with the whitespace outside classes deleted, {g.meta['pdel']!r}, answers {b[:60]!r} (input {c.input!r})")
    if g.meta["pw"] != g.meta["pdel"]:
        ctx.distinct.add((g.meta["pw"], g.cases[0].flags))
        sample(ctx, g, {"stripped": g.meta["pdel"]})
    return out


# ------------------------------------------------------------------------------------------------
# C16 — empty-matching regexes rejected, and only those


def c16_streams(ctx):
    r = ctx.rnd
    gs = []
    apis = [("replace", "-"), ("tokenize", ""), ("analyze", ""), ("is_match", "")]
    for i in range(ctx.scale(2500, 30000)):
        ast, p, alpha = gen_pattern(ctx)
        f = r.choice(["", "", "i", "m", "s", "im"])
        fe = features(ast)
        for s in [rand_input(ctx, alpha, 6, "\n" if "m" in f else ""), ""]:
            cs = [Case(p, f, api, s, repl) for api, repl in apis] + [Case(p, f, "is_match", "")]
            gs.append(Group(cs, {"features": fe, "input": s, "ast": ast, "flags": f}))
    for p in ["^", "$", "^$", "a?", "a*", "(a?)", "(?:a|)", "(a)?\\1", "(a)|\\1", "^*", "(?:^)?", "a|$", "\\b" if False else "(?:)", "()", "a{0}", "(?:a|b)*", "(?:$|a)", "(a*)\\1"]:
        for s in ["", "a", "ab"]:
            cs = [Case(p, "", api, s, repl) for api, repl in apis] + [Case(p, "", "is_match", "")]
            gs.append(Group(cs, {"features": {"rep_nullable_body"} if False else set(), "input": s, "flags": ""}))
    # the empty literal pattern under flag q matches the empty string like any other nullable regex
    for f in ["q", "qi", "qx", "qs"]:
        for s in ["", "a", "ab"]:
            cs = [Case("", f, api, s, repl) for api, repl in apis] + [Case("", f, "is_match", "")]
            gs.append(Group(cs, {"features": set(), "input": s, "flags": f}))
    return gs


def c16_oracle(ctx, g):
    rp, tk, an, m, m0 = g.impl
    s = g.meta["input"]
    c = g.cases[0]
    ctx.hist["replace:" + rp[:8]] += 1
    if any(abnormal(x) for x in g.impl) or rp in ("ERR:Syntax", "ERR:InvalidFlags"):
        return []
    out = []
    nul = m0 == "T"
    ast = g.meta.get("ast")
    if ast is not None:
        ref = refmatch.matches_empty(ast, g.meta["flags"])
        if ref is not None and ref != nul:
            out.append(f"{c.pattern!r} (flags {c.flags!r}) " + ("matches" if ref else "does not match") + f" the zero-length string, but is_match(\"\") = {m0}")
    ctx.distinct.add((c.pattern, c.flags, nul))
    exp_err = "ERR:MatchesEmptyString"
    if nul:
        if rp != exp_err or an != exp_err or (s != "" and tk != exp_err):
            out.append(f"{c.pattern!r} matches the empty string but: replace {rp[:30]}, analyze {an[:30]}, tokenize {tk[:30]} on {s!r}")
    else:
        if exp_err in (rp, an, tk):
            out.append(f"{c.pattern!r} does not match the empty string but an API answered MatchesEmptyString on {s!r}")
        ents = parse_analyze(an) if an.startswith("OK") else None
        if ents is not None and any(e[0] == "M" and e[1] == "" for e in ents):
            out.append(f"{c.pattern!r} is accepted as not matching the empty string, yet analyze({s!r}) reports a zero-length match: {an[:80]}")
    if s == "" and not tk.startswith("OK:0:"):
        if not (tk == exp_err and False):
            out.append(f"tokenize of the empty input must yield no tokens for every regex; {c.pattern!r} gives {tk[:40]}")
    sample(ctx, g)
    return out[:1]


# ------------------------------------------------------------------------------------------------
# C17 — the XSD dialect


def c17_scan(p):
    """(XPath-only constructs outside classes, the pattern with bare ^ and $ outside classes escaped)"""
    only, out = [], []
    depth, i, n = 0, 0, len(p)
    after_quant = False
    while i < n:
        c = p[i]
        if c == "\\" and i + 1 < n:
            d = p[i + 1]
            if depth == 0 and d.isdigit():
                only.append("back-reference")
            if depth == 0 and d == "$":
                only.append("escape \\$")
            j = i + 2
            if d in "pP" and p[j:j + 1] == "{" and "}" in p[j:]:
                j = p.index("}", j) + 1            # \p{Name}: the braces are not a quantifier
            out.append(p[i:j])
            i = j
            after_quant = False
            continue
        if depth > 0:
            if c == "[":
                depth += 1
            elif c == "]":
                depth -= 1
            out.append(c)
            i += 1
            after_quant = False
            continue
        if c == "[":
            depth = 1
            out.append(c)
            i += 1
            if i < n and p[i] == "^":
                out.append("^")
                i += 1
            after_quant = False
            continue
        if c == "(" and p[i + 1:i + 3] == "?:":
            only.append("non-capturing group")
            out.append("(?:")
            i += 3
            after_quant = False
            continue
        if c in "?*+":
            if after_quant and c == "?":
                only.append("reluctant quantifier")
                after_quant = False
            else:
                after_quant = True
            out.append(c)
            i += 1
            continue
        if c == "{":
            j = p.find("}", i)
            if j > 0:
                out.append(p[i:j + 1])
                i = j + 1
                after_quant = True
                continue
        after_quant = False
        out.append("\\" + c if c in "^$" else c)
        i += 1
    return only, "".join(out)


C17_NULLABLE_PIECES = ["(a*)", "(a?)", "(|a)", "(a{0,3})", "((a)*)", "(a*|b)", "a", "(a)", "(a+)", "[ab]", ".", "\\d", "(a|b)", "^", "$", "()"]
C17_RELUCTANT = ["??", "*?", "+?", "{2}?", "{1,2}?", "{0,}?", "{0,1}?"]


def c17_streams(ctx):
    r = ctx.rnd
    gs = []
    apis = [("compile", ""), ("is_match", ""), ("replace", "<$0>"), ("tokenize", ""), ("analyze", "")]
    for piece in C17_NULLABLE_PIECES:
        for q in C17_RELUCTANT:
            for pre, post in (("", ""), ("x", "y"), ("", "b")):
                p = pre + piece + q + post
                gs.append(Group([Case(p, "", "compile", dialect="xs"), Case(p, "", "compile", dialect="xp")], {"features": set(), "input": "", "reject": "reluctant quantifier"}))
    # quantified ^ and $ are quantified ordinary characters in XSD
    for a in "^$":
        for q in ["?", "*", "+", "{2}", "{1,2}", "{0,2}", "{0}"]:
            for pre, post in (("a", "b"), ("", ""), ("(", ")=")):
                p = pre + a + q + post
                for s in [pre.strip("(") + a * k + post.strip(")") for k in range(0, 4)] + ["a" + a + a + a + "b", ""]:
                    cs = []
                    for api, repl in apis:
                        cs.append(Case(p, "", api, s, repl, dialect="xs"))
                        cs.append(Case(c17_scan(p)[1], "", api, s, repl, dialect="xp"))
                    gs.append(Group(cs, {"features": set(), "input": s, "xsdish": True, "family": "quantified literal anchor"}))
    for i in range(ctx.scale(1800, 25000)):
        xsdish = r.random() < 0.6
        ast, p, alpha = gen_pattern(ctx, xsd=xsdish, alphabet=r.choice(["abc", "ab$", "a^b", "ab"]))
        f = r.choice(["", "i", "s", "m", "x", "q", "iq"])
        s = rand_input(ctx, alpha + ("\n\r" if "s" in f else ""), 7)
        cs = []
        pesc = c17_scan(p)[1] if "q" not in f else p
        for api, repl in apis:
            cs.append(Case(p, f, api, s, repl, dialect="xs"))
            cs.append(Case(pesc, f, api, s, repl, dialect="xp"))
        cs.append(Case(p, f, "compile", dialect="xp"))
        gs.append(Group(cs, {"features": features(ast), "input": s, "ast": ast, "xsdish": xsdish}))
    # XPath-only constructs must be rejected by Regex::xsd
    for p, why in [("a*?", "reluctant quantifier"), ("a+?b", "reluctant quantifier"), ("a{1,2}?", "reluctant quantifier"), ("(?:a)", "non-capturing group"),
                   ("(a)\\1", "back-reference"), ("\\$", "escape \\$"), ("a??", "reluctant quantifier")]:
        gs.append(Group([Case(p, "", "compile", dialect="xs"), Case(p, "", "compile", dialect="xp")], {"features": set(), "input": "", "reject": why}))
    for fq in ["q", "q;", "q;g", "iq;", "sqx;k", "qi"]:
        gs.append(Group([Case("a", fq, "compile", dialect="xs"), Case("a", fq, "compile", dialect="xp")], {"features": set(), "input": "", "reject": "flag q"}))
    # ^ and $ are ordinary characters in XSD
    for p, s, e in [("^a$", "^a$", "T"), ("^a$", "a", "F"), ("a^", "a^", "T"), ("$", "x$y", "T"), ("^", "", "F"), ("[$^]+", "^$", "T"), ("^*", "^^", "T")]:
        gs.append(Group([Case(p, "", "is_match", s, dialect="xs")], {"features": set(), "input": s, "literal_anchor": e}))
    return gs


def c17_oracle(ctx, g):
    if "reject" in g.meta:
        a, b = g.impl
        ctx.hist["reject"] += 1
        ctx.distinct.add((g.cases[0].pattern, "reject"))
        exp = "ERR:InvalidFlags" if g.meta["reject"] == "flag q" else "ERR:Syntax"
        if a != exp or b != "OK":
            return [f"{g.meta['reject']}: Regex::xsd({g.cases[0].pattern!r}, {g.cases[0].flags!r}) = {a} (expected {exp}), Regex::xpath = {b} (expected OK)"]
        return []
    if "literal_anchor" in g.meta:
        ctx.hist["literal_anchor"] += 1
        ctx.distinct.add((g.cases[0].pattern, g.meta["input"]))
        if g.impl[0] != g.meta["literal_anchor"]:
            return [f"XSD: is_match({g.cases[0].pattern!r}, {g.meta['input']!r}) = {g.impl[0]}, with ^ and $ as ordinary characters it is {g.meta['literal_anchor']}"]
        return []
    cx, cp = g.impl[0], g.impl[1]
    p = g.cases[0].pattern
    pesc = g.cases[1].pattern
    ctx.hist[f"xsd:{cx[:6]} xpath:{cp[:6]}"] += 1
    out = []
    if cx == "OK" and cp != "OK" and "q" not in g.cases[0].flags:
        out.append(f"{p!r} is accepted by Regex::xsd but rejected by Regex::xpath ({cp}; ^ and $ written \\^ and \\$: {pesc!r})")
    only = c17_scan(p)[0] if "q" not in g.cases[0].flags and "x" not in g.cases[0].flags else []
    if only and cx == "OK":
        out.append(f"{p!r} contains an XPath-only construct ({only[0]}) and is accepted by Regex::xsd")
    if cx == "OK" and cp == "OK":
        ctx.distinct.add((p, g.cases[0].flags, g.meta["input"]))
        sample(ctx, g)
        for k in range(2, len(g.cases) - 1, 2):
            if g.impl[k] != g.impl[k + 1] and not out:
                how = "" if p == pesc else f" (the same pattern with ^ and $ escaped: {pesc!r})"
                out.append(f"{g.cases[k].api}({p!r}, flags {g.cases[k].flags!r}, {g.meta['input']!r}): xsd {g.impl[k][:50]!r} vs xpath {g.impl[k + 1][:50]!r}{how}")
    return out[:1]


# ------------------------------------------------------------------------------------------------
# C18 — a compiled Regex is a pure, reusable, thread-safe value


C18_MEMO_POOL = ["a(?:a|bb)*b", "(?:a|bb)*b", "(a|bb)*", "b(?:ab?|b)*a", "(?:a+b?)*b", "(?:b|ab)*?a", "a(?:b|aa)*", "(?:(a)|bb)*b",
                 "(?:a|ba)+b", "(?:a|bb){0,3}b", "a*(?:b|ab)*a", "(?:a|b|ab)*b"]
C18_DIALECT_POOL = ["^ab$", "b$", "^a", "a$|^b", "(?:ab)+b", "a+?b", "(a)\\1", "a\\$", "^(a|b)*$", "\\^a", "(?:a|b)$"]


def c18_streams(ctx):
    """each group = one history request (a script) + the fresh single-call requests it must agree with"""
    r = ctx.rnd
    gs = []
    for i in range(ctx.scale(260, 3000)):
        nobj = r.randint(1, 3)
        objs = []
        inalpha = "ab"
        for k in range(nobj):
            if r.random() < 0.3:        # shapes whose matcher keeps a memo / whose program has several strategies
                p = r.choice(C18_MEMO_POOL)
            else:
                ast, p, alpha = gen_pattern(ctx, alphabet="ab", maxgroups=2)
            objs.append((p, r.choice(["", "i", "m"]), "ab", "xp"))
        x = r.random()
        if x < 0.25 and nobj > 1:
            objs[1] = objs[0]           # the same pattern compiled twice
        elif x < 0.6 and nobj > 2:      # names that exist as a category but not as a block, around a pattern using the category
            cat = r.choice(["Lu", "Ll", "Nd", "L", "Zs"])
            objs[0] = ("\\p{Is%s}a" % cat, "", "ab", "xp")
            objs[1] = ("\\p{%s}a" % cat, "", "ab", "xp")
            objs[2] = ("\\p{Is%s}a" % cat, "", "ab", "xp")
        elif x < 0.5 and nobj > 1:      # the same (pattern, flags) under both dialects, where the dialects differ
            p = r.choice(C18_DIALECT_POOL)
            f = r.choice(["", "", "i", "s"])
            a, b = r.sample(["xp", "xs"], 2)
            objs[0] = (p, f, "ab", a)
            objs[1] = (p, f, "ab", b)
            inalpha = "ab^$"
        interleave = r.random() < 0.35
        nthreads = r.choice([1, 1, 2, 3, 4]) if ctx.quick() else r.choice([1, 2, 4, 8])
        mode = "par" if nthreads > 1 and r.random() < 0.7 else "seq"
        threads, fresh = [], []
        for t in range(nthreads):
            ops, its = [], {}
            nextid = 0
            pool_in = ["".join(r.choice(inalpha) for _ in range(r.randint(0, 6))) for _ in range(2)]
            if interleave:
                # several iterators over the same object and the same input, opened up front and advanced in a random interleaving
                k = r.randrange(nobj)
                for _ in range(r.randint(2, 3)):
                    j = nextid
                    nextid += 1
                    kind = r.choice("ta")
                    s = pool_in[0]
                    p, f, alpha, dia = objs[k]
                    ops.append(f"{kind}{k}:{j}:{rxlib.cps(s)}")
                    its[j] = [kind, k, s, 0]
                    fresh.append(("open", t, len(ops) - 1, Case(p, f, "tokenize" if kind == "t" else "analyze", s, limit=0, dialect=dia)))
            for _ in range(r.randint(3, 10) if not interleave else r.randint(6, 16)):
                k = r.randrange(nobj)
                p, f, alpha, dia = objs[k]
                s = r.choice(pool_in) if r.random() < 0.6 else "".join(r.choice(inalpha) for _ in range(r.randint(0, 5)))
                x = r.random()
                if interleave and x < 0.5:
                    x = 0.6
                if x < 0.2:
                    ops.append(f"m{k}:{rxlib.cps(s)}")
                    fresh.append(("call", t, len(ops) - 1, Case(p, f, "is_match", s, dialect=dia)))
                elif x < 0.35:
                    R = r.choice(["-", "$0", "[$1]"]) if dia == "xp" else "-"
                    ops.append(f"r{k}:{rxlib.cps(s)}:{rxlib.cps(R)}")
                    fresh.append(("call", t, len(ops) - 1, Case(p, f, "replace", s, R, dialect=dia)))
                elif x < 0.5:
                    j = nextid          # iterator ids are never reused within a thread
                    nextid += 1
                    kind = r.choice("ta")
                    ops.append(f"{kind}{k}:{j}:{rxlib.cps(s)}")
                    its[j] = [kind, k, s, 0]
                    fresh.append(("open", t, len(ops) - 1, Case(p, f, "tokenize" if kind == "t" else "analyze", s, limit=0, dialect=dia)))
                elif its and x < 0.93:
                    j = r.choice(list(its))
                    ops.append(f"n{j}")
                    kind, k2, s2, cnt = its[j]
                    its[j][3] += 1
                    p2, f2, _, dia2 = objs[k2]
                    fresh.append(("next", t, len(ops) - 1, Case(p2, f2, "tokenize" if kind == "t" else "analyze", s2, limit=60, dialect=dia2), cnt, kind))
                elif its:
                    j = r.choice(list(its))
                    ops.append(f"d{j}")
                    del its[j]
                    fresh.append(("drop", t, len(ops) - 1, None))
            threads.append(";".join(ops))
        prelude = ";".join(f"c{k}:{dia}:{rxlib.cps(p)}:{rxlib.cps(f)}" for k, (p, f, _, dia) in enumerate(objs))
        script = prelude + "#" + "#".join(threads)
        hist = Case("", "", "history", script, mode)
        hist_case = HistCase(script, mode)
        cs = [hist_case] + [x[3] for x in fresh if x[3] is not None]
        gs.append(Group(cs, {"features": set(), "fresh": fresh, "script": script, "mode": mode, "nthreads": nthreads}))
    # soak: thousands of successful calls on ONE thread (anything that accumulates per thread or per object — counters,
    # pools, caches with a capacity — shows only after many calls); every call must still answer like a fresh one
    for (p, f, s, kinds, n) in [("(a|b)(c)", "", "ac bc ac bc", "mr", ctx.scale(2600, 9000)), ("a[bc]x?", "i", "xAbab", "m", ctx.scale(2300, 5000)),
                                ("(?:ab|c)*c", "", "abcc-cc", "rm", ctx.scale(1500, 5000))]:
        ops, fresh = [], []
        for i in range(n):
            kind = kinds[i % len(kinds)]
            if kind == "m":
                ops.append(f"m0:{rxlib.cps(s)}")
                fresh.append(("call", 0, len(ops) - 1, Case(p, f, "is_match", s)))
            else:
                ops.append(f"r0:{rxlib.cps(s)}:{rxlib.cps('<$0>')}")
                fresh.append(("call", 0, len(ops) - 1, Case(p, f, "replace", s, "<$0>")))
        script = f"c0:xp:{rxlib.cps(p)}:{rxlib.cps(f)}" + "#" + ";".join(ops)
        cs = [HistCase(script, "seq")] + [x[3] for x in fresh]
        gs.append(Group(cs, {"features": set(), "fresh": fresh, "script": script, "mode": "seq", "nthreads": 1}))
    return gs


class HistCase(Case):
    """a history request: the script travels in the input field, the mode in the repl field (both raw)"""

    def __init__(self, script, mode):
        Case.__init__(self, "", "", "history", script, mode)

    def hline(self, id_):
        return "\t".join([str(id_), "xp", "opt", "", "", "history", self.input, self.repl, "0"])

    def dline(self, id_, prog, mode="full"):
        # the model has no shared state at all: its answer for a history is by construction the
        # fresh answers; the comparison with the fresh single calls below is what decides
        return "\t".join([str(id_), "skip", "-", "xp", "", "", "history", "", "", "0"])


def c18_oracle(ctx, g):
    h = g.impl[0]
    ctx.hist["mode:" + g.meta["mode"]] += 1
    ctx.hist["threads:%d" % g.meta["nthreads"]] += 1
    if h in ("HANG", "ABORT", "PANIC", "MISSING"):
        return [f"history run ended with {h}: {g.meta['script'][:200]}"]
    per_thread = [t.split(";") if t else [] for t in h.split("#")]
    fresh = g.meta["fresh"]
    answers = g.impl[1:]
    out = []
    ai = 0
    for rec in fresh:
        kind, t, idx = rec[0], rec[1], rec[2]
        got = per_thread[t][idx] if t < len(per_thread) and idx < len(per_thread[t]) else "MISSING"
        if kind == "drop":
            continue
        fa = answers[ai]
        fm = g.model[1 + ai] if 1 + ai < len(g.model) else fa
        ai += 1
        if fm != fa and fm.split(":")[0] != fa.split(":")[0] and not out:
            # the fresh single call itself depends on what the process did before (the model is a pure function of the request)
            out.append(f"history ({g.meta['mode']}): the single call {g.cases[ai].pattern!r} ({g.cases[ai].dialect}) answers {fa[:40]!r} in this process, the pure-function model {fm[:40]!r}: the result depends on earlier compilations")
        cerr = fa in ("ERR:Syntax", "ERR:InvalidFlags")      # the object itself did not compile
        if kind == "call":
            want = "CERR" if cerr else fa if fa in ("T", "F") else ("ERR" if fa.startswith("ERR") else fa)
        elif kind == "open":
            want = "CERR" if cerr else "ERR" if fa.startswith("ERR") else "OPEN"
        else:
            cnt, k = rec[4], rec[5]
            if fa.startswith("ERR"):
                want = "NOITER"
            elif not fa.startswith("OK:"):
                continue                       # the fresh enumeration did not finish (HANG / PANIC): nothing to compare with
            elif k == "t":
                _, n, body = fa.split(":", 2)
                more = body.endswith("+MORE")
                toks = (body[:-5] if more else body).split("|") if int(n) else []
                if cnt >= len(toks) and more:
                    continue                   # beyond the enumerated prefix of an endless token stream (K1)
                want = ("tok=" + toks[cnt]) if cnt < len(toks) else "NONE"
            else:
                body = fa.split(":", 2)[2]
                more = body.endswith("+MORE")
                ents = (body[:-5] if more else body).split(";") if body and body != "+MORE" else []
                if cnt >= len(ents) and more:
                    continue
                want = ents[cnt].replace(";", "/") if cnt < len(ents) else "NONE"
        if got != want and not out:
            out.append(f"history ({g.meta['mode']}, {g.meta['nthreads']} thread(s)): operation {idx} of thread {t} answered {got[:60]!r}, the same call on a freshly compiled Regex gives {want[:60]!r}")
    ctx.distinct.add(g.meta["script"])
    if len(ctx.samples) < 6:
        ctx.samples.append({"script": g.meta["script"][:300], "mode": g.meta["mode"], "answers": h[:200]})
    return out


# ------------------------------------------------------------------------------------------------
# C19 — back-references


def c19_patterns(ctx):
    r = ctx.rnd
    a = lambda: r.choice("ab")
    shapes = [
        lambda: "(%s+)x\\1" % a(), lambda: "(a|b)\\1", lambda: "(?:(a)|b)\\1", lambda: "(a)?b\\1", lambda: "(a*)b\\1", lambda: "((a)b)\\2\\1",
        lambda: "(a)(b)\\2\\1", lambda: "(?:(a)b)+\\1", lambda: "(a|ab)(c|bcd)\\2\\1", lambda: "^(a+)\\1$", lambda: "(.)\\1", lambda: "(.)(.)\\2\\1",
        lambda: "(a)(b)(c)(d)(e)(f)(g)(h)(i)(j)\\10", lambda: "(a)(b)(c)(d)(e)(f)(g)(h)(i)(j)\\1" + "0", lambda: "(a)\\11", lambda: "(a)(b)\\12",
        lambda: "(b)?a\\1", lambda: "(?:b|(a))\\1c", lambda: "(a?)\\1b", lambda: "([ab])\\1", lambda: "([ab]+)-\\1",
        lambda: "^(x)(y)(?:(a)b|a)\\3$", lambda: "(x)(y)(?:(a)b|a)\\3", lambda: "(a)(b)(?:(a)(b)c|ab)\\4\\3", lambda: "(x)?(y)?(?:(a)b|(a))\\3\\4",
        lambda: "(a)(b)(c)(?:(d)e|d)\\4", lambda: "(x)(?:(y)(z)w|yz)\\3\\2", lambda: "(?:(a)(b)(c)x|abc)+\\3", lambda: "(a)(b)(?:(c)|d)+\\3",
    ]
    return r.choice(shapes)()


def parse_simple(p):
    """parse the restricted pattern language of c19_patterns into the generator's AST (for the reference)"""
    pos = 0
    ng = [0]

    def atom():
        nonlocal pos
        c = p[pos]
        if c == "(":
            cap = not p.startswith("(?:", pos)
            pos += 1 if cap else 3
            if cap:
                ng[0] += 1
                me = ng[0]
            body = alt()
            assert p[pos] == ")"
            pos += 1
            return ("grp", cap, body, me if cap else 0)
        if c == "[":
            j = p.index("]", pos)
            items = [("c", x) for x in p[pos + 1:j]]
            pos = j + 1
            return ("cls", False, items, None)
        if c == "\\":
            j = pos + 1
            # longest number not exceeding the groups opened so far
            n = int(p[j])
            j += 1
            while j < len(p) and p[j].isdigit() and int(str(n) + p[j]) <= ng[0]:
                n = int(str(n) + p[j])
                j += 1
            pos = j
            return ("backref", n)
        pos += 1
        if c == ".":
            return ("dot",)
        if c == "^":
            return ("bol",)
        if c == "$":
            return ("eol",)
        return ("lit", c)

    def piece():
        nonlocal pos
        a = atom()
        if pos < len(p) and p[pos] in "*+?":
            q = p[pos]
            pos += 1
            mn, mx = {"*": (0, None), "+": (1, None), "?": (0, 1)}[q]
            return ("rep", a, mn, mx, True, q)
        return a

    def seq():
        items = []
        while pos < len(p) and p[pos] not in "|)":
            items.append(piece())
        return ("seq", items)

    def alt():
        nonlocal pos
        bs = [seq()]
        while pos < len(p) and p[pos] == "|":
            pos += 1
            bs.append(seq())
        return bs[0] if len(bs) == 1 else ("alt", bs)
    return alt()


def parse_full(p):
    """parse the pattern families used by the targeted streams into the generator's AST: literals, '.', ^, $,
    [..] with single characters, (..), (?:..), |, back-references, and the quantifiers * + ? {n} {n,} {n,m} with
    an optional reluctant marker"""
    pos = 0
    ng = [0]

    def atom():
        nonlocal pos
        c = p[pos]
        if c == "(":
            cap = not p.startswith("(?:", pos)
            pos += 1 if cap else 3
            me = 0
            if cap:
                ng[0] += 1
                me = ng[0]
            body = alt()
            if pos >= len(p) or p[pos] != ")":
                raise ValueError("unbalanced")
            pos += 1
            return ("grp", cap, body, me)
        if c == "[":
            j = p.index("]", pos)
            neg = p[pos + 1:pos + 2] == "^"
            items = [("c", x) for x in p[pos + (2 if neg else 1):j]]
            pos = j + 1
            return ("cls", neg, items, None)
        if c == "\\":
            j = pos + 1
            if p[j] in "SsdDwW":
                pos = j + 1
                return ("esc", p[j])
            n = int(p[j])
            j += 1
            while j < len(p) and p[j].isdigit() and int(str(n) + p[j]) <= ng[0]:
                n = int(str(n) + p[j])
                j += 1
            pos = j
            return ("backref", n)
        pos += 1
        if c == ".":
            return ("dot",)
        if c == "^":
            return ("bol",)
        if c == "$":
            return ("eol",)
        return ("lit", c)

    def piece():
        nonlocal pos
        a = atom()
        if pos < len(p) and p[pos] in "*+?{":
            if p[pos] == "{":
                j = p.index("}", pos)
                body = p[pos + 1:j]
                sp = p[pos:j + 1]
                if "," in body:
                    lo, hi = body.split(",")
                    mn, mx = int(lo), (int(hi) if hi else None)
                else:
                    mn = mx = int(body)
                pos = j + 1
            else:
                sp = p[pos]
                mn, mx = {"*": (0, None), "+": (1, None), "?": (0, 1)}[sp]
                pos += 1
            greedy = True
            if pos < len(p) and p[pos] == "?":
                greedy = False
                pos += 1
            return ("rep", a, mn, mx, greedy, sp)
        return a

    def seq():
        items = []
        while pos < len(p) and p[pos] not in "|)":
            items.append(piece())
        return ("seq", items)

    def alt():
        nonlocal pos
        bs = [seq()]
        while pos < len(p) and p[pos] == "|":
            pos += 1
            bs.append(seq())
        return bs[0] if len(bs) == 1 else ("alt", bs)
    r = alt()
    if pos != len(p):
        raise ValueError("trailing input")
    return r


def c19_streams(ctx):
    r = ctx.rnd
    gs = []
    for i in range(ctx.scale(1500, 20000)):
        p = c19_patterns(ctx)
        ast = parse_simple(p)
        f = r.choice(["", "", "i"])
        alpha = "abABx-" if f == "i" else "abx-cd"
        if "(c)" in p and "(j)" in p:
            alpha = "abcdefghij01"
        elif "(y)" in p or "(c)" in p:
            alpha = "xyzabcdew"
        for _ in range(2):
            s = rand_input(ctx, alpha, 8)
            if r.random() < 0.3 and "(c)" in p:
                s = "abcdefghij" + r.choice(["j", "a0", "a", "1"])
            gs.append(Group([Case(p, f, "is_match", s), Case(p, f, "analyze", s)], {"features": features(ast), "input": s, "ast": ast, "flags": f}))
    # flag i with cased letters outside ASCII: the copy in the other case
    for letters in ["éÉ", "дД", "σΣ", "üÜ", "aA"]:
        lo, up = letters
        for p in ["(%s)\\1" % lo, "^(%s+)-\\1$" % lo, "(%s|x)\\1\\1" % lo, "(?:(%s)|y)+\\1" % lo]:
            ast = parse_simple(p)
            if ast is None:
                continue
            for s in [lo + up, up + lo, lo + lo, lo + "-" + up, lo + lo + "-" + up + lo, lo + up + lo, "x" + lo + up]:
                for f in ("i", ""):
                    gs.append(Group([Case(p, f, "is_match", s), Case(p, f, "analyze", s)], {"features": features(ast), "input": s, "ast": ast, "flags": f}))
    # a group with alternatives of different lengths inside a bounded loop, next to a group-free branch, then the
    # reference: an earlier iteration backtracks to its next alternative after a later iteration entered the group
    # and failed (what the reference sees must be the span the group finally recorded)
    loop_pats = []
    for body in ["c|(a|ab)", "(a|ab)|c", "c|(ab|a)", "(a|ab)c?", "b|(a+)", "(a|ab)", "c|(a|ab)(b?)"]:
        for q in ["{1,2}", "{2}", "{1,3}", "+", "*", "{2,3}"]:
            for tail in ["\\1", "-\\1", "\\1$", "\\1c"]:
                for pre in ["^", ""]:
                    loop_pats.append(pre + "(?:" + body + ")" + q + tail)
    for p in (r.sample(loop_pats, 70) if ctx.quick() else loop_pats):
        try:
            ast = parse_full(p)
        except Exception:
            continue
        f = r.choice(["", "", "i"])
        seen_in = set()
        for _ in range(ctx.scale(24, 80)):
            s = "".join(r.choice(["a", "ab", "c", "b", "abc"]) for _ in range(r.randint(1, 3))) + r.choice(["", "", "-"]) + r.choice(["a", "ab", "b", "", "c"]) + r.choice(["", "", "c"])
            if f == "i" and r.random() < 0.5:
                s = "".join(swapc(c) if r.random() < 0.4 else c for c in s)
            if s in seen_in:
                continue
            seen_in.add(s)
            gs.append(Group([Case(p, f, "is_match", s), Case(p, f, "analyze", s)], {"features": features(ast), "input": s, "ast": ast, "flags": f}))
    # generated patterns with back-references
    for i in range(ctx.scale(1200, 15000)):
        ast, p, alpha = gen_pattern(ctx, allow_backref=True, maxgroups=3)
        if "backref" not in features(ast):
            continue
        f = r.choice(["", "i"])
        for _ in range(2):
            s = rand_input(ctx, alpha, 7)
            gs.append(Group([Case(p, f, "is_match", s), Case(p, f, "analyze", s)], {"features": features(ast), "input": s, "ast": ast, "flags": f}))
    return gs


def c19_oracle(ctx, g):
    a, an = g.impl
    ast, s, f = g.meta["ast"], g.meta["input"], g.meta["flags"]
    ctx.hist["is_match:" + a[:3]] += 1
    if a not in ("T", "F"):
        return []
    ref = refmatch.is_match(ast, s, f)
    if ref is None:
        return []
    ctx.distinct.add((g.cases[0].pattern, f, s))
    if ref:
        sample(ctx, g)
    if (a == "T") != ref:
        return [f"is_match({g.cases[0].pattern!r}, flags {f!r}, {s!r}) = {a}; exploring all match paths with back-references as copies of the captured text " + ("finds a" if ref else "finds no") + " match"]
    if an.startswith("OK:") and not an.endswith("+MORE") and not (g.meta["features"] & {"rep_nullable_body"}):
        sp = spans_only(an)
        rs = refmatch.spans(ast, s, f)
        if rs is not None and [(x, y) for x, y, _ in rs] != sp:
            return [f"spans of {g.cases[0].pattern!r} (flags {f!r}) on {s!r}: {sp}; the ordered-choice reference gives {[(x, y) for x, y, _ in rs]}"]
    return []


# ------------------------------------------------------------------------------------------------
# C20 — equivalent spellings


def apply_law(r, ast, every=False):
    """rewrite one node by a law of regular-expression algebra; returns (new ast, law name, preserves ordered choice) or None;
    with every=True the list of all single-node rewrites"""
    nodes = []

    def collect(n, path):
        nodes.append((n, path))
        t = n[0]
        if t == "grp":
            collect(n[2], path + [2])
        elif t in ("alt", "seq"):
            for k, b in enumerate(n[1]):
                collect(b, path + [1, k])
        elif t == "rep":
            collect(n[1], path + [1])
    collect(ast, [])
    r.shuffle(nodes)
    allr = []

    def has_cap(n):
        return any(x[0] == "grp" and x[1] for x in rxlib.walk(n))

    def replace_at(n, path, new):
        if not path:
            return new
        if path[0] == 2:
            return ("grp", n[1], replace_at(n[2], path[1:], new), n[3])
        if path[0] == 1 and n[0] == "rep":
            return ("rep", replace_at(n[1], path[1:], new)) + n[2:]
        if path[0] == 1:
            k = path[1]
            l = list(n[1])
            l[k] = replace_at(l[k], path[2:], new)
            return (n[0], l)
        raise ValueError(path)

    for n, path in nodes:
        t = n[0]
        cands = []
        if not has_cap(n):
            cands.append((("grp", False, n, 0), "r = (?:r)", True))
            cands.append((("rep", n, 1, 1, True, "{1}"), "r = r{1}", True))
            cands.append((("alt", [n, n]), "r = r|r", True))
        if t == "rep" and not has_cap(n) and n[3] is not None and n[3] <= 3 and n[4]:
            body, mn, mx = n[1], n[2], n[3]
            exp = [body] * mn + [("rep", body, 0, 1, True, "?")] * (mx - mn)
            cands.append((("seq", exp) if exp else ("seq", []), "r{n,m} = n copies of r, then m-n copies of (?:r)?", True))
        if t == "rep" and not has_cap(n) and n[3] is None and n[2] <= 3 and n[4]:
            body, mn = n[1], n[2]
            cands.append((("seq", [body] * mn + [("rep", body, 0, None, True, "*")]), "r{n,} = n copies of r, then r*", True))
        if t == "rep" and n[2] == 0 and n[3] == 0:
            cands.append((("seq", []), "r{0} = empty", True))
        if t == "lit":
            cands.append((("cls", False, [("c", n[1])], None), "x = [x]", True))
        if t == "cls" and not n[1] and n[3] is None and all(it[0] == "c" for it in n[2]) and len(n[2]) >= 2:
            cands.append((("grp", False, ("alt", [("lit", it[1]) for it in n[2]]), 0), "[xy] = (?:x|y)", True))
        if t == "seq" and len(n[1]) >= 2 and n[1][0][0] == "grp" and not n[1][0][1] and n[1][0][2][0] == "alt" and not has_cap(n):
            alts = n[1][0][2][1]
            rest = n[1][1:]
            cands.append((("grp", False, ("alt", [("seq", [b] + rest) for b in alts]), 0), "(?:r|s)t = rt|st", True))
        if t == "alt" and len(n[1]) >= 2 and all(b == n[1][0] for b in n[1]) and not has_cap(n):
            cands.append((n[1][0], "r|r = r (collapsed)", True))
        if t == "grp" and not n[1] and n[2][0] not in ("alt",) and not has_cap(n):
            cands.append((n[2] if n[2] != ("seq", []) else ("seq", []), "(?:r) = r (unwrapped)", True))
        if t == "seq" and not has_cap(n):
            for k in range(1, len(n[1])):
                e = n[1][k]
                if e[0] == "grp" and not e[1] and e[2][0] == "alt":
                    rest = n[1][k + 1:]
                    if rest:
                        dist = ("grp", False, ("alt", [("seq", ([b] if b != ("seq", []) else []) + rest) for b in e[2][1]]), 0)
                        cands.append((("seq", n[1][:k] + [dist]), "(?:r|s)t = rt|st (inside a sequence)", True))
        if t == "grp" and n[1]:
            # capturing → non-capturing when no back-reference exists at all and it is the last group (numbers stay)
            cands.append(None)
        cands = [c for c in cands if c]
        if every:
            allr.extend((replace_at(ast, path, new), law, ordered) for new, law, ordered in cands)
        elif cands:
            new, law, ordered = r.choice(cands)
            return replace_at(ast, path, new), law, ordered
    return allr if every else None


def qspell(mn, mx):
    return {(0, None): "*", (1, None): "+", (0, 1): "?"}.get((mn, mx)) or ("{%d}" % mn if mn == mx else "{%d,%s}" % (mn, "" if mx is None else mx))


def derive(r, n):
    """a random string of the language of a (back-reference-free) AST"""
    t = n[0]
    if t == "lit":
        return n[1]
    if t in ("bol", "eol"):
        return ""
    if t == "dot":
        return r.choice("ab")
    if t == "cls":
        its = [it for it in n[2] if it[0] in "cr"]
        if n[1] or not its:
            return "a"
        it = r.choice(its)
        return it[1] if it[0] == "c" else chr(r.randint(ord(it[1]), ord(it[2])))
    if t == "grp":
        return derive(r, n[2])
    if t == "alt":
        return derive(r, r.choice(n[1]))
    if t == "seq":
        return "".join(derive(r, b) for b in n[1])
    if t == "rep":
        mx = n[3] if n[3] is not None else n[2] + 2
        return "".join(derive(r, n[1]) for _ in range(r.randint(n[2], min(mx, n[2] + 2))))
    return ""


def c20_stress(ctx):
    """quantified groups whose body can match in several ways or is itself a counted repeat, with a continuation that forces
    the matcher back into the body — every law applied at every node"""
    r = ctx.rnd
    A, B = ("lit", "a"), ("lit", "b")
    rep = lambda b, mn, mx: ("rep", b, mn, mx, True, qspell(mn, mx))
    cls = ("cls", False, [("c", "a"), ("c", "b")], None)
    bodies = [("alt", [A, ("seq", [A, B])]), ("seq", [rep(A, 1, None), rep(B, 0, 1)]), rep(A, 2, 2), rep(cls, 2, 2), ("seq", [A, A]),
              ("alt", [rep(A, 2, 2), rep(A, 2, 2)]), ("alt", [("seq", [A, B]), A]), rep(A, 1, 2), ("seq", [rep(A, 0, 1), B]), rep(("seq", [A, B]), 2, 2),
              rep(A, 3, 3), ("alt", [B, ("seq", [B, A]), A]), ("alt", [A, ("seq", [A, A])]), ("alt", [("seq", [A, A]), A])]
    quants = [(2, 2), (1, 3), (2, 3), (0, None), (1, None), (0, 1), (0, 2), (3, 3), (1, 2)]
    tails = [[("lit", "c")], [], [A], [B, ("lit", "c")]]
    # what stands in front of the quantified group: nothing, or something that reaches it twice at one position
    # (equal-length alternatives, a give-back prefix, an optional prefix)
    pres = [[], [], [("grp", False, ("alt", [B, B]), 0)], [B], [("grp", False, ("alt", [B, ("seq", [B, B])]), 0), rep(B, 0, None)],
            [("grp", False, ("alt", [rep(B, 1, None), ("seq", [])]), 0)]]
    pats = [(pre, b, q, t, anch) for pre in pres for b in bodies for q in quants for t in tails for anch in (False, True)]
    gs = []
    # a repeat of a single character followed by a piece that matches only the empty string, then the same character
    X = [A, cls]
    noops = [rep(B, 0, 0), ("grp", False, ("seq", []), 0), rep(("bol",), 0, 1), ("grp", False, ("alt", [("seq", []), B]), 0), ("grp", False, ("alt", [B, ("seq", [])]), 0)]
    extra = []
    for x in X:
        for (mn, mx) in [(0, None), (0, 1), (1, None), (1, 2)]:
            for nz in noops:
                for anch in (False, True):
                    extra.append(("seq", ([("bol",)] if anch else []) + [rep(x, mn, mx), nz, A] + ([("eol",)] if anch else [])))
    chosen = [("seq", ([("bol",)] if anch else []) + pre + [rep(("grp", False, b, 0), mn, mx)] + tail + ([("eol",)] if anch else []))
              for pre, b, (mn, mx), tail, anch in r.sample(pats, ctx.scale(200, 1500))]
    # always included: a min-0, finite-max group over an ambiguous body behind a prefix that reaches it twice at one position
    amb = [("alt", [A, ("seq", [A, B])]), ("alt", [("seq", [A, B]), A]), ("alt", [A, ("seq", [A, A])]), ("alt", [("seq", [A, A]), A]), ("alt", [B, ("seq", [B, A]), A])]
    twice = [("seq", [("bol",)] + pre + [rep(("grp", False, b, 0), 0, mx)] + tail + [("eol",)])
             for pre in pres[2:] for b in amb for mx in (1, 2) for tail in ([], [("lit", "c")])]
    # an alternation of three or more one-character branches, one of which also holds a zero-width term (`a$`, `^a`,
    # `b{0}a`, `(?:)a`): it is not a character class, whatever its fixed length says
    C, D = ("lit", "c"), ("lit", "d")
    zws = [("eol",), ("bol",), rep(B, 0, 0), ("grp", False, ("seq", []), 0)]
    onechar = []
    for zw in zws:
        for br in (("seq", [A, zw]), ("seq", [zw, A])):
            for others in ([B, C], [B, C, cls], [C, B]):
                for k in range(len(others) + 1):
                    bs = others[:k] + [br] + others[k:]
                    for tl in ([D], [], [A], [("eol",)]):
                        for pre in ([], [B], [("bol",)]):
                            onechar.append(("seq", pre + [("grp", False, ("alt", bs), 0)] + tl))
    onechar = r.sample(onechar, ctx.scale(40, 600))
    for ast in chosen + (r.sample(extra, 40) if ctx.quick() else extra) + twice + onechar:
        tail = [x for x in ast[1] if x == ("lit", "c")]
        p = render(ast)
        rw = apply_law(r, ast, every=True)
        if ast in twice:
            rw = [x for x in rw if "collapsed" in x[1] or "rt|st" in x[1] or "unwrapped" in x[1]] or rw
        alpha = "abc" if any(x == ("lit", "c") for x in tail) else "ab"
        pool = [s for s in rxlib.strings_upto(alpha, 6) if len(s) >= 2]
        if ast in onechar:
            pool = [s for s in rxlib.strings_upto("abd", 3) if s] + ["bad", "cd", "ad", "aad", "a\nd"]
        for ast2, law, ordered in (rw if ast in twice else r.sample(rw, min(ctx.scale(4, 8), len(rw)))):
            p2 = render(ast2)
            fe = features(ast) | features(ast2)
            members = {derive(r, ast)[:9] for _ in range(ctx.scale(8, 20))}
            members |= {"b" + m for m in list(members)[:2]} | {m + "a" for m in list(members)} | {m[:-1] + "aa" + m[-1:] for m in list(members)[:3]}
            for s in r.sample(pool, ctx.scale(5, 20)) + sorted(members):
                cs = [Case(p, "", "is_match", s), Case(p2, "", "is_match", s), Case(p, "", "analyze", s), Case(p2, "", "analyze", s)]
                gs.append(Group(cs, {"features": fe, "input": s, "law": law, "ordered": ordered, "p2": p2}))
    return gs


def c20_streams(ctx):
    r = ctx.rnd
    gs = []
    for i in range(ctx.scale(2500, 30000)):
        ast, p, alpha = gen_pattern(ctx, allow_backref=False)
        res = apply_law(r, ast)
        if not res:
            continue
        ast2, law, ordered = res
        p2 = render(ast2)
        f = r.choice(["", "", "i", "m", "s"])
        fe = features(ast) | features(ast2)
        for _ in range(2):
            s = rand_input(ctx, alpha, 7, "\n" if "m" in f else "")
            cs = [Case(p, f, "is_match", s), Case(p2, f, "is_match", s), Case(p, f, "analyze", s), Case(p2, f, "analyze", s)]
            gs.append(Group(cs, {"features": fe, "input": s, "law": law, "ordered": ordered, "p2": p2}))
    return gs + c20_stress(ctx)


def c20_oracle(ctx, g):
    m1, m2, a1, a2 = g.impl
    p, p2, s, law = g.cases[0].pattern, g.meta["p2"], g.meta["input"], g.meta["law"]
    ctx.hist["law:" + law] += 1
    if any(abnormal(x) for x in g.impl) or m1.startswith("ERR") or m2.startswith("ERR"):
        if m1[:3] != m2[:3] and not any(abnormal(x) for x in g.impl):
            return [f"law {law}: {p!r} gives {m1}, {p2!r} gives {m2}"]
        return []
    ctx.distinct.add((p, p2, s))
    sample(ctx, g, {"law": law, "rewritten": p2})
    if m1 != m2:
        return [f"law {law}: is_match({p!r}, {s!r}) = {m1} but is_match({p2!r}, {s!r}) = {m2}"]
    if g.meta["ordered"] and a1.startswith("OK:") and a2.startswith("OK:"):
        s1, s2 = spans_only(a1), spans_only(a2)
        if s1 != s2:
            return [f"law {law}: spans of {p!r} on {s!r} are {s1}, spans of {p2!r} are {s2}"]
    elif a1[:3] != a2[:3] and (a1.startswith("ERR") or a2.startswith("ERR")):
        return [f"law {law}: analyze({p!r}) {a1[:30]} vs analyze({p2!r}) {a2[:30]} on {s!r}"]
    return []


PLUGINS2 = {
    "C07": {"streams": c07_streams, "oracle": c07_oracle},
    "C10": {"streams": c10_streams, "oracle": c10_oracle},
    "C11": {"streams": c11_streams, "oracle": c11_oracle},
    "C12": {"streams": c12_streams, "oracle": c12_oracle, "regroup": regroup_same_apis},
    "C13": {"streams": c13_streams, "oracle": c13_oracle},
    "C14": {"streams": c14_streams, "oracle": c14_oracle},
    "C16": {"streams": c16_streams, "oracle": c16_oracle, "regroup": regroup_same_apis},
    "C17": {"streams": c17_streams, "oracle": c17_oracle},
    "C18": {"streams": c18_streams, "oracle": c18_oracle},
    "C19": {"streams": c19_streams, "oracle": c19_oracle, "regroup": regroup_same_apis},
    "C20": {"streams": c20_streams, "oracle": c20_oracle},
}
