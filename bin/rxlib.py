"""rxlib — shared machinery of the checks: process drivers, pattern generator, comparison."""
import os, random, subprocess, sys, json, time, re, collections, concurrent.futures

VERIF = os.path.dirname(os.path.dirname(os.path.abspath(__file__)))
REPO = os.environ.get("VERIF_REPO", "/repo")
RXH = os.path.join(VERIF, "harness", "target", "debug", "rxh")
RXDRV = os.path.join(VERIF, "lean", ".lake", "build", "bin", "rxdrv")
NPROC = int(os.environ.get("VERIF_JOBS", "14"))
USIZE_MAX = 18446744073709551615


def cps(s):
    return ",".join(str(ord(c)) for c in s)


def uncps(s):
    return "".join(chr(int(x)) for x in s.split(",") if x)


# ------------------------------------------------------------------------------------------------
# processes


def _run_lines(cmd, lines):
    if not lines:
        return {}
    p = subprocess.run(cmd, input="\n".join(lines) + "\n", capture_output=True, text=True)
    out = {}
    for l in p.stdout.splitlines():
        k, _, rest = l.partition("\t")
        out[k] = rest
    if p.returncode != 0 and len(out) < len(lines):
        sys.stderr.write(f"[rxlib] {cmd[0]} exited {p.returncode}: {p.stderr[:2000]}\n")
    return out


def run_parallel(cmd, lines, jobs=None):
    """run request lines through `cmd` in `jobs` processes; returns id -> answer"""
    jobs = jobs or NPROC
    if len(lines) < 200 or jobs <= 1:
        return _run_lines(cmd, lines)
    n = min(jobs, max(1, len(lines) // 100))
    chunks = [lines[i::n] for i in range(n)]
    out = {}
    with concurrent.futures.ThreadPoolExecutor(max_workers=n) as ex:
        for r in ex.map(lambda c: _run_lines(cmd, c), chunks):
            out.update(r)
    return out


def harness(lines, timeout_ms=3000, jobs=None):
    return run_parallel([RXH, "serve", str(timeout_ms)], lines, jobs)


def driver(lines, jobs=None):
    return run_parallel([RXDRV], lines, jobs)


def harness_each(lines, timeout_ms, jobs=8):
    """one harness process per request, `jobs` at a time (for the long-deadline retries: a request that really hangs
    costs its whole deadline, so they must not queue behind one another)"""
    out = {}
    with concurrent.futures.ThreadPoolExecutor(max_workers=max(1, jobs)) as ex:
        for r in ex.map(lambda l: _run_lines([RXH, "serve", str(timeout_ms)], [l]), lines):
            out.update(r)
    return out


class Case:
    """one request: (dialect, mode, pattern, flags, api, input, repl, limit)"""
    __slots__ = ("dialect", "mode", "pattern", "flags", "api", "input", "repl", "limit", "tag")

    def __init__(self, pattern, flags, api, input="", repl="", dialect="xp", mode="opt", limit=60, tag=None):
        self.dialect, self.mode, self.pattern, self.flags = dialect, mode, pattern, flags
        self.api, self.input, self.repl, self.limit, self.tag = api, input, repl, limit, tag

    def key(self):
        return (self.dialect, self.mode, self.pattern, self.flags)

    def hline(self, id_):
        return "\t".join([str(id_), self.dialect, self.mode, cps(self.pattern), cps(self.flags), self.api,
                          cps(self.input), cps(self.repl), str(self.limit)])

    def dline(self, id_, prog, mode="eng"):
        return "\t".join([str(id_), mode, prog, self.dialect, cps(self.pattern), cps(self.flags), self.api,
                          cps(self.input), cps(self.repl), str(self.limit)])

    def as_dict(self):
        return {"dialect": self.dialect, "mode": self.mode, "pattern": self.pattern, "flags": self.flags,
                "api": self.api, "input": self.input, "repl": self.repl, "limit": self.limit}

    def __repr__(self):
        return f"Case({self.pattern!r},{self.flags!r},{self.api},{self.input!r},{self.repl!r},{self.dialect},{self.mode})"


def norm(ans):
    """canonical answer: panic sites are not compared"""
    if ans is None:
        return "MISSING"
    if ans.startswith("PANIC"):
        return "PANIC"
    return ans


def dump_programs(keys, timeout_ms=3000):
    """compile every distinct (dialect, mode, pattern, flags) on the implementation; returns key -> dump | ERR:..."""
    keys = list(keys)
    lines = [Case(k[2], k[3], "dump", dialect=k[0], mode=k[1]).hline(i) for i, k in enumerate(keys)]
    ans = harness(lines, timeout_ms)
    return {k: ans.get(str(i), "MISSING") for i, k in enumerate(keys)}


def run_both(cases, timeout_ms=3000, model_mode="eng"):
    """run the cases on the implementation and on the model (engine-only: on the implementation's
    own compiled program). returns (impl answers, model answers, programs)"""
    progs = dump_programs({c.key() for c in cases}, timeout_ms)
    hl = [c.hline(i) for i, c in enumerate(cases)]
    impl = harness(hl, timeout_ms)
    dl = []
    model = {}
    for i, c in enumerate(cases):
        p = progs[c.key()]
        if p.startswith("(prog"):
            dl.append(c.dline(i, p, model_mode))
        else:
            model[str(i)] = p if not p.startswith("PANIC") else "PANIC"   # compile error / panic: nothing for the engine model to do
    model.update(driver(dl))
    retry_hangs(cases, impl)
    return ([norm(impl.get(str(i))) for i in range(len(cases))],
            [norm(model.get(str(i))) for i in range(len(cases))], progs)


def run_full(cases, timeout_ms=3000):
    """implementation vs the model compiling the pattern itself (whole pipeline of E)"""
    hl = [c.hline(i) for i, c in enumerate(cases)]
    impl = harness(hl, timeout_ms)
    dl = [c.dline(i, "-", "fullnoopt" if c.mode == "noopt" else "full") for i, c in enumerate(cases)]
    model = driver(dl)
    retry_hangs(cases, impl)
    return ([norm(impl.get(str(i))) for i in range(len(cases))],
            [norm(model.get(str(i))) for i in range(len(cases))])


def retry_hangs(cases, impl):
    """a HANG is believed only after a retry with a long deadline — for the first few; when very many requests
    hang, the rest is believed as it is (the run must stay bounded)"""
    hangs = [i for i in range(len(cases)) if impl.get(str(i)) == "HANG"]
    if hangs:
        some = hangs[:16]
        again = harness_each([cases[i].hline(i) for i in some], 12000, jobs=8)
        for i in some:
            impl[str(i)] = again.get(str(i), "HANG")
        # exponential backtracking is slow, not non-terminating: a last, long deadline for the first few survivors
        still = [i for i in some if impl[str(i)] == "HANG"][:4]
        if still:
            last = harness_each([cases[i].hline(i) for i in still], 90000, jobs=4)
            for i in still:
                impl[str(i)] = last.get(str(i), "HANG")


# ------------------------------------------------------------------------------------------------
# pattern ASTs, rendering, generation

META = set("\\|.-^?*+{}()[]$")


def esc_lit(c, in_class=False):
    if in_class:
        return "\\" + c if c in "\\[]-^" else c
    return "\\" + c if c in META else c


class Gen:
    """grammar-directed generator over the constructs the compiler knows"""

    def __init__(self, rnd, alphabet="abc", maxgroups=4, allow_backref=True, allow_anchor=True, allow_class=True,
                 allow_reluctant=True, allow_noncap=True, xsd=False, escapes=True, nullable_rep=True, big_bounds=False,
                 allow_nested_rep=True):
        self.r = rnd
        self.alpha = alphabet
        self.maxgroups = maxgroups
        self.allow_backref = allow_backref and not xsd
        self.allow_anchor = allow_anchor and not xsd
        self.allow_class = allow_class
        self.allow_reluctant = allow_reluctant and not xsd
        self.allow_noncap = allow_noncap and not xsd
        self.escapes = escapes
        self.nullable_rep = nullable_rep
        self.big_bounds = big_bounds
        self.allow_nested_rep = allow_nested_rep

    # --- AST: tuples
    #  ('lit', c) ('dot',) ('bol',) ('eol',) ('cls', text, cls_ast) ('esc', text)
    #  ('grp', capturing, node, nr) ('alt', [nodes]) ('seq', [nodes]) ('rep', node, min, max|None, greedy, spelling) ('backref', n)
    def gen(self, depth=3):
        self.ngroups = 0
        self.closed = []
        return self._expr(depth, False)

    CLASS_ESCAPES = ["d", "s", "w", "n", "D", "S", "W", "p{Lu}", "p{Ll}", "P{L}", "p{L}", "i", "c", "p{Nd}", "P{Lu}"]

    def _cls(self, depth=0):
        """('cls', negated, items, sub): items are ('c', ch) | ('r', a, b) | ('e', escape name)"""
        r = self.r
        items = []
        for _ in range(r.randint(1, 3)):
            k = r.random()
            if k < 0.5:
                items.append(("c", r.choice(self.alpha)))
            elif k < 0.8:
                a, b = sorted([r.choice(self.alpha), r.choice(self.alpha)])
                if r.random() < 0.15:
                    a, b = r.choice([("0", "_"), ("!", "Z"), (":", "z"), ("^", "~"), ("×", "÷"), (" ", "@"), ("[", "`"), ("0", "z")])
                items.append(("r", a, b))
            elif self.escapes:
                items.append(("e", r.choice(self.CLASS_ESCAPES)))
            else:
                items.append(("c", r.choice(self.alpha)))
        neg = r.random() < 0.25
        sub = None
        if r.random() < 0.15 and depth < 2:
            sub = self._cls(depth + 1) if r.random() < 0.5 else ("cls", False, [("c", r.choice(self.alpha))], None)
        return ("cls", neg, items, sub)

    def _atom(self):
        r = self.r
        k = r.random()
        if k < 0.55:
            return ("lit", r.choice(self.alpha))
        if k < 0.62:
            return ("dot",)
        if k < 0.80 and self.allow_class:
            return self._cls()
        if k < 0.86 and self.escapes:
            if r.random() < 0.3:
                return ("lit", r.choice(".\\(*+?[]{}|^$-"))     # escaped metacharacter as a literal
            return ("esc", r.choice(["d", "s", "w", "n", "S", "W", "p{Ll}", "p{Lu}", "D", "i", "c"]))
        if k < 0.93 and self.allow_backref and self.closed:
            return ("backref", r.choice(self.closed))
        if self.allow_anchor:
            return r.choice([("bol",), ("eol",)])
        return ("lit", r.choice(self.alpha))

    QUANTS = [(0, None, "*"), (1, None, "+"), (0, 1, "?"), (2, 2, "{2}"), (1, 2, "{1,2}"), (0, 2, "{0,2}"),
              (2, None, "{2,}"), (0, 3, "{0,3}"), (1, 1, "{1}"), (0, 0, "{0}"), (3, 3, "{3}"), (1, 3, "{1,3}")]

    def _expr(self, d, in_rep):
        r = self.r
        x = r.random()
        if d <= 0 or x < 0.26:
            return self._atom()
        if x < 0.50:
            return ("seq", [self._expr(d - 1, in_rep) for _ in range(r.randint(2, 3))])
        if x < 0.63:
            n = r.randint(2, 3)
            bs = [self._expr(d - 1, in_rep) for _ in range(n)]
            if r.random() < 0.08:
                k = r.randrange(n)
                # (never drop a branch that defines a group: numbering and back-references depend on it)
                if not any(x[0] == "grp" and x[1] for x in walk(bs[k])):
                    bs[k] = ("seq", [])
            return ("grp", False, ("alt", bs), 0) if self.allow_noncap else self._cap(("alt", bs), None)
        if x < 0.76 and self.ngroups < self.maxgroups:
            self.ngroups += 1
            me = self.ngroups
            body = self._expr(d - 1, in_rep)
            self.closed.append(me)
            return ("grp", True, body, me)
        if in_rep and not self.allow_nested_rep:
            return self._atom()
        body = self._expr(d - 1, True)
        mn, mx, sp = r.choice(self.QUANTS)
        if self.big_bounds and r.random() < 0.1:
            mn, mx, sp = r.choice([(0, 2 ** 63, "{0,9223372036854775808}"), (2 ** 63, 2 ** 63, "{9223372036854775808}"),
                                   (1, USIZE_MAX, "{1,18446744073709551615}"), (USIZE_MAX, USIZE_MAX, "{18446744073709551615}")])
        greedy = True
        if self.allow_reluctant and r.random() < 0.3:
            greedy = False
        return ("rep", body, mn, mx, greedy, sp)

    def _cap(self, body, _):
        self.ngroups += 1
        me = self.ngroups
        self.closed.append(me)
        return ("grp", True, body, me)


def needs_group(node):
    """can a quantifier be attached directly?"""
    t = node[0]
    return t in ("seq", "alt", "rep") or (t == "lit" and False)


def render(node, noncap=True):
    t = node[0]
    if t == "lit":
        return esc_lit(node[1])
    if t == "dot":
        return "."
    if t == "bol":
        return "^"
    if t == "eol":
        return "$"
    if t == "cls":
        return render_cls(node)
    if t == "esc":
        return "\\" + node[1]
    if t == "backref":
        return "\\" + str(node[1])
    if t == "grp":
        return ("(" if node[1] else "(?:") + render(node[2]) + ")"
    if t == "alt":
        return "|".join(render(b) for b in node[1])
    if t == "seq":
        out = []
        for i, b in enumerate(node[1]):
            s = render(b)
            if b[0] == "alt":
                s = "(?:" + s + ")"
            # a back-reference followed by a literal digit would be read as a longer number
            if out and re.search(r"\\\d+$", out[-1]) and s[:1].isdigit():
                s = "(?:" + s + ")"
            out.append(s)
        return "".join(out)
    if t == "rep":
        b = node[1]
        s = render(b)
        if b[0] in ("seq", "alt", "rep", "bol", "eol") or (b[0] == "backref"):
            s = "(?:" + s + ")"
        return s + node[5] + ("" if node[4] else "?")
    raise ValueError(t)


def render_cls(node):
    _, neg, items, sub = node
    out = "[" + ("^" if neg else "")
    for k, it in enumerate(items):
        if it[0] == "c":
            c = it[1]
            # a hyphen is written escaped; '^' first would negate, so escape it too
            out += esc_lit(c, True)
        elif it[0] == "r":
            out += esc_lit(it[1], True) + "-" + esc_lit(it[2], True)
        else:
            out += "\\" + it[1]
    if sub is not None:
        out += "-" + render_cls(sub)
    return out + "]"


def walk(node):
    yield node
    t = node[0]
    if t == "grp":
        yield from walk(node[2])
    elif t in ("alt", "seq"):
        for b in node[1]:
            yield from walk(b)
    elif t == "rep":
        yield from walk(node[1])


def nullable(node):
    """can the node match the empty string (syntactically; back-references count as nullable)"""
    t = node[0]
    if t in ("bol", "eol", "backref"):
        return True
    if t in ("lit", "dot", "cls", "esc"):
        return False
    if t == "grp":
        return nullable(node[2])
    if t == "alt":
        return any(nullable(b) for b in node[1])
    if t == "seq":
        return all(nullable(b) for b in node[1])
    if t == "rep":
        return node[2] == 0 or nullable(node[1])
    raise ValueError(t)


def fixed_len(node):
    """length if all matches have the same length, else None (mirrors get_match_length loosely)"""
    t = node[0]
    if t in ("bol", "eol"):
        return 0
    if t in ("lit", "dot", "cls", "esc"):
        return 1
    if t == "backref":
        return None
    if t == "grp":
        return fixed_len(node[2])
    if t == "alt":
        ls = [fixed_len(b) for b in node[1]]
        return ls[0] if all(l is not None and l == ls[0] for l in ls) else None
    if t == "seq":
        tot = 0
        for b in node[1]:
            l = fixed_len(b)
            if l is None:
                return None
            tot += l
        return tot
    if t == "rep":
        l = fixed_len(node[1])
        if l is None or node[2] != node[3]:
            return None
        return l * node[2]
    raise ValueError(t)


def features(node):
    """syntactic features used to attribute deviations to known findings (scopes)"""
    f = set()

    def go(n, in_rep, in_alt):
        t = n[0]
        if t == "backref":
            f.add("backref")
        if t == "lit" and n[1] == "\u0130":
            f.add("dotted_I")
        if t == "cls":
            c = n
            while c is not None:
                if c[1]:
                    f.add("negated_class")
                if c[3] is not None:
                    f.add("class_subtraction")
                c = c[3]
        if t == "grp":
            if n[1]:
                f.add("capture")
                if in_rep:
                    f.add("capture_in_rep")
                if in_alt:
                    f.add("capture_in_alt")
            go(n[2], in_rep, in_alt)
        elif t == "alt":
            for b in n[1]:
                go(b, in_rep, True)
        elif t == "seq":
            for b in n[1]:
                go(b, in_rep, in_alt)
        elif t == "rep":
            body = n[1]
            if nullable(body):
                f.add("rep_nullable_body")
            fl = fixed_len(body)
            if not n[4]:
                f.add("reluctant")
                if fl is None:
                    f.add("reluctant_var")
            if fl is None:
                f.add("rep_var")
                if n[4] and n[2] == 0 and n[3] is not None:
                    f.add("rep_var_min0_bounded")
                if n[4] and n[3] is not None and n[3] > 1:
                    f.add("rep_var_bounded")
                if any(x[0] in ("alt", "rep") for x in walk(body)):
                    f.add("rep_var_multi")
                if in_rep:
                    f.add("rep_var_nested")
                    if n[2] == 0:
                        f.add("rep_min0_nested")
            if in_rep:
                f.add("rep_nested")
            go(body, True, in_alt)
        elif t in ("bol", "eol"):
            f.add("anchor")
            if in_rep:
                f.add("anchor_in_rep")

    go(node, False, False)
    return f


def enum_asts(size, atoms, quants, groups=True):
    """all ASTs with exactly `size` nodes (atoms, unary quantifiers / groups, binary seq / alt)"""
    memo = {}

    def go(n):
        if n in memo:
            return memo[n]
        out = []
        if n == 1:
            out = list(atoms)
        else:
            for b in go(n - 1):
                if b[0] != "rep":
                    for (mn, mx, sp, greedy) in quants:
                        out.append(("rep", b, mn, mx, greedy, sp))
                if groups and b[0] != "grp":
                    out.append(("grp", False, b, 0))
            for k in range(1, n - 1):
                for x in go(k):
                    for y in go(n - 1 - k):
                        out.append(("seq", [x, y]))
                        out.append(("alt", [x, y]))
        memo[n] = out
        return out
    return go(size)


def strings_upto(alphabet, n):
    out = [""]
    import itertools
    for k in range(1, n + 1):
        out += ["".join(t) for t in itertools.product(alphabet, repeat=k)]
    return out


def inputs_for(rnd, alphabet, extra="", n=3, maxlen=6):
    out = []
    for _ in range(n):
        out.append("".join(rnd.choice(alphabet + extra) for _ in range(rnd.randint(0, maxlen))))
    return out


# ------------------------------------------------------------------------------------------------
# evidence / replay


def write_json(path, obj):
    os.makedirs(os.path.dirname(path), exist_ok=True)
    tmp = path + ".tmp"
    with open(tmp, "w") as f:
        json.dump(obj, f, indent=1, ensure_ascii=True)
    os.replace(tmp, path)
