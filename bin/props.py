"""props — per-property registry, streams, oracles and the decision procedure of bin/check."""
import os, sys, json, random, time, re, collections, itertools
import rxlib
from rxlib import Case, Gen, render, features, nullable, cps, uncps, VERIF

REGISTRY = json.load(open(os.path.join(VERIF, "registry.json")))
KNOWN = json.load(open(os.path.join(VERIF, "KNOWN_FINDINGS.json")))

TRUSTED_BASE = [
    "Lean 4.33.0 kernel (theorems re-checked by `lake build`; axioms limited to propext, Classical.choice, Quot.sound — audited with #print axioms on every run)",
    "the hand-written model E is tied to /repo only by the correspondence check (differential execution of rxdrv vs the real crate through the harness rxh, debug build)",
    "bin/translate.py and `rxh dump-icu` extract the tables (block.rs, Blocks.txt, category.rs arms, XML name ranges, ICU data) that the table theorems are about",
    "ICU data and CodePointInversionListBuilder are modelled (tables / re-implementation), not verified; 64-bit usize; Rust std Vec/char/String",
]

# which components of E a property's theorems depend on (DESIGN.md §4.2)
CONES = {
    "C01": {"compiler", "engine"}, "C02": {"engine", "scan"}, "C03": {"compiler", "engine", "scan"},
    "C04": {"scan"}, "C05": {"compiler", "engine", "scan"}, "C06": {"engine", "scan"},
    "C07": {"compiler"}, "C08": {"compiler", "engine"}, "C09": {"compiler", "engine"}, "C10": {"compiler"},
    "C11": {"compiler", "engine"}, "C12": {"compiler", "engine"}, "C13": {"compiler", "engine", "scan"},
    "C14": {"compiler"}, "C15": {"scan"}, "C16": {"engine", "scan"}, "C17": {"compiler"},
    "C18": {"scan"}, "C19": {"compiler", "engine"}, "C20": {"compiler", "engine"},
}


class Group:
    """cases that belong together (same pattern/flags/input), with what the oracle needs"""

    def __init__(self, cases, meta=None):
        self.cases = cases
        self.meta = meta or {}
        self.impl = []
        self.model = []


class Ctx:
    def __init__(self, prop, tier, seed, build):
        self.prop, self.tier, self.seed, self.build = prop, tier, seed, build
        self.rnd = random.Random(seed * 1000003 + int(prop[1:]))
        self.obligations = 0
        self.discharged = 0
        self.ob_problems = []
        self.axioms = {}
        self.evaluations = 0
        self.distinct = set()
        self.samples = []
        self.hist = collections.Counter()
        self.violations = 0
        self.known_hits = collections.Counter()
        self.mismatches = 0
        self.drift = []
        self.notes = []
        self.exhaustive = False

    def quick(self):
        return self.tier != "thorough"

    def scale(self, q, t):
        return q if self.quick() else t

    # --- output
    def replay_path(self, tag):
        d = os.path.join(VERIF, "replays")
        os.makedirs(d, exist_ok=True)
        return os.path.join(d, f"{self.prop}_{tag}_{self.seed}.json")

    def violation(self, tag, payload, nofail=False):
        path = self.replay_path(tag)
        payload = dict(payload)
        payload.update({"property": self.prop, "seed": self.seed, "tier": self.tier})
        rxlib.write_json(path, payload)
        self.violations += 1
        print(f"VIOLATION property={self.prop} replay={path}" + (" no-failing-input-found" if nofail else ""))
        return 1

    def write_evidence(self, wall):
        reg = REGISTRY[self.prop]
        cov = {
            "obligations": self.obligations,
            "discharged": self.discharged,
            "checker_cmd": f"cd /verif/lean && lake build {reg['module']} && lake env lean ../work/Audit_{self.prop}.lean   (# print axioms on {len(reg['theorems'])} theorems)",
            "trusted_base": TRUSTED_BASE,
            "theorems": reg["theorems"],
            "axioms_used": self.axioms,
            "evaluations": self.evaluations,
            "distinct_nontrivial": len(self.distinct),
            "rule": reg.get("rule", ""),
            "samples": self.samples[:8],
            "histogram": dict(self.hist),
            "model_vs_impl_disagreements": self.mismatches,
            "known_finding_hits": dict(self.known_hits),
            "drift_outside_cone": self.drift[:5],
            "exhaustive": self.exhaustive,
            "obligation_problems": self.ob_problems[:5],
            "translate": self.build.get("translate_out", ""),
        }
        ev = {
            "property_id": self.prop, "tier": "thorough" if self.tier == "thorough" else "quick", "seed": self.seed,
            "level": "proof", "coverage": cov,
            "assumptions": reg.get("assumptions", []) + self.notes,
            "wall_s": round(wall, 2), "violations": self.violations,
        }
        rxlib.write_json(os.path.join(VERIF, "evidence", f"{self.prop}.json"), ev)


# ------------------------------------------------------------------------------------------------
# attribution of a model/implementation disagreement to a component of E


def attribute(case):
    """which component stopped corresponding on this case: compiler | engine | scan"""
    c = case
    d = Case(c.pattern, c.flags, "dump", dialect=c.dialect, mode=c.mode)
    hi = rxlib.norm(rxlib.harness([d.hline(0)]).get("0"))
    mo = rxlib.norm(rxlib.driver([d.dline(0, "-", "fullnoopt" if c.mode == "noopt" else "full")]).get("0"))
    if hi != mo:
        return "compiler"
    if not hi.startswith("(prog"):
        return "compiler"
    im = Case(c.pattern, c.flags, "is_match", c.input, dialect=c.dialect, mode=c.mode)
    a = rxlib.norm(rxlib.harness([im.hline(0)]).get("0"))
    b = rxlib.norm(rxlib.driver([im.dline(0, hi, "eng")]).get("0"))
    if a != b:
        return "engine"
    if c.api == "is_match":
        return "engine"
    # engine-only model on the implementation's program, same API
    a = rxlib.norm(rxlib.harness([c.hline(0)]).get("0"))
    b = rxlib.norm(rxlib.driver([c.dline(0, hi, "eng")]).get("0"))
    if a == b:
        return "compiler"
    # spans differ?  (replace with a marker replacement shows the spans and group texts)
    sp = Case(c.pattern, c.flags, "replace", c.input, "\u0001$0\u0002", dialect=c.dialect, mode=c.mode)
    a2 = rxlib.norm(rxlib.harness([sp.hline(0)]).get("0"))
    b2 = rxlib.norm(rxlib.driver([sp.dline(0, hi, "eng")]).get("0"))
    if a2 != b2 and c.api != "replace":
        return "engine"
    return "scan"


# ------------------------------------------------------------------------------------------------
# known findings


def known_for(prop):
    return [k for k in KNOWN.get("findings", []) if prop in k["properties"]]


def attributable(prop, feats):
    """ids of the listed findings of this property whose scope covers a pattern with these features"""
    out = []
    for k in known_for(prop):
        sc = set(k.get("scope", []))
        if sc & feats:
            out.append(k["id"])
    return out


def replay_known(ctx):
    """re-execute the witness of every listed finding of this property; print KNOWN-FINDING lines"""
    for k in known_for(ctx.prop):
        w = k["witness"]
        cs = [Case(w["pattern"], w.get("flags", ""), w["api"], w.get("input", ""), w.get("repl", ""),
                   dialect=w.get("dialect", "xp"))]
        impl, model = rxlib.run_full(cs)
        still = impl[0] == w["observed"]
        if still:
            print(f"KNOWN-FINDING: property={ctx.prop} {k['id']}: {k['what']}")
            ctx.known_hits["witness:" + k["id"]] += 1
        else:
            ctx.notes.append(f"listed finding {k['id']} no longer reproduces (implementation answers {impl[0]!r}, listed {w['observed']!r})")
        if impl[0] != model[0]:
            ctx.notes.append(f"model disagrees with implementation on the witness of {k['id']}")


# ------------------------------------------------------------------------------------------------
# generic decision procedure


def run(ctx):
    plug = PLUGINS[ctx.prop]
    replay_known(ctx)
    groups = plug["streams"](ctx)
    allcases = [c for g in groups for c in g.cases]
    t = time.time()
    impl, model = rxlib.run_full(allcases, timeout_ms=ctx.scale(3000, 5000))
    i = 0
    for g in groups:
        n = len(g.cases)
        g.impl, g.model = impl[i:i + n], model[i:i + n]
        i += n
    ctx.evaluations += len(allcases)
    fails = []      # (group, description)
    mism = []       # (group, case index)
    for g in groups:
        for j, (a, b) in enumerate(zip(g.impl, g.model)):
            if a != b:
                mism.append((g, j))
        res = plug["oracle"](ctx, g)
        for desc in res:
            fails.append((g, desc))
    ctx.mismatches = len(mism)
    rc = 0
    # 1. oracle failures on the implementation
    reported = 0
    for g, desc in fails:
        gm = any(a != b for a, b in zip(g.impl, g.model))
        feats = g.meta.get("features", set())
        ids = attributable(ctx.prop, feats) if not gm else []
        if ids:
            for k in ids:
                ctx.known_hits[k] += 1
            continue
        if reported < 3:
            rc = ctx.violation(f"fail{reported}", {
                "what": desc, "requests": [c.as_dict() for c in g.cases], "implementation": g.impl, "model_E": g.model,
                "pattern_features": sorted(feats), "model_agrees_with_implementation": not gm,
                "replay": f"bin/check {ctx.prop} --replay <this file>"})
        reported += 1
    if reported:
        return 1
    # 2. correspondence broken inside the property's cone, nothing fails
    if mism:
        seen = {}
        for g, j in mism[:6]:
            comp = attribute(g.cases[j])
            seen.setdefault(comp, (g, j))
        in_cone = [c for c in seen if c in CONES[ctx.prop]]
        for comp, (g, j) in seen.items():
            rec = {"component": comp, "request": g.cases[j].as_dict(), "implementation": g.impl[j], "model_E": g.model[j]}
            if comp in CONES[ctx.prop]:
                # search the neighbourhood for a failing input
                found = plug.get("search", default_search)(ctx, g, j)
                if found:
                    return ctx.violation("search", found)
                return ctx.violation("corr", {
                    "what": f"correspondence with the model broke in component '{comp}', on which the theorems of {ctx.prop} depend; no input was found on which the implementation violates the property",
                    "no_longer_checks": f"correspondence stream of {ctx.prop} ({comp})", **rec}, nofail=True)
            else:
                ctx.drift.append(rec)
    # 3. proof obligations
    if ctx.ob_problems:
        found = plug.get("search_ob", lambda c: None)(ctx)
        if found:
            return ctx.violation("table", found)
        return ctx.violation("obligation", {
            "what": "a proof obligation of this property no longer checks; no failing input was found",
            "no_longer_checks": ctx.ob_problems}, nofail=True)
    return rc


def default_search(ctx, g, j):
    """re-run the oracle on variants of the disagreeing case: other inputs over the same alphabet"""
    plug = PLUGINS[ctx.prop]
    if "regroup" not in plug:
        return None
    c = g.cases[j]
    alpha = sorted(set(c.input) | set(ch for ch in c.pattern if ch.isalnum()) | {"a"})[:4]
    inputs = [""]
    for n in range(1, 6 if ctx.quick() else 8):
        inputs += ["".join(t) for t in itertools.product(alpha, repeat=n)]
        if len(inputs) > 3000:
            break
    groups = [plug["regroup"](ctx, g, s) for s in inputs[:3000]]
    groups = [x for x in groups if x]
    allc = [c2 for gg in groups for c2 in gg.cases]
    impl, model = rxlib.run_full(allc)
    i = 0
    for gg in groups:
        n = len(gg.cases)
        gg.impl, gg.model = impl[i:i + n], model[i:i + n]
        i += n
        res = plug["oracle"](ctx, gg)
        if res:
            return {"what": res[0], "requests": [x.as_dict() for x in gg.cases], "implementation": gg.impl, "model_E": gg.model,
                    "found_by": "neighbourhood search after a model/implementation disagreement"}
    return None


def replay(ctx, path):
    r = json.load(open(path))
    reqs = r.get("requests") or ([r["request"]] if "request" in r else [])
    cases = [Case(q["pattern"], q["flags"], q["api"], q["input"], q["repl"], q["dialect"], q["mode"], q["limit"]) for q in reqs]
    impl, model = rxlib.run_full(cases)
    for c, a, b in zip(cases, impl, model):
        print(c)
        print("   implementation:", a)
        print("   model E       :", b)
    g = Group(cases, {"features": set(r.get("pattern_features", []))})
    g.impl, g.model = impl, model
    try:
        res = PLUGINS[ctx.prop]["oracle"](ctx, g)
    except Exception as e:
        res = []
    for d in res:
        print("   oracle:", d)
    return 1 if res or impl != model else 0


# ------------------------------------------------------------------------------------------------
# helpers shared by the plugins

ASTRAL = ["\U0001F600", "\U00010400", "é", "é", "́"]


def parse_analyze(ans):
    """OK:n:entries → list of ('N', text) | ('M', text, tree) ; None if not OK"""
    if not ans.startswith("OK:"):
        return None
    _, n, body = ans.split(":", 2)
    more = body.endswith("+MORE")
    if more:
        body = body[:-5]
    out = []
    if body == "":
        return out
    for e in body.split(";"):
        if e.startswith("N:"):
            out.append(("N", uncps(e[2:])))
        else:
            tree = parse_mtree(e)
            out.append(("M", mtext(tree), tree))
    return out


def parse_mtree(s):
    """M(...) → nested list: ('S', text) | ('G', nr, [children])"""
    pos = 2
    stack = [[]]
    nrs = []
    tok = ""
    i = 2
    body = s[2:-1]
    items = []
    # tokens separated by spaces at depth 0; groups G<n>( ... )
    def parse_items(t, i):
        out = []
        while i < len(t):
            if t[i] == " ":
                i += 1
                continue
            if t[i] == ")":
                return out, i + 1
            if t[i] == "S":
                j = i + 2
                while j < len(t) and t[j] not in " )":
                    j += 1
                out.append(("S", uncps(t[i + 2:j])))
                i = j
            elif t[i] == "G":
                j = t.index("(", i)
                nr = int(t[i + 1:j])
                kids, i = parse_items(t, j + 1)
                out.append(("G", nr, kids))
            else:
                raise ValueError("bad analyze tree: " + t)
        return out, i
    out, _ = parse_items(body, 0)
    return out


def mtext(tree):
    s = ""
    for e in tree:
        s += e[1] if e[0] == "S" else mtext(e[2])
    return s


def parse_tokens(ans):
    if not ans.startswith("OK:"):
        return None
    _, n, body = ans.split(":", 2)
    if body.endswith("+MORE"):
        return None
    n = int(n)
    if n == 0:
        return []
    return [uncps(t) for t in body.split("|")]


def parse_replace(ans):
    return uncps(ans[3:]) if ans.startswith("OK:") else None


def gen_pattern(ctx, **kw):
    r = ctx.rnd
    alpha = kw.pop("alphabet", None) or r.choice(["abc", "ab", "abAB", "ab\n"])
    g = Gen(r, alphabet=alpha, **kw)
    ast = g.gen(r.choice([1, 2, 2, 3, 3, 4]))
    return ast, render(ast), alpha


def rand_input(ctx, alpha, maxlen=7, extra=()):
    r = ctx.rnd
    pool = list(alpha) + list(extra)
    return "".join(r.choice(pool) for _ in range(r.randint(0, maxlen)))


# ------------------------------------------------------------------------------------------------
# C04


def c04_streams(ctx):
    r = ctx.rnd
    groups = []
    n = ctx.scale(2500, 40000)
    for i in range(n):
        xsd = r.random() < 0.2
        ast, p, alpha = gen_pattern(ctx, xsd=xsd)
        f = r.choice(["", "", "i", "m", "s", "im"])
        extra = ASTRAL if r.random() < 0.3 else ()
        for _ in range(2):
            s = rand_input(ctx, alpha, 8, extra)
            R = r.choice(["-", "", "xy", "é"])
            d = "xs" if xsd else "xp"
            cs = [Case(p, f, "analyze", s, dialect=d), Case(p, f, "tokenize", s, dialect=d),
                  Case(p, f, "replace", s, "$0", dialect=d), Case(p, f, "replace", s, R, dialect=d)]
            groups.append(Group(cs, {"features": features(ast), "input": s, "R": R, "ast": ast}))
    # layouts: no match / match at 0 / at the end / adjacent matches, literal patterns
    for p, s in [("a", ""), ("a", "bbb"), ("a", "abb"), ("a", "bba"), ("a", "aaa"), ("ab", "abab"), ("a+", "aabaa"),
                 ("\U0001F600", "x\U0001F600y\U0001F600"), ("é", "ééx")]:
        cs = [Case(p, "", "analyze", s), Case(p, "", "tokenize", s), Case(p, "", "replace", s, "$0"), Case(p, "", "replace", s, "-")]
        groups.append(Group(cs, {"features": set(), "input": s, "R": "-"}))
    return groups


def c04_regroup(ctx, g, s):
    c = g.cases[0]
    R = g.meta.get("R", "-")
    cs = [Case(c.pattern, c.flags, "analyze", s, dialect=c.dialect), Case(c.pattern, c.flags, "tokenize", s, dialect=c.dialect),
          Case(c.pattern, c.flags, "replace", s, "$0", dialect=c.dialect), Case(c.pattern, c.flags, "replace", s, R, dialect=c.dialect)]
    return Group(cs, {"features": g.meta.get("features", set()), "input": s, "R": R})


def c04_oracle(ctx, g):
    a, t, r0, rR = g.impl
    s, R = g.meta["input"], g.meta["R"]
    ctx.hist["groups"] += 1
    if a.startswith("ERR:") and a in ("ERR:Syntax", "ERR:InvalidFlags"):
        ctx.hist["rejected"] += 1
        return []
    if a == "ERR:MatchesEmptyString":
        ctx.hist["nullable"] += 1
        return []
    out = []
    if any(x in ("PANIC", "HANG", "ABORT", "MISSING") for x in g.impl):
        ctx.hist["abnormal"] += 1
        return []       # C05 / C06 decide these
    ents = parse_analyze(a)
    toks = parse_tokens(t)
    if ents is None or toks is None or parse_replace(r0) is None or parse_replace(rR) is None:
        return [f"the three APIs do not agree on Ok/Err: analyze={a[:40]} tokenize={t[:40]} replace={r0[:40]}"]
    text = "".join(e[1] for e in ents)
    if text != s:
        out.append(f"analyze entries concatenate to {text!r}, input is {s!r}")
    # pieces between the matches reported by analyze
    pieces, cur = [], ""
    nm = 0
    for e in ents:
        if e[0] == "N":
            cur += e[1]
        else:
            pieces.append(cur)
            cur = ""
            nm += 1
    pieces.append(cur)
    if s == "":
        if toks != []:
            out.append(f"tokenize of the empty input yields {toks!r}")
    elif toks != pieces:
        out.append(f"tokens {toks!r} are not the pieces between the analyze matches {pieces!r}")
    if parse_replace(r0) != s:
        out.append(f"replace_all with $0 gives {parse_replace(r0)!r}, input is {s!r}")
    if s != "" and parse_replace(rR) != R.join(pieces):
        out.append(f"replace_all with {R!r} gives {parse_replace(rR)!r}, tokens joined are {R.join(pieces)!r}")
    if nm > 0:
        ctx.distinct.add((g.cases[0].pattern, g.cases[0].flags, s))
        ctx.hist["with_match"] += 1
        if len(ctx.samples) < 8:
            ctx.samples.append({"pattern": g.cases[0].pattern, "flags": g.cases[0].flags, "input": s, "analyze": a, "tokenize": t})
    return out


# ------------------------------------------------------------------------------------------------
# C15


def py_expand(repl, groups, ngroups):
    """the replacement rules as the property states them; groups: nr -> text (absent = did not participate).
    returns None for a malformed replacement string"""
    out = ""
    i = 0
    maxcap = ngroups
    while i < len(repl):
        c = repl[i]
        if c == "\\":
            if i + 1 >= len(repl) or repl[i + 1] not in "\\$":
                return None
            out += repl[i + 1]
            i += 2
        elif c == "$":
            if i + 1 >= len(repl) or not ("0" <= repl[i + 1] <= "9"):
                return None
            j = i + 1
            if maxcap <= 9:
                n = int(repl[j])
                j += 1
            else:
                k = j + 1
                while k < len(repl) and "0" <= repl[k] <= "9":
                    k += 1
                # longest prefix of the digit run with value <= maxcap
                best = j + 1
                for e in range(j + 1, k + 1):
                    if int(repl[j:e]) <= maxcap:
                        best = e
                n = int(repl[j:best])
                j = best
            if n <= maxcap:
                out += groups.get(n, "")
            i = j
        else:
            out += c
            i += 1
    return out


def group_texts(tree, acc):
    for e in tree:
        if e[0] == "G":
            acc[e[1]] = mtext(e[2])
            group_texts(e[2], acc)
    return acc


def c15_patterns(ctx):
    r = ctx.rnd
    k = r.random()
    if k < 0.35:
        ng = r.choice([0, 1, 2, 3])
    elif k < 0.7:
        ng = r.choice([9, 10, 11, 12])
    else:
        ng = r.choice([4, 5, 8])
    # groups in sequence / optional / alternation, over a tiny alphabet so that matches are frequent
    BODIES = {"a": ["a"], "b": ["b"], "[ab]": ["a", "b"], "a?": ["", "a"], "ab": ["ab"], "b*": ["", "b", "bb"], "a|b": ["a", "b"]}
    parts, texts = [], []
    for gi in range(ng):
        body = r.choice(list(BODIES))
        opt = r.choice(["", "", "?", ""])
        parts.append("(" + body + ")" + opt)
        texts.append(lambda body=body, opt=opt: "" if (opt and r.random() < 0.4) else r.choice(BODIES[body]))
    if ng == 0:
        k = r.choice(["a", "ab", "[ab]+", "a+b"])
        parts = [k]
        texts = [lambda k=k: {"a": "a", "ab": "ab", "[ab]+": r.choice(["a", "ba"]), "a+b": r.choice(["ab", "aab"])}[k]]
    sep = r.choice(["", "", "x"])
    p = sep.join(parts)
    pre = "x" if r.random() < 0.5 else ""
    p = pre + p

    def sample():
        """an input containing 0..3 matches with noise in between"""
        s = ""
        for _ in range(r.choice([0, 1, 1, 2, 3])):
            s += r.choice(["", "y", "yy"]) + pre + sep.join(t() for t in texts)
        return s + r.choice(["", "y"])
    return p, ng, sample


def c15_streams(ctx):
    r = ctx.rnd
    groups = []
    alphabet = "$\\012a"
    repls = []
    if ctx.quick():
        for _ in range(1200):
            repls.append("".join(r.choice(alphabet + "9b") for _ in range(r.randint(0, 5))))
        repls += ["$0", "$1", "\\$", "\\\\", "$", "\\", "$a", "\\a", "a$", "$12", "$10", "$100", "$01", "$9", "x$1y$2", "$1$1", "\\$1", "$\\"]
    else:
        for n in range(0, 5):
            repls += ["".join(t) for t in itertools.product(alphabet, repeat=n)]
        ctx.exhaustive = True
    npat = ctx.scale(3, 3)
    for R in repls:
        for _ in range(npat):
            p, ng, sample = c15_patterns(ctx)
            s = sample() if r.random() < 0.8 else "".join(r.choice("abx") for _ in range(r.randint(1, 7)))
            cs = [Case(p, "", "replace", s, R), Case(p, "", "analyze", s)]
            groups.append(Group(cs, {"features": set(), "input": s, "R": R, "ngroups": ng}))
    return groups


def c15_regroup(ctx, g, s):
    c = g.cases[0]
    return Group([Case(c.pattern, c.flags, "replace", s, g.meta["R"]), Case(c.pattern, c.flags, "analyze", s)],
                 {"features": set(), "input": s, "R": g.meta["R"], "ngroups": g.meta["ngroups"]})


def c15_oracle(ctx, g):
    rp, an = g.impl
    s, R, ng = g.meta["input"], g.meta["R"], g.meta["ngroups"]
    ctx.hist["groups"] += 1
    if an.startswith("ERR:") or an in ("PANIC", "HANG", "ABORT", "MISSING") or rp in ("PANIC", "HANG", "ABORT", "MISSING"):
        ctx.hist["skipped:" + an[:24]] += 1
        return []
    ents = parse_analyze(an)
    nm = sum(1 for e in ents if e[0] == "M")
    exp = ""
    bad = False
    for e in ents:
        if e[0] == "N":
            exp += e[1]
        else:
            gt = group_texts(e[2], {0: e[1]})
            x = py_expand(R, gt, ng)
            if x is None:
                bad = True
                break
            exp += x
    ctx.hist["matches=%d" % min(nm, 3)] += 1
    if nm > 0:
        ctx.distinct.add((g.cases[0].pattern, s, R))
        if len(ctx.samples) < 8:
            ctx.samples.append({"pattern": g.cases[0].pattern, "input": s, "replacement": R, "replace_all": rp})
    if bad:
        ctx.hist["malformed"] += 1
        if rp != "ERR:InvalidReplacementString":
            return [f"replacement {R!r} is malformed and a match exists, but replace_all answered {rp!r}"]
        return []
    if rp.startswith("ERR"):
        return [f"replacement {R!r} is well-formed (or no match exists) but replace_all answered {rp}"]
    got = parse_replace(rp)
    if got != exp:
        return [f"replace_all({s!r}, {R!r}) = {got!r}, the $N / backslash rules give {exp!r}"]
    return []


PLUGINS = {
    "C04": {"streams": c04_streams, "oracle": c04_oracle, "regroup": c04_regroup},
    "C15": {"streams": c15_streams, "oracle": c15_oracle, "regroup": c15_regroup},
}
