"""props — per-property registry, streams, oracles and the decision procedure of bin/check."""
import os, sys, json, random, time, re, collections, itertools
import rxlib
from rxlib import Case, Gen, render, features, nullable, cps, uncps, VERIF

REGISTRY = json.load(open(os.path.join(VERIF, "registry.json")))
KNOWN = json.load(open(os.path.join(VERIF, "KNOWN_FINDINGS.json")))

TRUSTED_BASE = [
    "Lean 4.33.0 kernel (theorems re-checked by `lake build`; axioms limited to propext, Classical.choice, Quot.sound — audited with #print axioms on every run)",
    "the hand-written model E is tied to /repo only by the correspondence check (differential execution of rxdrv vs the real crate through the harness rxh, debug build)",
    "bin/translate.py and `rxh dump-icu` extract the tables (block.rs, Blocks.txt, category.rs arms, XML name ranges, ICU data) that the table theorems are about",
    "ICU data and CodePointInversionListBuilder are modelled (tables / re-implementation), not verified; 64-bit usize; Rust std Vec/char/String",
]

# which components of E a property's theorems depend on (DESIGN.md §4.2)
CONES = {
    "C01": {"compiler", "engine"}, "C02": {"engine", "scan"}, "C03": {"compiler", "engine", "scan", "captures"},
    "C04": {"scan", "api"}, "C05": {"compiler", "engine", "scan", "api", "captures"}, "C06": {"engine", "scan"},
    "C07": {"compiler"}, "C08": {"compiler", "engine"}, "C09": {"compiler", "engine"}, "C10": {"compiler"},
    "C11": {"compiler", "engine"}, "C12": {"compiler", "engine"}, "C13": {"compiler", "engine", "scan", "api"},
    "C14": {"compiler"}, "C15": {"scan", "captures"}, "C16": {"engine", "scan", "api"}, "C17": {"compiler"},
    "C18": {"scan", "api"}, "C19": {"compiler", "engine", "captures"}, "C20": {"compiler", "engine"},
}


class Group:
    """cases that belong together (same pattern/flags/input), with what the oracle needs"""

    def __init__(self, cases, meta=None):
        self.cases = cases
        self.meta = meta or {}
        self.impl = []
        self.model = []


class Ctx:
    def __init__(self, prop, tier, seed, build):
        self.prop, self.tier, self.seed, self.build = prop, tier, seed, build
        self.rnd = random.Random(seed * 1000003 + int(prop[1:]))
        self.obligations = 0
        self.discharged = 0
        self.ob_problems = []
        self.axioms = {}
        self.evaluations = 0
        self.distinct = set()
        self.samples = []
        self.hist = collections.Counter()
        self.violations = 0
        self.known_hits = collections.Counter()
        self.mismatches = 0
        self.drift = []
        self.notes = []
        self.exhaustive = False

    def quick(self):
        return self.tier != "thorough"

    def scale(self, q, t):
        return q if self.quick() else t

    # --- output
    def replay_path(self, tag):
        d = os.path.join(VERIF, "replays")
        os.makedirs(d, exist_ok=True)
        return os.path.join(d, f"{self.prop}_{tag}_{self.seed}.json")

    def violation(self, tag, payload, nofail=False):
        path = self.replay_path(tag)
        payload = dict(payload)
        payload.update({"property": self.prop, "seed": self.seed, "tier": self.tier})
        rxlib.write_json(path, payload)
        self.violations += 1
        print(f"VIOLATION property={self.prop} replay={path}" + (" no-failing-input-found" if nofail else ""))
        return 1

    def write_evidence(self, wall):
        reg = REGISTRY[self.prop]
        cov = {
            "obligations": self.obligations,
            "discharged": self.discharged,
            "checker_cmd": f"cd /verif/lean && lake build {' '.join(reg['module']) if isinstance(reg['module'], list) else reg['module']} && lake env lean ../work/Audit_{self.prop}.lean   (# print axioms on {len(reg['theorems'])} theorems)",
            "trusted_base": TRUSTED_BASE,
            "theorems": reg["theorems"],
            "axioms_used": self.axioms,
            "evaluations": self.evaluations,
            "distinct_nontrivial": len(self.distinct),
            "rule": reg.get("rule", ""),
            "samples": self.samples[:8],
            "histogram": dict(self.hist),
            "model_vs_impl_disagreements": self.mismatches,
            "known_finding_hits": dict(self.known_hits),
            "drift_outside_cone": self.drift[:5],
            "exhaustive": self.exhaustive,
            "obligation_problems": self.ob_problems[:5],
            "translate": self.build.get("translate_out", ""),
            "leanchecker": self.build.get("leanchecker", "not run (thorough tier only)"),
        }
        ev = {
            "property_id": self.prop, "tier": "thorough" if self.tier == "thorough" else "quick", "seed": self.seed,
            "level": "proof", "coverage": cov,
            "assumptions": reg.get("assumptions", []) + self.notes,
            "wall_s": round(wall, 2), "violations": self.violations,
        }
        rxlib.write_json(os.path.join(VERIF, "evidence", f"{self.prop}.json"), ev)


# ------------------------------------------------------------------------------------------------
# attribution of a model/implementation disagreement to a component of E


def attribute(case):
    """which component stopped corresponding on this case: compiler | engine | scan"""
    c = case
    d = Case(c.pattern, c.flags, "dump", dialect=c.dialect, mode=c.mode)
    hi = rxlib.norm(rxlib.harness([d.hline(0)]).get("0"))
    mo = rxlib.norm(rxlib.driver([d.dline(0, "-", "fullnoopt" if c.mode == "noopt" else "full")]).get("0"))
    if hi != mo:
        return "compiler"
    if not hi.startswith("(prog"):
        return "compiler"
    im = Case(c.pattern, c.flags, "is_match", c.input, dialect=c.dialect, mode=c.mode)
    a = rxlib.norm(rxlib.harness([im.hline(0)]).get("0"))
    b = rxlib.norm(rxlib.driver([im.dline(0, hi, "eng")]).get("0"))
    if a != b:
        return "engine"
    if c.api == "is_match":
        return "engine"
    # engine-only model on the implementation's program, same API
    a = rxlib.norm(rxlib.harness([c.hline(0)]).get("0"))
    b = rxlib.norm(rxlib.driver([c.dline(0, hi, "eng")]).get("0"))
    if a == b:
        return "compiler"
    if ("ERR:MatchesEmptyString" in (a, b)) and a[:3] != b[:3]:
        return "api"            # the nullability gate / empty-input special case of the API layer
    # spans differ?  (a marker replacement shows the spans)
    sp = Case(c.pattern, c.flags, "replace", c.input, "\u0001$0\u0002", dialect=c.dialect, mode=c.mode)
    a2 = rxlib.norm(rxlib.harness([sp.hline(0)]).get("0"))
    b2 = rxlib.norm(rxlib.driver([sp.dline(0, hi, "eng")]).get("0"))
    if a2 != b2:
        return "engine" if c.api != "replace" else "scan"
    # same spans: is only the content of groups different (capture state / tree builder), or the loops themselves?
    def strip_groups(x):
        return re.sub(r"G\d+\(|\)| ", "", x).replace("S:", ",") if x.startswith("OK") else x
    if c.api == "analyze" and strip_groups(a) != strip_groups(b):
        return "scan"
    if c.api == "tokenize":
        return "scan"
    return "captures"


# ------------------------------------------------------------------------------------------------
# known findings


def known_for(prop):
    return [k for k in KNOWN.get("findings", []) if prop in k["properties"]]


def attributable(prop, feats):
    """ids of the listed findings of this property whose scope covers a pattern with these features"""
    out = []
    for k in known_for(prop):
        sc = set(k.get("scope", []))
        if sc & feats:
            out.append(k["id"])
    return out


LEAN_WITNESSES = {
    "K2-reluctant-variable": [("K2", "(?:a|ab)+?c")],
    "K3-memo": [("K3", "^(?:(?:xx|x)(?:ab|c)*){2}$")],
    "K4-reextension": [("K4", "^(?:a|ab|b){0,2}$")],
    "K9-force-progress-cut": [("K9", "(?:a+b?|a+b?){3}a"), ("K9'", "(?:a+b?){3}a")],
}


def replay_known(ctx):
    """re-execute the witness of every listed finding of this property; print KNOWN-FINDING lines"""
    for k in known_for(ctx.prop):
        w = k["witness"]
        cs = [Case(w["pattern"], w.get("flags", ""), w["api"], w.get("input", ""), w.get("repl", ""),
                   dialect=w.get("dialect", "xp"))]
        impl, model = rxlib.run_full(cs)
        still = impl[0] == w["observed"]
        if still:
            print(f"KNOWN-FINDING: property={ctx.prop} {k['id']}: {k['what']}")
            ctx.known_hits["witness:" + k["id"]] += 1
        else:
            ctx.notes.append(f"listed finding {k['id']} no longer reproduces (implementation answers {impl[0]!r}, listed {w['observed']!r})")
        if impl[0] != model[0]:
            ctx.notes.append(f"model disagrees with implementation on the witness of {k['id']}")
        # the kernel-checked witness theorems (Props/Findings.lean) speak about explicit program terms: re-check that
        # these terms are what the model compiles for the witness pattern, and that the crate compiles the same program
        for name, pat in LEAN_WITNESSES.get(k["id"], []):
            cs = [Case(pat, "", "witness", name), Case(pat, "", "dump")]
            impl, model = rxlib.run_full(cs)
            if model[0] != "WITNESS:same":
                ctx.notes.append(f"Lean witness term {name} is not the program the model compiles for {pat!r}: {model[0][:200]}")
            if impl[1] != model[1]:
                ctx.notes.append(f"the crate and the model compile {pat!r} (witness {name}) to different programs")
            ctx.hist["lean_witness_terms_checked"] += 1


# ------------------------------------------------------------------------------------------------
# generic decision procedure


def run(ctx):
    plug = PLUGINS[ctx.prop]
    replay_known(ctx)
    groups = plug["streams"](ctx)
    groups += program_groups(ctx, groups)
    allcases = [c for g in groups for c in g.cases]
    t = time.time()
    impl, model = rxlib.run_full(allcases, timeout_ms=ctx.scale(3000, 5000))
    i = 0
    for g in groups:
        n = len(g.cases)
        g.impl, g.model = impl[i:i + n], model[i:i + n]
        i += n
    ctx.evaluations += len(allcases)
    fails = []      # (group, description)
    mism = []       # (group, case index)
    for g in groups:
        for j, (a, b) in enumerate(zip(g.impl, g.model)):
            if a == "HANG" and b != "HANG" and ctx.prop != "C06":
                ctx.hist["watchdog_fired_model_terminates"] += 1     # slowness or a hang: C06 decides (after a 90 s retry)
                continue
            if a != b and g.cases[j].api != "history":
                mism.append((g, j))
        if g.meta.get("l2"):
            ctx.hist["programs_compared"] += 1
            continue
        res = plug["oracle"](ctx, g)
        for desc in res:
            fails.append((g, desc))
    ctx.mismatches = len(mism)
    if ctx.prop in HYP_PROPS:
        check_hypotheses(ctx, allcases)
    rc = 0
    # 1. oracle failures on the implementation
    reported = 0
    for g, desc in fails:
        gm = any(a != b for c, a, b in zip(g.cases, g.impl, g.model) if c.api != "history")
        feats = g.meta.get("features", set())
        ids = attributable(ctx.prop, feats) if not gm else []
        if ids:
            for k in ids:
                ctx.known_hits[k] += 1
            continue
        if reported < 1:
            rc = ctx.violation(f"fail{reported}", {
                "what": desc, "requests": [c.as_dict() for c in g.cases], "implementation": g.impl, "model_E": g.model,
                "pattern_features": sorted(feats), "model_agrees_with_implementation": not gm,
                "replay": f"bin/check {ctx.prop} --replay <this file>"})
        reported += 1
    if reported:
        return 1
    # 2. correspondence broken inside the property's cone, nothing fails
    if mism:
        seen = {}
        for g, j in mism[:6]:
            comp = attribute(g.cases[j])
            seen.setdefault(comp, (g, j))
        in_cone = [c for c in seen if c in CONES[ctx.prop]]
        for comp, (g, j) in seen.items():
            rec = {"component": comp, "request": g.cases[j].as_dict(), "implementation": g.impl[j], "model_E": g.model[j]}
            if comp in CONES[ctx.prop]:
                # search the neighbourhood for a failing input
                found = plug.get("search", default_search)(ctx, g, j)
                if found:
                    return ctx.violation("search", found)
                return ctx.violation("corr", {
                    "what": f"correspondence with the model broke in component '{comp}', on which the theorems of {ctx.prop} depend; no input was found on which the implementation violates the property",
                    "no_longer_checks": f"correspondence stream of {ctx.prop} ({comp})", **rec}, nofail=True)
            else:
                ctx.drift.append(rec)
    # 3. proof obligations
    if ctx.ob_problems:
        found = plug.get("search_ob", lambda c: None)(ctx)
        if found:
            return ctx.violation("table", found)
        return ctx.violation("obligation", {
            "what": "a proof obligation of this property no longer checks; no failing input was found",
            "no_longer_checks": ctx.ob_problems}, nofail=True)
    return rc


def program_groups(ctx, groups):
    """L2: for (a sample of) the distinct patterns of this run, the compiled program itself is compared —
    the implementation's Debug dump against the program the model compiles (operation tree, prefix, initial
    class, preconditions, minimum length, flags, nullability)"""
    seen = {}
    for g in groups:
        for c in g.cases:
            if c.api in ("history", "dump"):
                continue
            k = c.key()
            if k not in seen:
                seen[k] = g
    keys = list(seen.items())
    ctx.rnd.shuffle(keys)
    out = []
    for k, g in keys[:ctx.scale(1200, 12000)]:
        out.append(Group([Case(k[2], k[3], "dump", dialect=k[0], mode=k[1])], {"features": g.meta.get("features", set()), "l2": True, "src": g,
                                                                                    "input": "", "chars": [""], "expect": [None]}))
    return out


HYP_PROPS = {"C01", "C02", "C03", "C04", "C05", "C06", "C08", "C11", "C16", "C19", "C20"}


def check_hypotheses(ctx, cases):
    """the engine theorems assume decidable predicates on compiled programs (wfOp, capsPos, FactsOK …) which the
    compiler is believed to establish: evaluate them (in Lean, by the driver) on the programs the
    IMPLEMENTATION compiled for this run's patterns"""
    keys = {}
    for c in cases:
        if c.api == "history":
            continue
        k = c.key()
        if k not in keys or len(c.input) > len(keys[k].input):
            keys[k] = c
    keys = dict(list(keys.items())[:4000])
    progs = rxlib.dump_programs(keys.keys())
    lines, order = [], []
    for k, c in keys.items():
        p = progs.get(k, "")
        if p.startswith("(prog"):
            w = rxlib.Case(c.pattern, c.flags, "wf", c.input, dialect=c.dialect, mode=c.mode)
            lines.append(w.dline(len(order), p, "eng"))
            order.append(c)
    ans = rxlib.driver(lines)
    must = ("wf", "caps", "facts", "br", "prewf")
    for i, c in enumerate(order):
        a = ans.get(str(i), "")
        ctx.hist["programs_checked"] += 1
        if not a.startswith("WF:"):
            continue
        d = dict(x.split("=") for x in a[3:].split(","))
        for k2 in ("small", "pre"):
            if d.get(k2) == "0":
                ctx.hist["hypothesis_not_met:" + k2] += 1
        if d.get("clean") == "1":
            ctx.hist["programs_in_clean_fragment"] += 1     # the both-directions theorems (Props/Clean, SearchComplete) apply
        if d.get("straight") == "1" and "(" in c.pattern:
            ctx.hist["programs_in_straight_capture_fragment"] += 1   # C03b / C03c apply (groups reported = first path's)
        if d.get("clean4") == "1":
            ctx.hist["programs_in_clean4_fragment"] += 1    # … and general reluctant repeats over deterministic bodies (Props/Clean4)
        if d.get("clean3") == "1":
            ctx.hist["programs_in_clean3_fragment"] += 1    # … and greedy min>=1 repeats over deterministic bodies (Props/Clean3*)
        if d.get("clean2") == "1":
            ctx.hist["programs_in_clean2_fragment"] += 1    # … extended by justified UnambiguousRepeat nodes (Props/Clean2*)
        if d.get("nea") == "0" and "q" not in c.flags:
            ctx.ob_problems.append(f"compiled program of {c.pattern!r} (flags {c.flags!r}) contains an empty atom: the search-completeness theorems do not apply")
        if "i" in c.flags and "q" not in c.flags:
            ctx.hist["case_blind_programs"] += 1
            if d.get("cicl") == "0":
                if "\\" in c.pattern:
                    ctx.hist["hypothesis_not_met:class_escape_under_i"] += 1   # \p{Lu} etc. are case-sensitive by design
                else:
                    ctx.ob_problems.append(f"a class of the compiled program of {c.pattern!r} (flags {c.flags!r}) is not closed under case: the case-invariance theorems (C11b) do not apply")
        bad = [k2 for k2 in must if d.get(k2) == "0"]
        if bad and re.search(r"\d{10,}", c.pattern):
            # saturated lengths (quantifier bounds near 2^64) are outside wfOp by design: counted, not an alarm
            ctx.hist["hypothesis_not_met:saturated_bounds"] += 1
            continue
        if bad:
            ctx.ob_problems.append(f"compiled program of {c.pattern!r} (flags {c.flags!r}, {c.mode}) does not satisfy the theorem hypotheses {bad}: the theorems of {ctx.prop} do not apply to it")


def generic_regroup(ctx, g, s):
    """the same requests on another input, for groups of the form (patterns / flags / apis) x one input"""
    old = g.meta.get("input")
    if old is None or any(c.api == "history" for c in g.cases) or not all(c.input in (old, "") for c in g.cases):
        return None
    if any(k in g.meta for k in ("s2", "chars", "expect", "fresh")):
        return None         # the group's meaning depends on more than the input
    cs = [Case(c.pattern, c.flags, c.api, s if c.input == old else c.input, c.repl, c.dialect, c.mode, c.limit) for c in g.cases]
    m = dict(g.meta)
    m["input"] = s
    return Group(cs, m)


def default_search(ctx, g, j):
    """re-run the oracle on variants of the disagreeing case: other inputs over the same alphabet, and inputs derived from
    the pattern's own language (members, members with a character appended / doubled)"""
    plug = PLUGINS[ctx.prop]
    regroup = plug.get("regroup", generic_regroup)
    if g.meta.get("l2"):
        # the compiled programs differ: search with the requests of the group this pattern came from
        g = g.meta["src"]
        j = 0
    c = g.cases[j]
    alpha = sorted(set(c.input) | set(ch for ch in c.pattern if ch.isalnum() and not ch.isdigit()) | {"a"})[:4]
    inputs = [""]
    ast = g.meta.get("ast")
    if ast is None:
        try:
            ast = props2.parse_full(c.pattern)
        except Exception:
            ast = None
    if ast is not None:
        try:
            mem = {props2.derive(ctx.rnd, ast)[:10] for _ in range(60)}
            inputs += sorted(mem | {m + a for m in mem for a in alpha[:2]} | {a + m for m in list(mem)[:20] for a in alpha[:2]} | {m[:-1] + m[-1:] * 2 for m in mem if m})
        except Exception:
            pass
    for n in range(1, 6 if ctx.quick() else 8):
        inputs += ["".join(t) for t in itertools.product(alpha, repeat=n)]
        if len(inputs) > 3000:
            break
    groups = [regroup(ctx, g, s) for s in inputs[:3000]]
    groups = [x for x in groups if x]
    allc = [c2 for gg in groups for c2 in gg.cases]
    impl, model = rxlib.run_full(allc)
    i = 0
    for gg in groups:
        n = len(gg.cases)
        gg.impl, gg.model = impl[i:i + n], model[i:i + n]
        i += n
        res = plug["oracle"](ctx, gg)
        if res:
            return {"what": res[0], "requests": [x.as_dict() for x in gg.cases], "implementation": gg.impl, "model_E": gg.model,
                    "found_by": "neighbourhood search after a model/implementation disagreement"}
    return None


def replay(ctx, path):
    r = json.load(open(path))
    reqs = r.get("requests") or ([r["request"]] if "request" in r else [])
    cases = [Case(q["pattern"], q["flags"], q["api"], q["input"], q["repl"], q["dialect"], q["mode"], q["limit"]) for q in reqs]
    impl, model = rxlib.run_full(cases)
    for c, a, b in zip(cases, impl, model):
        print(c)
        print("   implementation:", a)
        print("   model E       :", b)
    g = Group(cases, {"features": set(r.get("pattern_features", []))})
    g.impl, g.model = impl, model
    try:
        res = PLUGINS[ctx.prop]["oracle"](ctx, g)
    except Exception as e:
        res = []
    for d in res:
        print("   oracle:", d)
    return 1 if res or impl != model else 0


# ------------------------------------------------------------------------------------------------
# helpers shared by the plugins

ASTRAL = ["\U0001F600", "\U00010400", "é", "é", "́"]


def parse_analyze(ans):
    """OK:n:entries → list of ('N', text) | ('M', text, tree) ; None if not OK"""
    if not ans.startswith("OK:"):
        return None
    _, n, body = ans.split(":", 2)
    more = body.endswith("+MORE")
    if more:
        body = body[:-5]
    out = []
    if body == "":
        return out
    for e in body.split(";"):
        if e.startswith("N:"):
            out.append(("N", uncps(e[2:])))
        else:
            tree = parse_mtree(e)
            out.append(("M", mtext(tree), tree))
    return out


def parse_mtree(s):
    """M(...) → nested list: ('S', text) | ('G', nr, [children])"""
    pos = 2
    stack = [[]]
    nrs = []
    tok = ""
    i = 2
    body = s[2:-1]
    items = []
    # tokens separated by spaces at depth 0; groups G<n>( ... )
    def parse_items(t, i):
        out = []
        while i < len(t):
            if t[i] == " ":
                i += 1
                continue
            if t[i] == ")":
                return out, i + 1
            if t[i] == "S":
                j = i + 2
                while j < len(t) and t[j] not in " )":
                    j += 1
                out.append(("S", uncps(t[i + 2:j])))
                i = j
            elif t[i] == "G":
                j = t.index("(", i)
                nr = int(t[i + 1:j])
                kids, i = parse_items(t, j + 1)
                out.append(("G", nr, kids))
            else:
                raise ValueError("bad analyze tree: " + t)
        return out, i
    out, _ = parse_items(body, 0)
    return out


def mtext(tree):
    s = ""
    for e in tree:
        s += e[1] if e[0] == "S" else mtext(e[2])
    return s


def parse_tokens(ans):
    if not ans.startswith("OK:"):
        return None
    _, n, body = ans.split(":", 2)
    if body.endswith("+MORE"):
        return None
    n = int(n)
    if n == 0:
        return []
    return [uncps(t) for t in body.split("|")]


def parse_replace(ans):
    return uncps(ans[3:]) if ans.startswith("OK:") else None


def gen_pattern(ctx, **kw):
    r = ctx.rnd
    alpha = kw.pop("alphabet", None) or r.choice(["abc", "ab", "abAB", "ab\n", "xyz"])
    g = Gen(r, alphabet=alpha, **kw)
    ast = g.gen(r.choice([1, 2, 2, 3, 3, 4]))
    return ast, render(ast), alpha


def rand_input(ctx, alpha, maxlen=7, extra=()):
    r = ctx.rnd
    pool = list(alpha) + list(extra)
    return "".join(r.choice(pool) for _ in range(r.randint(0, maxlen)))


# ------------------------------------------------------------------------------------------------
# C04


def c04_streams(ctx):
    r = ctx.rnd
    groups = []
    n = ctx.scale(2500, 40000)
    for i in range(n):
        xsd = r.random() < 0.2
        ast, p, alpha = gen_pattern(ctx, xsd=xsd)
        f = r.choice(["", "", "i", "m", "s", "im"])
        extra = list(ASTRAL) if r.random() < 0.3 else []
        if not xsd and r.random() < 0.2:
            # line-anchored patterns over multi-line inputs (the start-anchor search path, '$' before newlines)
            p = r.choice(["^", "^", ""]) + p + r.choice(["$", "", ""])
            f = r.choice(["m", "m", "im", "ms", ""])
            extra = extra + ["\n", "\n"]
            ast = ("seq", [("bol",), ast, ("eol",)])       # (features only: anchors present)
        if "m" in f:
            extra = extra + ["\n"]
        for _ in range(2):
            s = rand_input(ctx, alpha, 9, extra)
            R = r.choice(["-", "", "xy", "é"])
            d = "xs" if xsd else "xp"
            cs = [Case(p, f, "analyze", s, dialect=d), Case(p, f, "tokenize", s, dialect=d),
                  Case(p, f, "replace", s, "$0", dialect=d), Case(p, f, "replace", s, R, dialect=d)]
            groups.append(Group(cs, {"features": features(ast), "input": s, "R": R, "ast": ast}))
    # layouts: no match / match at 0 / at the end / adjacent matches, literal patterns
    for p, s in [("a", ""), ("a", "bbb"), ("a", "abb"), ("a", "bba"), ("a", "aaa"), ("ab", "abab"), ("a+", "aabaa"),
                 ("\U0001F600", "x\U0001F600y\U0001F600"), ("é", "ééx")]:
        cs = [Case(p, "", "analyze", s), Case(p, "", "tokenize", s), Case(p, "", "replace", s, "$0"), Case(p, "", "replace", s, "-")]
        groups.append(Group(cs, {"features": set(), "input": s, "R": "-"}))
    # the three scan functions must see ONE sequence of spans even where a search depends on what earlier searches of the
    # same matcher visited (zero-length-match memo): a min-0 variable repeat inside a counted group, a long branch that
    # overshoots and fails, a short alternative that wins — the next search re-enters the repeat at a visited offset
    memo_pats = ["(?:a(?:b|cd)*){2}c|a", "(?:a(?:b|cd)*){1,2}c|a", "(?:(?:a|bc)*a){2}d|a", "(?:a(?:bc|d)*){2}x|a|d", "(?:[ab](?:c|dd)*){2}e|[ab]",
                 "(?:a(?:b|cd)*)+c|a", "(?:a(?:b|cd)*?){2}c|a", "(?:a(?:b|cd)?){2}c|a", "(?:(?:b|cd)*a){2}c|a|c"]
    pool = [x for x in rxlib.strings_upto("acd", 5) if len(x) >= 2] + [x for x in rxlib.strings_upto("ab", 4) if len(x) >= 2]
    for p in memo_pats:
        try:
            ast = props2.parse_full(p)
        except Exception:
            continue
        fe = features(ast)
        for s in r.sample(pool, ctx.scale(40, 300)) + ["aaac", "aaacaaac", "aaad", "aacdac", "aaae"]:
            cs = [Case(p, "", "analyze", s), Case(p, "", "tokenize", s), Case(p, "", "replace", s, "$0"), Case(p, "", "replace", s, "-")]
            groups.append(Group(cs, {"features": fe, "input": s, "R": "-", "ast": ast}))
    return groups


def c04_regroup(ctx, g, s):
    c = g.cases[0]
    R = g.meta.get("R", "-")
    cs = [Case(c.pattern, c.flags, "analyze", s, dialect=c.dialect), Case(c.pattern, c.flags, "tokenize", s, dialect=c.dialect),
          Case(c.pattern, c.flags, "replace", s, "$0", dialect=c.dialect), Case(c.pattern, c.flags, "replace", s, R, dialect=c.dialect)]
    return Group(cs, {"features": g.meta.get("features", set()), "input": s, "R": R})


def c04_oracle(ctx, g):
    a, t, r0, rR = g.impl
    s, R = g.meta["input"], g.meta["R"]
    ctx.hist["groups"] += 1
    if a.startswith("ERR:") and a in ("ERR:Syntax", "ERR:InvalidFlags"):
        ctx.hist["rejected"] += 1
        return []
    if a == "ERR:MatchesEmptyString":
        ctx.hist["nullable"] += 1
        return []
    out = []
    if any(x in ("PANIC", "HANG", "ABORT", "MISSING") for x in g.impl):
        ctx.hist["abnormal"] += 1
        return []       # C05 / C06 decide these
    ents = parse_analyze(a)
    toks = parse_tokens(t)
    if ents is None or toks is None or parse_replace(r0) is None or parse_replace(rR) is None:
        return [f"the three APIs do not agree on Ok/Err: analyze={a[:40]} tokenize={t[:40]} replace={r0[:40]}"]
    text = "".join(e[1] for e in ents)
    if text != s:
        out.append(f"analyze entries concatenate to {text!r}, input is {s!r}")
    # pieces between the matches reported by analyze
    pieces, cur = [], ""
    nm = 0
    for e in ents:
        if e[0] == "N":
            cur += e[1]
        else:
            pieces.append(cur)
            cur = ""
            nm += 1
    pieces.append(cur)
    if s == "":
        if toks != []:
            out.append(f"tokenize of the empty input yields {toks!r}")
    elif toks != pieces:
        out.append(f"tokens {toks!r} are not the pieces between the analyze matches {pieces!r}")
    if parse_replace(r0) != s:
        out.append(f"replace_all with $0 gives {parse_replace(r0)!r}, input is {s!r}")
    if s != "" and parse_replace(rR) != R.join(pieces):
        out.append(f"replace_all with {R!r} gives {parse_replace(rR)!r}, tokens joined are {R.join(pieces)!r}")
    if nm > 0:
        ctx.distinct.add((g.cases[0].pattern, g.cases[0].flags, s))
        ctx.hist["with_match"] += 1
        if len(ctx.samples) < 8:
            ctx.samples.append({"pattern": g.cases[0].pattern, "flags": g.cases[0].flags, "input": s, "analyze": a, "tokenize": t})
    return out


# ------------------------------------------------------------------------------------------------
# C15


def py_expand(repl, groups, ngroups):
    """the replacement rules as the property states them; groups: nr -> text (absent = did not participate).
    returns None for a malformed replacement string"""
    out = ""
    i = 0
    maxcap = ngroups
    while i < len(repl):
        c = repl[i]
        if c == "\\":
            if i + 1 >= len(repl) or repl[i + 1] not in "\\$":
                return None
            out += repl[i + 1]
            i += 2
        elif c == "$":
            if i + 1 >= len(repl) or not ("0" <= repl[i + 1] <= "9"):
                return None
            j = i + 1
            if maxcap <= 9:
                n = int(repl[j])
                j += 1
            else:
                k = j + 1
                while k < len(repl) and "0" <= repl[k] <= "9":
                    k += 1
                # longest prefix of the digit run with value <= maxcap
                best = j + 1
                for e in range(j + 1, k + 1):
                    if int(repl[j:e]) <= maxcap:
                        best = e
                n = int(repl[j:best])
                j = best
            if n <= maxcap:
                out += groups.get(n, "")
            i = j
        else:
            out += c
            i += 1
    return out


def group_texts(tree, acc):
    for e in tree:
        if e[0] == "G":
            acc[e[1]] = mtext(e[2])
            group_texts(e[2], acc)
    return acc


def c15_patterns(ctx):
    r = ctx.rnd
    k = r.random()
    if k < 0.35:
        ng = r.choice([0, 1, 2, 3])
    elif k < 0.7:
        ng = r.choice([9, 10, 11, 12])
    else:
        ng = r.choice([4, 5, 8])
    # groups in sequence / optional / alternation, over a tiny alphabet so that matches are frequent
    BODIES = {"a": ["a"], "b": ["b"], "[ab]": ["a", "b"], "a?": ["", "a"], "ab": ["ab"], "b*": ["", "b", "bb"], "a|b": ["a", "b"]}
    parts, texts = [], []
    for gi in range(ng):
        body = r.choice(list(BODIES))
        opt = r.choice(["", "", "?", ""])
        parts.append("(" + body + ")" + opt)
        texts.append(lambda body=body, opt=opt: "" if (opt and r.random() < 0.4) else r.choice(BODIES[body]))
    if ng == 0:
        k = r.choice(["a", "ab", "[ab]+", "a+b"])
        parts = [k]
        texts = [lambda k=k: {"a": "a", "ab": "ab", "[ab]+": r.choice(["a", "ba"]), "a+b": r.choice(["ab", "aab"])}[k]]
    sep = r.choice(["", "", "x"])
    p = sep.join(parts)
    pre = "x" if r.random() < 0.5 else ""
    p = pre + p

    def sample():
        """an input containing 0..3 matches with noise in between"""
        s = ""
        for _ in range(r.choice([0, 1, 1, 2, 3])):
            s += r.choice(["", "y", "yy"]) + pre + sep.join(t() for t in texts)
        return s + r.choice(["", "y"])
    return p, ng, sample


def c15_streams(ctx):
    r = ctx.rnd
    groups = []
    alphabet = "$\\012a"
    repls = []
    if ctx.quick():
        for _ in range(1200):
            repls.append("".join(r.choice(alphabet + "9b") for _ in range(r.randint(0, 5))))
        repls += ["$0", "$1", "\\$", "\\\\", "$", "\\", "$a", "\\a", "a$", "$12", "$10", "$100", "$01", "$9", "x$1y$2", "$1$1", "\\$1", "$\\"]
    else:
        for n in range(0, 5):
            repls += ["".join(t) for t in itertools.product(alphabet, repeat=n)]
        ctx.exhaustive = True
    npat = ctx.scale(3, 3)
    for R in repls:
        for _ in range(npat):
            p, ng, sample = c15_patterns(ctx)
            s = sample() if r.random() < 0.8 else "".join(r.choice("abx") for _ in range(r.randint(1, 7)))
            cs = [Case(p, "", "replace", s, R), Case(p, "", "analyze", s)]
            groups.append(Group(cs, {"features": set(), "input": s, "R": R, "ngroups": ng}))
    return groups


def c15_regroup(ctx, g, s):
    c = g.cases[0]
    return Group([Case(c.pattern, c.flags, "replace", s, g.meta["R"]), Case(c.pattern, c.flags, "analyze", s)],
                 {"features": set(), "input": s, "R": g.meta["R"], "ngroups": g.meta["ngroups"]})


def c15_oracle(ctx, g):
    rp, an = g.impl
    s, R, ng = g.meta["input"], g.meta["R"], g.meta["ngroups"]
    ctx.hist["groups"] += 1
    if an.startswith("ERR:") or an in ("PANIC", "HANG", "ABORT", "MISSING") or rp in ("PANIC", "HANG", "ABORT", "MISSING"):
        ctx.hist["skipped:" + an[:24]] += 1
        return []
    ents = parse_analyze(an)
    nm = sum(1 for e in ents if e[0] == "M")
    exp = ""
    bad = False
    for e in ents:
        if e[0] == "N":
            exp += e[1]
        else:
            gt = group_texts(e[2], {0: e[1]})
            x = py_expand(R, gt, ng)
            if x is None:
                bad = True
                break
            exp += x
    ctx.hist["matches=%d" % min(nm, 3)] += 1
    if nm > 0:
        ctx.distinct.add((g.cases[0].pattern, s, R))
        if len(ctx.samples) < 8:
            ctx.samples.append({"pattern": g.cases[0].pattern, "input": s, "replacement": R, "replace_all": rp})
    if bad:
        ctx.hist["malformed"] += 1
        if rp != "ERR:InvalidReplacementString":
            return [f"replacement {R!r} is malformed and a match exists, but replace_all answered {rp!r}"]
        return []
    if rp.startswith("ERR"):
        return [f"replacement {R!r} is well-formed (or no match exists) but replace_all answered {rp}"]
    got = parse_replace(rp)
    if got != exp:
        return [f"replace_all({s!r}, {R!r}) = {got!r}, the $N / backslash rules give {exp!r}"]
    return []



# ------------------------------------------------------------------------------------------------
# shared stream builders

import refmatch

FLAGSETS = ["", "i", "m", "s", "im", "is", "ms", "ims"]
SMALL_ATOMS = [("lit", "a"), ("lit", "b"), ("dot",), ("bol",), ("eol",)]
SMALL_QUANTS = [(0, None, "*", True), (1, None, "+", True), (0, 1, "?", True), (2, 2, "{2}", True), (0, 2, "{0,2}", True),
                (1, 2, "{1,2}", True), (0, None, "*", False), (1, None, "+", False), (0, 1, "?", False), (1, 2, "{1,2}", False)]


def random_groups(ctx, n, apis, flags=FLAGSETS, inputs_per=3, maxlen=7, corpus=(), **genkw):
    """n generated patterns × inputs × the given APIs (each api: (name, repl))"""
    r = ctx.rnd
    groups = []
    for i in range(n):
        ast, p, alpha = gen_pattern(ctx, **genkw)
        f = r.choice(flags)
        extra = "\n" if "m" in f else ""
        fe = features(ast)
        for _ in range(inputs_per):
            s = rand_input(ctx, alpha, maxlen, extra)
            cs = [Case(p, f, api, s, repl) for api, repl in apis]
            groups.append(Group(cs, {"features": fe, "input": s, "ast": ast, "flags": f}))
    return groups


def small_groups(ctx, maxsize, maxlen, flagsets, apis):
    """exhaustive: every AST up to a size bound over {a,b} × every input up to a length bound"""
    groups = []
    inputs = rxlib.strings_upto("ab", maxlen)
    for size in range(1, maxsize + 1):
        for ast in rxlib.enum_asts(size, SMALL_ATOMS, SMALL_QUANTS):
            p = render(ast)
            fe = features(ast)
            for f in flagsets:
                for s in inputs:
                    cs = [Case(p, f, api, s, repl) for api, repl in apis]
                    groups.append(Group(cs, {"features": fe, "input": s, "ast": ast, "flags": f}))
    return groups


STRESS_BODIES = [("ab", ["ab"]), ("abc", ["abc"]), ("a", ["a"]), ("[ab]", ["a", "b"]), ("(?:ab|cd)", ["ab", "cd"]), ("(?:a|ab)", ["a", "ab"]),
                 ("(?:ab|a)", ["ab", "a"]), ("(?:a|b|ab)", ["a", "b", "ab"]), ("(ab)", ["ab"]), ("a.", ["ab", "ax"]), ("(?:aa|a)", ["aa", "a"]),
                 ("[ab][bc]", ["ab", "bc", "ac"]), ("(?:abc|ab)", ["abc", "ab"]), ("..", ["ab", "ba", "xx"]), ("(a|b)c", ["ac", "bc"])]
STRESS_QUANTS = ["*", "+", "?", "{2}", "{3}", "{2,}", "{3,}", "{1,2}", "{2,3}", "{0,2}", "{2,4}", "*?", "+?", "??", "{2}?", "{2,}?", "{1,3}?", "{0,2}?"]


def stress_pattern(ctx):
    """a quantified body followed by something that can start like the body: the shapes that make each of the
    five repetition iterators give back iterations"""
    r = ctx.rnd
    btxt, words = r.choice(STRESS_BODIES)
    q = r.choice(STRESS_QUANTS)
    w = r.choice(words)
    fol = r.choice([w, w[:1], w[:1], w[-1:], w + w[:1], "x", "", "c", "(?:" + w + "|x)", "[" + w[:1] + "x]", w[:1] + "?" + w[-1:], "$", "\\1" if "(" in btxt and "?:" not in btxt else w,
                    ".", "[^q]", "\\S", "(" + w + ")", "(" + w[:1] + "|x)", w[:1] + "+"])
    pre = r.choice(["", "", "^", "x", "(?:x|)"])
    suf = r.choice(["", "", "$", "x"])
    p = pre + btxt + q + fol + suf
    toks = words + [w[:1], "x", "c"]
    return p, toks


def stress_groups(ctx, n, apis, flags=("", "", "i", "m"), modes=("opt",)):
    r = ctx.rnd
    gs = []
    for i in range(n):
        p, toks = stress_pattern(ctx)
        f = r.choice(flags)
        if "i" in f:
            # mixed case: the repeated letter followed by its other case, inputs in both cases
            p = "".join(ch.upper() if (ch.isalpha() and r.random() < 0.35) else ch for ch in p)
            toks = toks + [t.upper() for t in toks]
        if "m" in f and r.random() < 0.5:
            p = p.replace("x", "\n") if r.random() < 0.5 else p
            toks = toks + ["\n"]
        if r.random() < 0.25:
            # the same shape over letters beyond the 100th code point (first-set / disjointness computations
            # enumerate class members up to a budget)
            tr = str.maketrans({"a": "y", "b": "z", "c": "w", "A": "Y", "B": "Z", "C": "W"})
            p = re.sub(r"\\.|[abcABC]", lambda m: m.group(0) if m.group(0).startswith("\\") else m.group(0).translate(tr), p)
            toks = [t.translate(tr) for t in toks]
        try:
            ast = props2.parse_full(p)
        except Exception:
            ast = None
        if ast is None:
            continue
        fe = features(ast)
        for _ in range(3):
            s = "".join(r.choice(toks) for _ in range(r.randint(0, 5)))
            cs = [Case(p, f, api, s, repl, mode=m) for m in modes for api, repl in apis]
            gs.append(Group(cs, {"features": fe, "input": s, "ast": ast, "flags": f, "kind": "stress"}))
    return gs


PREFIX_LITS = ["aa", "aba", "abab", "aab", "abaab", "bb"]
PREFIX_TAILS = ["$", "[b]", "b*c", ".b", "(?:b|$)", "c", "a*b", "(b|c)", "[^a]"]


def prefix_groups(ctx, n, apis, modes=("opt",)):
    """a literal prefix that can overlap itself, followed by something that fails at the first occurrence and
    succeeds at an overlapping later one (the prefix scan must resume one character further, not behind the prefix)"""
    r = ctx.rnd
    gs = []
    pool = [s for s in rxlib.strings_upto("abc", 6) if len(s) >= 2]
    for i in range(n):
        lit, tail = r.choice(PREFIX_LITS), r.choice(PREFIX_TAILS)
        f = r.choice(["", "", "i", "m"])
        p = lit + tail
        if "i" in f and r.random() < 0.5:
            p = "".join(ch.upper() if ch.isalpha() and r.random() < 0.4 else ch for ch in p)
        ast = props2.parse_full(p)
        if ast is None:
            continue
        fe = features(ast)
        for s in [lit[:-1] + lit + x for x in ("", "b", "c", "ab", "bc", "\nb")] + r.sample(pool, 6):
            cs = [Case(p, f, api, s, repl, mode=m) for m in modes for api, repl in apis]
            gs.append(Group(cs, {"features": fe, "input": s, "ast": ast, "flags": f, "kind": "prefix"}))
    return gs


def line_groups(ctx, n, apis, modes=("opt",)):
    """start-anchored patterns under flag m on inputs with runs of newlines (empty lines before the matching line)"""
    r = ctx.rnd
    gs = []
    pats = ["^b", "^b+", "^(?:a|b)c", "^[ab]$", "^a*b", "^", "^$", "^b$", "(?:^b)", "^(b)", "^bb?"]
    for i in range(n):
        p = r.choice(pats)
        f = r.choice(["m", "m", "im", "ms"])
        ast = props2.parse_full(p)
        if ast is None:
            continue
        fe = features(ast)
        for _ in range(4):
            s = "".join(r.choice(["a", "b", "c", "\n", "\n\n", "\n\n\n", "bc", "\r"]) for _ in range(r.randint(1, 6)))
            cs = [Case(p, f, api, s, repl, mode=m) for m in modes for api, repl in apis]
            gs.append(Group(cs, {"features": fe, "input": s, "ast": ast, "flags": f, "kind": "lines"}))
    return gs


def noop_groups(ctx, n, apis, modes=("opt",)):
    """a repeat over a character / class, then a piece that can match only the empty string or has an empty branch
    (`(?:)`, `b{0}`, `(?:b|)`, `^?`, `()*` …), then something that starts like the repeated term: the repeat must give
    characters back — whatever the first set of the no-op piece is taken to be"""
    r = ctx.rnd
    gs = []
    xs = ["a", "[ab]", "a", "[abc]"]
    reps = ["*", "+", "?", "{1,2}", "{0,3}", "*?"]
    noops = ["(?:)", "b{0}", "(?:|b)", "(?:b|)", "^?", "$*", "()*", "b{0,0}", "(?:c|)", "(?:)(?:)", "(?:b{0}|c)", "(?:^|)", "()"]
    for i in range(n):
        x, q, z = r.choice(xs), r.choice(reps), r.choice(noops)
        pre, suf = r.choice(["", "", "^", "c"]), r.choice(["", "", "$", "b"])
        f = r.choice(["", "", "i", "m"])
        nxt = r.choice(["a", "a", "ab", "[ab]"])
        if "i" in f and r.random() < 0.5:
            nxt = nxt.upper() if nxt != "[ab]" else "A"
        p = pre + x + q + z + nxt + suf
        try:
            ast = props2.parse_full(p)
        except Exception:
            ast = None
        if ast is None:
            continue
        fe = features(ast)
        for s in r.sample(["a", "aa", "aab", "baa", "caab", "ab", "caa", "aaa", "cab", "b", "ba", "cA" if "i" in f else "ca"], 5):
            cs = [Case(p, f, api, s, repl, mode=m) for m in modes for api, repl in apis]
            gs.append(Group(cs, {"features": fe, "input": s, "ast": ast, "flags": f, "kind": "noop"}))
    return gs


def abnormal(a):
    return a in ("PANIC", "HANG", "ABORT", "MISSING") or a.startswith("ERR:Internal")


def sample(ctx, g, extra=None):
    if len(ctx.samples) < 8:
        d = {"pattern": g.cases[0].pattern, "flags": g.cases[0].flags, "input": g.meta.get("input", g.cases[0].input),
             "answers": [a[:80] for a in g.impl]}
        if extra:
            d.update(extra)
        ctx.samples.append(d)


def regroup_same_apis(ctx, g, s):
    cs = [Case(c.pattern, c.flags, c.api, s, c.repl, c.dialect, c.mode, c.limit) for c in g.cases]
    m = dict(g.meta)
    m["input"] = s
    return Group(cs, m)


# ------------------------------------------------------------------------------------------------
# C01 — is_match decides membership


def backref_search_groups(ctx, n):
    """back-reference patterns searched unanchored on inputs where an earlier start position captures and fails"""
    r = ctx.rnd
    gs = []
    pats = sorted({props2.c19_patterns(ctx) for _ in range(400)})
    inputs = [s for s in rxlib.strings_upto("abc", 5) if len(s) >= 2]
    for p in pats:
        ast = props2.parse_simple(p) if "[" not in p and "." not in p and "^" not in p else None
        if ast is None:
            continue
        fe = features(ast)
        for s in (inputs if n >= 1000 else r.sample(inputs, 120)) + ["xabc", "aabc", "xadxbc"]:
            gs.append(Group([Case(p, "", "is_match", s)], {"features": fe, "input": s, "ast": ast, "flags": "", "kind": "backref-search"}))
    return gs


def c01_streams(ctx):
    if ctx.quick():
        gs = random_groups(ctx, 4000, [("is_match", "")])
        gs += stress_groups(ctx, 2500, [("is_match", "")])
        gs += noop_groups(ctx, 150, [("is_match", "")])
        gs += prefix_groups(ctx, 150, [("is_match", "")]) + line_groups(ctx, 120, [("is_match", "")])
        gs += backref_search_groups(ctx, 160)
        gs += small_groups(ctx, 3, 4, [""], [("is_match", "")])
    else:
        gs = random_groups(ctx, 60000, [("is_match", "")])
        gs += stress_groups(ctx, 40000, [("is_match", "")])
        gs += noop_groups(ctx, 2500, [("is_match", "")])
        gs += prefix_groups(ctx, 2500, [("is_match", "")]) + line_groups(ctx, 2000, [("is_match", "")])
        gs += backref_search_groups(ctx, 2500)
        gs += small_groups(ctx, 4, 5, ["", "m"], [("is_match", "")])
        ctx.exhaustive = True
    return gs


def c01_oracle(ctx, g):
    a = g.impl[0]
    ctx.hist["is_match:" + a[:12]] += 1
    if a not in ("T", "F"):
        return []       # rejected patterns: C07; abnormal outcomes: C05 / C06
    ref = refmatch.is_match(g.meta["ast"], g.meta["input"], g.meta["flags"])
    if ref is None:
        ctx.hist["oracle_budget"] += 1
        return []
    key = (g.cases[0].pattern, g.cases[0].flags, g.meta["input"])
    if ref or a == "T":
        ctx.distinct.add(key)
        sample(ctx, g, {"oracle": ref})
    if (a == "T") != ref:
        return [f"is_match({g.cases[0].pattern!r}, flags {g.cases[0].flags!r}, {g.meta['input']!r}) = {a}, but "
                + ("some" if ref else "no") + " substring is in the language of the pattern"]
    return []


# ------------------------------------------------------------------------------------------------
# C02 — leftmost, non-overlapping, ordered choice


def analyze_spans(ans):
    """match spans (in code points) read off an analyze answer"""
    ents = parse_analyze(ans)
    if ents is None:
        return None
    out, pos = [], 0
    for e in ents:
        n = len(e[1])
        if e[0] == "M":
            out.append((pos, pos + n, e[2]))
        pos += n
    return out


def c02_streams(ctx):
    n = ctx.scale(3000, 50000)
    gs = random_groups(ctx, n, [("analyze", "")], flags=["", "", "i", "m", "s", "im"])
    gs += stress_groups(ctx, ctx.scale(1500, 25000), [("analyze", "")])
    gs += noop_groups(ctx, ctx.scale(100, 2000), [("analyze", "")])
    gs += prefix_groups(ctx, ctx.scale(120, 2000), [("analyze", "")]) + line_groups(ctx, ctx.scale(100, 1500), [("analyze", "")])
    # a min-0, finite-max group over an ambiguous body reached twice at one position (equal-length alternatives / optional prefix)
    for p in ["(?:x|x)(?:a|ab)?c", "(?:x|[xz])(?:a|ab)?c", "[a-z]*-(?:ab|a|bc){0,2}!", "(?:<|<<?)(?:ab|a|bc){0,2}>", "(?:b|b)(?:a|aa){0,2}c"]:
        ast = props2.parse_full(p)
        for s in ["xabac", "xabac xabc", "zz-abca!", "zz-abc!", "<abca>", "baaac", "baac", "xabc", "x-aba!"]:
            gs.append(Group([Case(p, "", "analyze", s)], {"features": features(ast), "input": s, "ast": ast, "flags": ""}))
    # astral and combining characters: offsets are code points
    for p, s in [("b", "\U0001F600b\U00010400b"), ("\U0001F600", "a\U0001F600b\U0001F600"), ("é", "xéye"), (".", "\U00010400")]:
        gs.append(Group([Case(p, "", "analyze", s)], {"features": set(), "input": s, "ast": ("seq", [("lit", c) for c in p]) if p != "." else ("dot",), "flags": ""}))
    if not ctx.quick():
        gs += small_groups(ctx, 4, 5, [""], [("analyze", "")])
    return gs


def c02_oracle(ctx, g):
    a = g.impl[0]
    ctx.hist["analyze:" + a[:4]] += 1
    if not a.startswith("OK:") or a.endswith("+MORE"):
        return []
    sp = analyze_spans(a)
    ast, s, f = g.meta["ast"], g.meta["input"], g.meta["flags"]
    out = []
    # left to right, non-overlapping
    prev = 0
    for (x, y, _) in sp:
        if x < prev or y < x:
            out.append(f"spans are not left to right / disjoint: {[(x, y) for x, y, _ in sp]}")
        prev = y
    if out:
        return out
    fe = g.meta["features"]
    pos = 0
    for k in range(len(sp) + 1):
        m = refmatch.first_match(ast, s, f, pos)
        if m is None:
            ctx.hist["oracle_budget"] += 1
            return []
        if k == len(sp):
            if m is not False and not (m[0] == m[1]):
                out.append(f"a further match {m[0], m[1]} exists after the last reported span, from offset {pos}")
            break
        x, y, _ = sp[k]
        if m is False:
            out.append(f"reported span {(x, y)} but no match exists at or after offset {pos}")
            break
        if m[0] != x:
            out.append(f"reported span starts at {x}, the leftmost match from offset {pos} starts at {m[0]}")
            break
        ends = refmatch.all_ends(ast, s, f, x)
        if ends is None:
            ctx.hist["oracle_budget"] += 1
            return []
        if y not in ends:
            out.append(f"reported span {(x, y)} is not in the match relation (possible ends from {x}: {ends})")
            break
        if m[1] != y and not (fe & {"rep_nullable_body"}):
            out.append(f"reported span {(x, y)}, ordered choice selects {(m[0], m[1])}")
            break
        pos = y if y > x else y + 1
    if sp:
        ctx.distinct.add((g.cases[0].pattern, f, s))
        sample(ctx, g)
    return out


# ------------------------------------------------------------------------------------------------
# C03 — captured groups


def ngroups_of(ast):
    return max([n[3] for n in rxlib.walk(ast) if n[0] == "grp" and n[1]] + [0])


def tree_check(tree, lo, text, nest):
    """groups properly nested / inside the match; returns list of problems"""
    probs = []

    def go(es, parent):
        for e in es:
            if e[0] == "G":
                if nest.get(e[1], 0) != parent:
                    probs.append(f"group {e[1]} appears inside group {parent}, its parent in the pattern is {nest.get(e[1], 0)}")
                go(e[2], e[1])
    go(tree, 0)
    return probs


def nesting_of(ast):
    nest = {}

    def go(n, parent):
        t = n[0]
        if t == "grp":
            if n[1]:
                nest[n[3]] = parent
                go(n[2], n[3])
            else:
                go(n[2], parent)
        elif t in ("alt", "seq"):
            for b in n[1]:
                go(b, parent)
        elif t == "rep":
            go(n[1], parent)
    go(ast, 0)
    return nest


def c03_streams(ctx):
    r = ctx.rnd
    n = ctx.scale(3500, 40000)
    gs = []
    for i in range(n):
        ast, p, alpha = gen_pattern(ctx, maxgroups=r.choice([2, 4, 12]))
        ng = ngroups_of(ast)
        if ng == 0:
            continue
        f = r.choice(["", "", "i", "m"])
        repl = "<" + "|".join("$%d" % k for k in range(1, min(ng, 12) + 1)) + ">"
        fe = features(ast)
        for _ in range(2):
            s = rand_input(ctx, alpha, 7)
            gs.append(Group([Case(p, f, "analyze", s), Case(p, f, "replace", s, repl)],
                            {"features": fe, "input": s, "ast": ast, "flags": f, "ngroups": ng, "repl": repl}))
    return gs + c03_shape_groups(ctx)


C03_SHAPES = ["(?:(a)|(b))+", "(?:(a+)|(b+))+", "(?:(a+)|(b+)|(c))*c", "((a)|(b))+", "(?:(a)(b)?)+", "(a)|(b)|(c)", "(?:(a)|b)+(b)?", "((a+)(b*))+",
              "(a(b(c)?)?)+", "(?:(ab)|(a)|(b))+", "(?:(\\d+)|([a-z]+))+", "(?:(a)|(b)|(ab))+?c", "(a)?(b)?(c)?x", "((a)|(b)|(c))*x", "(?:(a)b|a(c))+",
              # a capturing group whose nearest enclosing parenthesis is non-capturing, inside a capturing group, matching empty
              # where the outer group ends (the nesting table is computed by a separate scanner)
              "(a(?:(b?)))", "(a(?:x(b?))?)", "(a(?:b(c*))+)", "((a)(?:(b?)))", "(a(?:(?:(b?))))x", "(a+(?:b(c?))?)(x?)"]


def c03_shape_groups(ctx):
    r = ctx.rnd
    gs = []
    for _ in range(ctx.scale(500, 6000)):
        p = r.choice(C03_SHAPES)
        ast = props2.parse_simple(p) if "\\" not in p and "[" not in p and "?c" not in p else None
        if ast is None:
            continue
        ng = ngroups_of(ast)
        s = "".join(r.choice("abcx") for _ in range(r.randint(1, 7)))
        repl = "<" + "|".join("$%d" % k for k in range(1, ng + 1)) + ">"
        gs.append(Group([Case(p, "", "analyze", s), Case(p, "", "replace", s, repl)],
                        {"features": features(ast), "input": s, "ast": ast, "flags": "", "ngroups": ng, "repl": repl}))
    # an alternative that is exactly one capturing group matches locally, what follows the alternation fails, a LATER
    # alternative is selected: the abandoned group must not contribute to `$N` or to the group tree
    pool = [x for x in rxlib.strings_upto("abc", 4) if x]
    for p in ["(?:(a)|(ab))c", "((a)|(ab))c", "(?:(a)|(a)b)c", "(?:(a+)|(a+)b)c", "x?(?:(a)|(b)|(ab))c", "(?:(a)|(ab)|(abc))$", "(?:(a)|a(b))c", "(?:(a)|(ab))(?:(c)|(cb))a"]:
        ast = props2.parse_simple(p)
        ng = ngroups_of(ast)
        repl = "<" + "|".join("$%d" % k for k in range(1, ng + 1)) + ">"
        for s in (r.sample(pool, 45) + ["abc", "aabc", "abca", "abcba"] if ctx.quick() else pool):
            gs.append(Group([Case(p, "", "analyze", s), Case(p, "", "replace", s, repl)],
                            {"features": features(ast), "input": s, "ast": ast, "flags": "", "ngroups": ng, "repl": repl}))
    return gs


def c03_oracle(ctx, g):
    an, rp = g.impl
    ctx.hist["analyze:" + an[:4]] += 1
    if not an.startswith("OK:") or an.endswith("+MORE") or not rp.startswith("OK:"):
        return []
    ast, s, f, ng = g.meta["ast"], g.meta["input"], g.meta["flags"], g.meta["ngroups"]
    sp = analyze_spans(an)
    out = []
    nest = nesting_of(ast)
    for (x, y, tree) in sp:
        if mtext(tree) != s[x:y]:
            out.append(f"String leaves of the match at {(x, y)} concatenate to {mtext(tree)!r}, matched text is {s[x:y]!r}")
        out += tree_check(tree, x, s[x:y], nest)
    if out:
        return out[:1]
    # group texts against the ordered-choice reference
    ref = refmatch.spans(ast, s, f)
    if ref is None:
        ctx.hist["oracle_budget"] += 1
        return []
    if [(a, b) for a, b, _ in ref] != [(x, y) for x, y, _ in sp]:
        return []        # span selection is C02's business
    exp = ""
    pos = 0
    for (a, b, caps) in ref:
        exp += s[pos:a] + "<" + "|".join((s[caps[k][0]:caps[k][1]] if k in caps else "") for k in range(1, min(ng, 12) + 1)) + ">"
        pos = b
    exp += s[pos:]
    got = parse_replace(rp)
    for (a, b, caps), (x, y, tree) in zip(ref, sp):
        gt = group_texts(tree, {})
        for k in range(1, ng + 1):
            want = s[caps[k][0]:caps[k][1]] if k in caps else None
            have = gt.get(k)
            if want != have and not (want in (None, "") and have in (None, "")):
                out.append(f"match {(a, b)}: analyze reports group {k} = {have!r}, the selected match path captured {want!r}")
                break
            if (want is None) != (have is None) and not out:
                out.append(f"match {(a, b)}: group {k} " + ("did not participate but is reported as empty" if want is None else "participated (empty) but is absent"))
                break
        if out:
            break
    if not out and got != exp:
        out.append(f"replace_all with {g.meta['repl']!r} gives {got!r}, the selected match paths give {exp!r}")
    if sp:
        ctx.distinct.add((g.cases[0].pattern, f, s))
        sample(ctx, g)
    return out[:1]


# ------------------------------------------------------------------------------------------------
# C05 — no panic, no Error::Internal     /     C06 — termination


def mutate(r, p):
    k = r.random()
    if not p:
        return r.choice("()[]{}|*+?\\^$-")
    i = r.randrange(len(p))
    if k < 0.25:
        return p[:i] + p[i + 1:]
    if k < 0.45:
        return p[:i] + p[i] + p[i:]
    if k < 0.6 and len(p) > 1:
        j = r.randrange(len(p))
        l = list(p)
        l[i], l[j] = l[j], l[i]
        return "".join(l)
    if k < 0.75:
        return p[:i]
    return p[:i] + r.choice("()[]{}|*+?\\^$-,0129ipPIs{}:") + p[i:]


CAP_INPUTS = [s for s in rxlib.strings_upto("abx", 4) if s] + ["aab", "aabb", "abab", "aaxab", "abxb", "aacab", "xaab"]


def c05_streams(ctx):
    r = ctx.rnd
    gs = []
    n = ctx.scale(1800, 25000)
    metas = "()[]{}|*+?\\^$-.,:0123456789abpPIsLu\n \U0001F600́"
    for i in range(n):
        k = r.random()
        xsd = r.random() < 0.15
        if k < 0.4:
            ast, p, alpha = gen_pattern(ctx, big_bounds=True, maxgroups=r.choice([3, 12]), xsd=xsd)
            kind = "valid"
        elif k < 0.75:
            ast, p, alpha = gen_pattern(ctx, big_bounds=True, xsd=xsd)
            for _ in range(r.randint(1, 2)):
                p = mutate(r, p)
            kind = "mutated"
            ast = None
        else:
            p = "".join(r.choice(metas) for _ in range(r.randint(0, 9)))
            alpha = "ab"
            kind = "random"
            ast = None
        f = r.choice(["", "", "i", "m", "s", "x", "q", "iq", "imsx", "z", ";g", "i;k", "\U0001F600"])
        s = rand_input(ctx, alpha + "()[", 7, ASTRAL if r.random() < 0.2 else ())
        repl = r.choice(["$0", "$1", "x", "\\", "$", "$a", "\\$", "$12", ""])
        d = "xs" if xsd else "xp"
        cs = [Case(p, f, "compile", "", dialect=d), Case(p, f, "is_match", s, dialect=d), Case(p, f, "replace", s, repl, dialect=d),
              Case(p, f, "tokenize", s, dialect=d), Case(p, f, "analyze", s, dialect=d), Case(p, f, "tokenize", "", dialect=d)]
        gs.append(Group(cs, {"features": features(ast) if ast else set(), "input": s, "kind": kind}))
    # capture-heavy valid patterns through analyze / replace (the group event stack, unwraps on capture positions)
    for i in range(ctx.scale(900, 12000)):
        ast, p, alpha = gen_pattern(ctx, maxgroups=r.choice([2, 4, 12]))
        f = r.choice(["", "i", "m"])
        for _ in range(2):
            s = rand_input(ctx, alpha, 7, "\n" if "m" in f else "")
            cs = [Case(p, f, "compile", ""), Case(p, f, "analyze", s), Case(p, f, "replace", s, "$1$2$3"), Case(p, f, "tokenize", s)]
            gs.append(Group(cs, {"features": features(ast), "input": s, "kind": "captures"}))
    # quantified groups with a fixed-length body, abandoned after the group was recorded, next to later groups
    # (capture snapshot / restore on failure; stale positions reaching analyze-string and the replacement)
    xs, qs, ts = ["a", "b", "ab", "[ab]", "."], ["+", "*", "{2}", "{1,2}", "?", "{2,}"], ["x", "c", "$", "b"]
    for i in range(ctx.scale(220, 3000)):
        p1 = "(%s)%s%s" % (r.choice(xs), r.choice(qs), r.choice(ts))
        p2 = "(%s)%s" % (r.choice(xs), r.choice(qs[:4] + ["+", "{2,}"]))
        p = r.choice(["%s|%s", "(?:%s)?%s", "(?:%s|%s)", "(?:%s|b)%s", "%s|a%s", "(?:%s)*%s"]) % (p1, p2)
        if r.random() < 0.3:
            p = r.choice(["(?:%s)+", "c|%s", "%s|(c)+"]) % p
        for s in r.sample(CAP_INPUTS, ctx.scale(6, 30)):
            cs = [Case(p, "", "compile", ""), Case(p, "", "analyze", s), Case(p, "", "replace", s, "[$1|$2|$3]"), Case(p, "", "tokenize", s), Case(p, "", "is_match", s)]
            gs.append(Group(cs, {"features": {"capture_in_rep", "capture_in_alt", "capture"}, "input": s, "kind": "quantified-groups"}))
    # the one-edit neighbourhood of valid patterns (truncations after '{n,', unbalanced brackets, swapped bounds …) and
    # sequences made only of no-op pieces inside groups / branches
    for p in props2.EDIT_SEEDS + ["(a{0}b{0,0})c", "x|^*$?", "((?:)(?:))a", "(a{0}(b{0}))c", "(?:x|a{0}^*)y", "(a{0}b{0})*c", "(^*)($?)a"]:
        variants = [p] + props2.edit_neighbourhood(r, p, ctx.scale(25, 250))
        for q in variants:
            cs = [Case(q, "", "compile", ""), Case(q, "", "is_match", "c"), Case(q, "", "replace", "ac", "$1"), Case(q, "", "tokenize", "ac"), Case(q, "", "analyze", "ac")]
            gs.append(Group(cs, {"features": set(), "input": "ac", "kind": "edit-neighbourhood"}))
    for fol in ["c", "[cd]", "c+", "(?:c|d)e", "(c)", "c{2}", "c?d", ".", "$", "\\d", "cc"]:
        for cnt in ["18446744073709551615", "18446744073709551614", "9223372036854775808"]:
            for body in ["(?:a|b)", "[ab]", "(a)", "."]:
                p = "^" + body + "{" + cnt + "}" + fol
                cs = [Case(p, "", "compile", ""), Case(p, "", "is_match", "ac"), Case(p, "", "replace", "ac", "x"), Case(p, "", "tokenize", "ac"), Case(p, "", "analyze", "ac")]
                gs.append(Group(cs, {"features": set(), "input": "ac", "kind": "saturated-position"}))
    # regression corpus (past failures run on every check) + back-references to groups that are re-entered in a loop
    corpus = [("(?:(a)\\1*a){2}", "aaab"), ("(?:.b?)*?(a)??\\1c", "abc"), ("(?:a{9223372036854775808})?", "a"), ("^(?:a|b)[cd]{2}", "ac"), ("a(b?)c", "ac"), ("(", "("), ("(?:^|a){18446744073709551615}?", "ba"), ("(?:b|^|.{3}){4000000000}?c", "abc"), ("^(?:a|b){18446744073709551615}c", "ac"), ("^(?:a|b){18446744073709551615}[cd]+e", "ac")]
    for p, s in corpus:
        f = "q" if p == "(" else ""
        cs = [Case(p, f, "compile", ""), Case(p, f, "is_match", s), Case(p, f, "replace", s, "$1"), Case(p, f, "tokenize", s), Case(p, f, "analyze", s)]
        gs.append(Group(cs, {"features": set(), "input": s, "kind": "regression"}))
    for i in range(ctx.scale(200, 3000)):
        x, y = r.choice("ab"), r.choice("ab")
        inner = r.choice(["(%s)\\1*%s", "(%s)\\1?%s", "(%s)??\\1%s", "(?:(%s)|b)\\1*%s", "(%s+)\\1*?%s", "(%s)(?:\\1|b)*%s"]) % (x, y)
        p = r.choice(["(?:%s){2}", "(?:%s)+", "(?:%s)*b", "(?:.b?)*?%s", "(?:%s){1,3}c", "(?:%s|b)+"]) % inner
        for s in r.sample(CAP_INPUTS, 5) + ["aaab", "abc", "aabaab"]:
            cs = [Case(p, "", "compile", ""), Case(p, "", "is_match", s), Case(p, "", "replace", s, "[$1]"), Case(p, "", "tokenize", s), Case(p, "", "analyze", s)]
            gs.append(Group(cs, {"features": {"backref", "capture_in_rep"}, "input": s, "kind": "backref-in-loop"}))
    # nesting depth (stack exhaustion is explored, not modelled): moderate depths must work
    for depth in ([50, 200] if ctx.quick() else [50, 200, 1000]):
        p = "(" * depth + "a" + ")" * depth
        gs.append(Group([Case(p, "", "is_match", "a")], {"features": set(), "input": "a", "kind": "deep"}))
    return gs


def c05_oracle(ctx, g):
    ctx.hist["kind:" + g.meta["kind"]] += 1
    out = []
    for c, a in zip(g.cases, g.impl):
        ctx.hist[c.api + ":" + (a.split(":")[0] if not a.startswith("ERR") else a)] += 1
        if a in ("PANIC", "ABORT") or a.startswith("ERR:Internal"):
            out.append(f"{c.api} on pattern {c.pattern!r} flags {c.flags!r} input {c.input!r} replacement {c.repl!r} ({c.dialect}): {a}")
    if g.impl[0] == "OK":
        ctx.distinct.add((g.cases[0].pattern, g.cases[0].flags))
    sample(ctx, g)
    return out[:1]


def c06_streams(ctx):
    r = ctx.rnd
    gs = []
    n = ctx.scale(2500, 30000)
    for i in range(n):
        ast, p, alpha = gen_pattern(ctx, big_bounds=(r.random() < 0.2))
        f = r.choice(["", "", "i", "m", "im"])
        s = rand_input(ctx, alpha, 8, "\n" if "m" in f else "")
        cs = [Case(p, f, "is_match", s), Case(p, f, "tokenize", s, limit=40), Case(p, f, "analyze", s, limit=40), Case(p, f, "replace", s, "-")]
        gs.append(Group(cs, {"features": features(ast), "input": s, "ast": ast}))
    # quantifiers over nullable / zero-width / first-attempt-failing bodies, empty back-references
    for p in ["(?:a?)*b", "(?:a*)*", "(?:a*)+b", "(?:^)*a", "(?:$|a)+b", "(?:a|ab)+?c", "(?:a|bb)+?c", "(?:^^)*?1", "(?:)*a", "(a?)\\1*b", "(?:a*?)*?b",
              "(?:(?:a?)+)+b", "(?:a|)+", "(?:a{0,2}){0,3}b", "(b*)\\1+a", "(?:\\n|^)*x",
              "(?:^|a)*?c", "x(?:a|$)+?c", "(a*)\\1*?c", "(?:^^)+?1", "(^)+?a", "a(?:$$){2,}?b", "(?:^|a)+?c", "(?:a|^){2,}?b", "(?:$)+?x", "(?:^|$)*?a",
              "(?:\\1|a)*?(b)c" if False else "(b)(?:\\1|a)*?c", "(?:^){2}?a", "(?:(?:^)+?a)+?b"]:
        for s in ["", "a", "aaaa", "ab", "cc", "c1", "abc", "aaab", "bc", "xa", "ba", "a\nc", "bcb"]:
            cs = [Case(p, "", "is_match", s), Case(p, "", "tokenize", s, limit=40), Case(p, "", "analyze", s, limit=40), Case(p, "", "replace", s, "-")]
            gs.append(Group(cs, {"features": {"rep_nullable_body"}, "input": s}))
    # a reluctant repeat whose body first consumes input and can only match zero-width afterwards: it stalls at a
    # position LATER than its first result, in front of a continuation that fails there but occurs further on
    for p in ["^(?:a|b?)*?c", "(?:a|b?)+?c", "^(b*)(?:a|\\1)*?c", "(?:a|b*)*?c", "(?:ab|c?)+?d", "x(?:a|b?)*?c", "(?:a|^|b?){1,}?c", "(?:[ab]|c??)*?d",
              "^(?:a|$|b?)*?c", "(?:a|(?:))+?c", "(?:a|b{0})+?c", "(?:(a)|b?)*?c\\1"]:
        for s in ["aaxc", "aaxac", "aadc", "xaaxc", "abxd", "aax", "ababxd", "a\nxc", "aaaaaaxc", "xc", "abcxd"]:
            cs = [Case(p, "", "is_match", s), Case(p, "", "tokenize", s, limit=40), Case(p, "", "analyze", s, limit=40), Case(p, "", "replace", s, "-")]
            gs.append(Group(cs, {"features": {"rep_nullable_body"}, "input": s}))
    return gs


def c06_oracle(ctx, g):
    out = []
    s = g.meta["input"]
    for c, a in zip(g.cases, g.impl):
        ctx.hist[c.api + ":" + a[:4]] += 1
        if a in ("HANG",):
            out.append(f"{c.api} does not terminate: pattern {c.pattern!r} flags {c.flags!r} input {c.input!r}")
        elif c.api == "tokenize" and a.startswith("OK:"):
            n = int(a.split(":")[1])
            if a.endswith("+MORE") or n > len(s) + 1:
                out.append(f"tokenize yields more than len+1 = {len(s) + 1} tokens: pattern {c.pattern!r} input {s!r}")
        elif c.api == "analyze" and a.startswith("OK:"):
            n = int(a.split(":")[1])
            if a.endswith("+MORE") or n > 2 * len(s) + 1:
                out.append(f"analyze yields more than 2*len+1 = {2 * len(s) + 1} entries: pattern {c.pattern!r} input {s!r}")
    if g.impl[0] in ("T", "F"):
        ctx.distinct.add((g.cases[0].pattern, g.cases[0].flags, s))
        sample(ctx, g)
    return out[:1]


# ------------------------------------------------------------------------------------------------
# C08 — optimisations never change a result


def shortcut_pattern(ctx, f=""):
    """patterns biased towards each shortcut"""
    r = ctx.rnd
    ast, p, alpha = gen_pattern(ctx)
    fe = features(ast)
    k = r.random()
    a = lambda: r.choice(alpha.replace("\n", "a"))
    if k < 0.15:
        p = a() + a() + p                                     # literal prefix
    elif k < 0.3:
        p = r.choice(["[ab]", "[^a]", "\\w", "."]) + p        # leading class
    elif k < 0.45:
        p = "^" + p                                           # start anchor
    elif k < 0.7:
        x = r.choice(["a", "b", "[ab]", "\\w", ".", "\\n", "\\s", "\\d", "x", "z", "é", "[x-z]", "\\p{Ll}", "\\p{Lu}", "[\\p{Ll}1]",
                      "(?:a{2})", "(?:[ab]{2})", "(?:(?:ab){2})", "(?:a{3})"])
        q = r.choice(["*", "+", "?", "{2}", "{1,3}", "*?", "+?", "{0,2}?"])
        y = r.choice(["a", "b", "[ab]", "c", "\\n", "$", "^", "\\w", "(?:a|b)", "b*", "(b)", "1", ".", "[^0-9]", "\\S", "x", "[^a]", "A", "B", "Ab", "[A-B]", "$\\nb", "^a"])
        if len(x) == 1 and x.isalpha() and r.random() < 0.15:
            # a choice whose branch is a multi-term sequence starting with the repeated character
            y = r.choice(["(?:%s[bc]|d)", "(?:d|%s(b))", "(?:%sb|%sc|d)", "(?:%s$|b)"]).replace("%s", x)
        if r.random() < 0.3:
            # a nullable term between the repeat and something that starts like the repeated term
            y = r.choice(["(?:b|)X", "(?:(?:bc|d)*|c)X", "(?:c?|d)X", "(b*|c)X", "(?:b|c*)X", "(?:^|c)X", "(?:c|$)X", "(c)?X", "(?:c{0,2}|d)X"]).replace("X", x)
        if "i" in f and x.isalpha() and r.random() < 0.4:
            y = x.upper() + r.choice(["", "b", "$"])          # the same letter in the other case
        if "i" in f and "{L" in x:
            y = r.choice(["A", "a", "B", "b"]) + r.choice(["", "$"])   # a literal whose case counterpart is in the (case-sensitive) class
        if "m" in f and r.random() < 0.3:
            x, y = r.choice(["\\n", "[^,]", "\\s"]), r.choice(["$\\nb", "$", "^a", "\\n"])
        anch = r.random() < 0.12
        if anch:
            # the repeat directly followed by an anchor that only holds where the repeat took nothing (^) / everything ($)
            y = r.choice(["^", "^", "$"]) + (x if len(x) == 1 and x != "." else "a") + r.choice(["", "b"])
        tail = r.choice(["", p])
        if not tail:
            fe = set()
        p = ("" if anch else r.choice(["", "x"])) + x + q + y + tail
    elif k < 0.8:
        p = p + a() * r.randint(3, 6)                         # long minimum length
    if k >= 0.45 and k < 0.7 and len(x) == 1:
        alpha = alpha + x * 3          # inputs rich in the repeated character
    return p, alpha, fe


def c08_streams(ctx):
    r = ctx.rnd
    gs = []
    n = ctx.scale(2500, 35000)
    for i in range(n):
        f = r.choice(FLAGSETS)
        p, alpha, fe = shortcut_pattern(ctx, f)
        for _ in range(2):
            s = rand_input(ctx, alpha + "1xzé", 8, "\n" if ("m" in f or r.random() < 0.3) else "")
            cs = []
            for mode in ("opt", "noopt"):
                cs += [Case(p, f, "is_match", s, mode=mode), Case(p, f, "replace", s, "<$0|$1>", mode=mode),
                       Case(p, f, "tokenize", s, mode=mode), Case(p, f, "analyze", s, mode=mode), Case(p, f, "compile", "", mode=mode)]
            gs.append(Group(cs, {"features": fe, "input": s}))
    five = [("is_match", ""), ("replace", "<$0|$1>"), ("tokenize", ""), ("analyze", ""), ("compile", "")]
    gs += prefix_groups(ctx, ctx.scale(120, 2000), five, modes=("opt", "noopt"))
    gs += line_groups(ctx, ctx.scale(120, 2000), five, modes=("opt", "noopt"))
    return gs


def c08_oracle(ctx, g):
    h = len(g.cases) // 2
    out = []
    for k in range(h):
        a, b = g.impl[k], g.impl[h + k]
        ctx.hist[g.cases[k].api + ":" + a[:3]] += 1
        if (a == "HANG" and g.model[k] != "HANG") or (b == "HANG" and g.model[h + k] != "HANG"):
            # the watchdog fired but the model finishes: catastrophic backtracking (wall clock), not non-termination
            ctx.hist["slow_not_compared"] += 1
            continue
        if a != b:
            c = g.cases[k]
            out.append(f"{c.api}({c.pattern!r}, flags {c.flags!r}, {c.input!r}): optimised {a[:80]!r}, with all optimisations off {b[:80]!r}")
    if g.impl[0] in ("T", "F"):
        ctx.distinct.add((g.cases[0].pattern, g.cases[0].flags, g.meta["input"]))
        sample(ctx, g)
    return out[:1]



# ------------------------------------------------------------------------------------------------
# C09 — class expressions denote their set algebra


def c09_streams(ctx):
    r = ctx.rnd
    gs = []
    n = ctx.scale(450, 4000)
    extra_chars = ["0", "9", " ", "\n", "\t", "-", "^", "]", "[", "\\", "A", "Z", "_", ":", ".", "é", "Σ", "σ", "Ж", "ж", "\U00010400", "\U00010428", "٣", " ", "퟿", "", "\U0010FFFF"]
    for i in range(n):
        alpha = r.choice(["abc", "abAB", "a-^b", "ab]\\", "azAZ09", "σΣαΑ", "жЖ", "ab\n"])
        g = Gen(r, alphabet=alpha)
        cls = g._cls(0)
        txt = rxlib.render_cls(cls)
        f = r.choice(["", "", "i"])
        use = r.random()
        if use < 0.6:
            pat, wrap = "^" + txt + "$", 1
        elif use < 0.8:
            pat, wrap = "^(?:" + txt + "){1}$", 1
        elif use < 0.9:
            pat, wrap = "^(" + txt + ")$", 1
        else:
            pat, wrap = "^" + txt + "+$", 2          # under a quantifier: two members
        chars = set(alpha) | set(extra_chars)
        for it in cls[2] + (cls[3][2] if cls[3] else []):
            for ch in it[1:]:
                if len(ch) == 1:
                    for d in (-1, 0, 1):
                        o = ord(ch) + d
                        if 0 <= o < 0x110000 and not (0xD800 <= o < 0xE000):
                            chars.add(chr(o))
        if not ctx.quick():
            for _ in range(40):
                o = r.randrange(0x110000)
                if not (0xD800 <= o < 0xE000):
                    chars.add(chr(o))
        chars = sorted(chars)
        cs = [Case(pat, f, "is_match", c * wrap) for c in chars]
        gs.append(Group(cs, {"features": {"negated_class"} if cls[1] else set(), "cls": cls, "flags": f, "chars": chars, "text": txt}))
    return gs + c09_hyphen_groups(ctx)


HYPHEN_CLASSES = [
    ("[a--[b]]", ("cls", False, [("c", "a"), ("c", "-")], ("cls", False, [("c", "b")], None))),
    ("[--[a]]", ("cls", False, [("c", "-")], ("cls", False, [("c", "a")], None))),
    ("[a-z--[m]]", ("cls", False, [("r", "a", "z"), ("c", "-")], ("cls", False, [("c", "m")], None))),
    ("[^a--[b]]", ("cls", True, [("c", "a"), ("c", "-")], ("cls", False, [("c", "b")], None))),
    ("[\\p{Nd}\\P{Nd}]", ("cls", False, [("e", "p{Nd}"), ("e", "P{Nd}")], None)),
    ("[^\\p{L}\\P{L}]", ("cls", True, [("e", "p{L}"), ("e", "P{L}")], None)),
    ("[\\p{L}-[\\P{L}]]", ("cls", False, [("e", "p{L}")], ("cls", False, [("e", "P{L}")], None))),
    ("[\\P{Lu}a-[\\p{Lu}]]", ("cls", False, [("e", "P{Lu}"), ("c", "a")], ("cls", False, [("e", "p{Lu}")], None))),
    ("[a-]", ("cls", False, [("c", "a"), ("c", "-")], None)),
    ("[-a]", ("cls", False, [("c", "-"), ("c", "a")], None)),
    ("[a-c-]", ("cls", False, [("r", "a", "c"), ("c", "-")], None)),
    ("[\\--a]", ("cls", False, [("r", "-", "a")], None)),
    ("[a\\-c]", ("cls", False, [("c", "a"), ("c", "-"), ("c", "c")], None)),
    ("[\\^a]", ("cls", False, [("c", "^"), ("c", "a")], None)),
    ("[a^]", ("cls", False, [("c", "a"), ("c", "^")], None)),
    ("[\\[\\]]", ("cls", False, [("c", "["), ("c", "]")], None)),
]


def c09_hyphen_groups(ctx):
    gs = []
    chars = sorted(set("ab-+,mz^[]c\\,.`A5 ") | {chr(ord(c) + d) for c in "a-+z" for d in (-1, 1)})
    for txt, cls in HYPHEN_CLASSES:
        for f in ("", "i"):
            cs = [Case("^" + txt + "$", f, "is_match", ch) for ch in chars]
            gs.append(Group(cs, {"features": {"negated_class"} if cls[1] else set(), "cls": cls, "flags": f, "chars": chars, "text": txt}))
    return gs


def c09_oracle(ctx, g):
    out = []
    cls, f = g.meta["cls"], g.meta["flags"]
    if g.impl and g.impl[0].startswith("ERR"):
        ctx.hist["rejected"] += 1
        return [f"generated class expression {g.meta['text']!r} is rejected: {g.impl[0]}"]
    for c, ch, a in zip(g.cases, g.meta["chars"], g.impl):
        if a not in ("T", "F"):
            continue
        try:
            want = refmatch.cls_member(cls, ch, "i" in f)
        except Exception:
            continue
        # Python's unicodedata is Unicode 14: skip characters it does not know when categories are involved
        ctx.hist["member" if want else "nonmember"] += 1
        ctx.distinct.add((g.meta["text"], f, ch))
        if (a == "T") != want:
            import unicodedata
            if unicodedata.category(ch) == "Cn" and any(it[0] == "e" for it in cls[2] + (cls[3][2] if cls[3] else [])):
                ctx.hist["skipped_unassigned_in_python"] += 1
                continue
            out.append(f"{g.meta['text']!r} flags {f!r}: character U+{ord(ch):04X} is " + ("" if want else "not ") +
                       f"a member by set algebra, is_match({c.pattern!r}) says {a}")
            break
    if len(ctx.samples) < 8:
        ctx.samples.append({"class": g.meta["text"], "flags": f, "chars_tested": len(g.cases), "members": sum(1 for a in g.impl if a == "T")})
    return out


PLUGINS = {
    "C01": {"streams": c01_streams, "oracle": c01_oracle, "regroup": regroup_same_apis},
    "C02": {"streams": c02_streams, "oracle": c02_oracle, "regroup": regroup_same_apis},
    "C03": {"streams": c03_streams, "oracle": c03_oracle, "regroup": regroup_same_apis},
    "C04": {"streams": c04_streams, "oracle": c04_oracle, "regroup": c04_regroup},
    "C05": {"streams": c05_streams, "oracle": c05_oracle, "regroup": regroup_same_apis},
    "C06": {"streams": c06_streams, "oracle": c06_oracle, "regroup": regroup_same_apis},
    "C08": {"streams": c08_streams, "oracle": c08_oracle, "regroup": regroup_same_apis},
    "C09": {"streams": c09_streams, "oracle": c09_oracle},
    "C15": {"streams": c15_streams, "oracle": c15_oracle, "regroup": c15_regroup},
}

import props2  # noqa: E402  (streams and oracles for the remaining properties)
PLUGINS.update(props2.PLUGINS2)
