// Parse `format!("{:?}", regex)` (Regex derives Debug) into a generic tree and print the compiled
// program as an S-expression.  No hook into regexml is needed for this.
use std::collections::BTreeMap;

#[derive(Debug, Clone)]
pub enum V {
    Num(u128),
    Chr(u32),
    Str(String),
    List(Vec<V>),
    Ident(String),
    Struct(String, BTreeMap<String, V>),
    Tuple(String, Vec<V>),
}

struct P<'a> {
    t: &'a [char],
    i: usize,
}

impl<'a> P<'a> {
    fn ws(&mut self) {
        while self.i < self.t.len() && (self.t[self.i] == ' ' || self.t[self.i] == '\n') {
            self.i += 1;
        }
    }
    fn peek(&self) -> Option<char> {
        self.t.get(self.i).copied()
    }
    fn parse_char_escape(&mut self) -> u32 {
        // after a backslash
        let e = self.t[self.i];
        self.i += 1;
        match e {
            'n' => 10,
            'r' => 13,
            't' => 9,
            '\\' => 92,
            '\'' => 39,
            '"' => 34,
            '0' => 0,
            'u' => {
                // \u{XXXX}
                assert_eq!(self.t[self.i], '{');
                self.i += 1;
                let mut v = 0u32;
                while self.t[self.i] != '}' {
                    v = v * 16 + self.t[self.i].to_digit(16).unwrap();
                    self.i += 1;
                }
                self.i += 1;
                v
            }
            other => other as u32,
        }
    }
    fn parse(&mut self) -> V {
        self.ws();
        let c = self.peek().expect("eof");
        if c == '[' {
            self.i += 1;
            let mut out = Vec::new();
            loop {
                self.ws();
                if self.peek() == Some(']') {
                    self.i += 1;
                    return V::List(out);
                }
                out.push(self.parse());
                self.ws();
                if self.peek() == Some(',') {
                    self.i += 1;
                }
            }
        }
        if c == '\'' {
            self.i += 1;
            let v = if self.t[self.i] == '\\' {
                self.i += 1;
                self.parse_char_escape()
            } else {
                let v = self.t[self.i] as u32;
                self.i += 1;
                v
            };
            assert_eq!(self.t[self.i], '\'');
            self.i += 1;
            return V::Chr(v);
        }
        if c == '"' {
            self.i += 1;
            let mut s = String::new();
            loop {
                let ch = self.t[self.i];
                self.i += 1;
                if ch == '"' {
                    break;
                }
                if ch == '\\' {
                    let v = self.parse_char_escape();
                    s.push(char::from_u32(v).unwrap_or('?'));
                } else {
                    s.push(ch);
                }
            }
            return V::Str(s);
        }
        if c.is_ascii_digit() {
            let mut v: u128 = 0;
            while let Some(d) = self.peek().and_then(|c| c.to_digit(10)) {
                v = v * 10 + d as u128;
                self.i += 1;
            }
            return V::Num(v);
        }
        // identifier
        let st = self.i;
        while let Some(ch) = self.peek() {
            if ch.is_alphanumeric() || ch == '_' {
                self.i += 1;
            } else {
                break;
            }
        }
        let name: String = self.t[st..self.i].iter().collect();
        assert!(!name.is_empty(), "unexpected char {:?} at {}", c, self.i);
        self.ws();
        if self.peek() == Some('{') {
            self.i += 1;
            let mut d = BTreeMap::new();
            loop {
                self.ws();
                if self.peek() == Some('}') {
                    self.i += 1;
                    return V::Struct(name, d);
                }
                let ks = self.i;
                while self.t[self.i] != ':' {
                    self.i += 1;
                }
                let key: String = self.t[ks..self.i].iter().collect::<String>().trim().to_string();
                self.i += 1;
                let v = self.parse();
                d.insert(key, v);
                self.ws();
                if self.peek() == Some(',') {
                    self.i += 1;
                }
            }
        }
        if self.peek() == Some('(') {
            self.i += 1;
            let mut args = Vec::new();
            loop {
                self.ws();
                if self.peek() == Some(')') {
                    self.i += 1;
                    return V::Tuple(name, args);
                }
                args.push(self.parse());
                self.ws();
                if self.peek() == Some(',') {
                    self.i += 1;
                }
            }
        }
        V::Ident(name)
    }
}

pub fn parse_debug(s: &str) -> V {
    let t: Vec<char> = s.chars().collect();
    let mut p = P { t: &t, i: 0 };
    p.parse()
}

fn field<'a>(v: &'a V, k: &str) -> &'a V {
    match v {
        V::Struct(_, d) => d.get(k).unwrap_or_else(|| panic!("no field {}", k)),
        _ => panic!("not a struct: {:?} (field {})", v, k),
    }
}
fn num(v: &V) -> u128 {
    match v {
        V::Num(n) => *n,
        _ => panic!("not a number {:?}", v),
    }
}
fn list(v: &V) -> &Vec<V> {
    match v {
        V::List(l) => l,
        _ => panic!("not a list {:?}", v),
    }
}
fn tuple0(v: &V) -> &V {
    match v {
        V::Tuple(_, a) => &a[0],
        _ => panic!("not a tuple {:?}", v),
    }
}
fn chars(v: &V) -> String {
    list(v)
        .iter()
        .map(|c| match c {
            V::Chr(x) => x.to_string(),
            _ => panic!("not a char"),
        })
        .collect::<Vec<_>>()
        .join(" ")
}
fn boolv(v: &V) -> bool {
    matches!(v, V::Ident(s) if s == "true")
}

/// CharacterClass(CodePointInversionList { inv_list: ZeroVec([..]), size: n })
fn invlist(v: &V) -> String {
    let cpil = tuple0(v);
    let il = field(cpil, "inv_list");
    let inner = match il {
        V::Tuple(_, a) => &a[0],
        other => other,
    };
    // ZeroVec([..]) prints as ZeroVec([a, b, ...])
    let l = match inner {
        V::List(l) => l.clone(),
        V::Tuple(_, a) => list(&a[0]).clone(),
        _ => panic!("inv_list shape {:?}", inner),
    };
    l.iter().map(|x| num(x).to_string()).collect::<Vec<_>>().join(" ")
}

fn op_sexp(v: &V, ctr: &mut u64) -> String {
    let (name, inner) = match v {
        V::Tuple(n, a) => (n.as_str(), a.get(0)),
        V::Ident(n) => (n.as_str(), None),
        _ => panic!("op shape {:?}", v),
    };
    match name {
        "Bol" => "(bol)".into(),
        "Eol" => "(eol)".into(),
        "Nothing" => "(nothing)".into(),
        "EndProgram" => "(end)".into(),
        "Atom" => format!("(atom {})", chars(field(inner.unwrap(), "atom"))),
        "CharClass" => format!("(cls {})", invlist(field(inner.unwrap(), "character_class"))),
        "BackReference" => format!("(backref {})", num(field(inner.unwrap(), "group_nr"))),
        "Capture" => {
            let i = inner.unwrap();
            format!("(capture {} {})", num(field(i, "group_nr")), op_sexp(field(i, "child_op"), ctr))
        }
        "Choice" => {
            let bs: Vec<String> = list(field(inner.unwrap(), "branches")).iter().map(|b| op_sexp(b, ctr)).collect();
            format!("(choice {})", bs.join(" "))
        }
        "Sequence" => {
            let bs: Vec<String> = list(field(inner.unwrap(), "operations")).iter().map(|b| op_sexp(b, ctr)).collect();
            format!("(seq {})", bs.join(" "))
        }
        "Repeat" => {
            let i = inner.unwrap();
            *ctr += 1;
            let id = *ctr;
            let c = op_sexp(field(i, "operation"), ctr);
            format!(
                "(rep {} {} {} {} {})",
                id,
                c,
                num(field(i, "min")),
                num(field(i, "max")),
                if boolv(field(i, "greedy")) { 1 } else { 0 }
            )
        }
        "GreedyFixed" | "ReluctantFixed" => {
            let i = inner.unwrap();
            let c = op_sexp(field(i, "operation"), ctr);
            format!(
                "({} {} {} {} {})",
                if name == "GreedyFixed" { "gfixed" } else { "rfixed" },
                c,
                num(field(i, "min")),
                num(field(i, "max")),
                num(field(i, "len"))
            )
        }
        "UnambiguousRepeat" => {
            let i = inner.unwrap();
            let c = op_sexp(field(i, "operation"), ctr);
            format!("(unamb {} {} {})", c, num(field(i, "min")), num(field(i, "max")))
        }
        other => panic!("unknown op {}", other),
    }
}

/// Regex { re_program: ReProgram { .. }, matches_empty_string: b }
pub fn dump_program(debug: &str) -> String {
    let v = parse_debug(debug);
    let prog = field(&v, "re_program");
    let flags = field(prog, "flags");
    let mut fl = String::new();
    for (k, ch) in [
        ("case_independent", 'i'),
        ("multi_line", 'm'),
        ("single_line", 's'),
        ("allow_whitespace", 'x'),
        ("literal", 'q'),
    ] {
        if boolv(field(flags, k)) {
            fl.push(ch);
        }
    }
    let xsd = matches!(field(flags, "language"), V::Ident(s) if s == "XSD");
    let mut ctr = 0u64;
    let op = op_sexp(field(prog, "operation"), &mut ctr);
    let of = num(field(prog, "optimization_flags"));
    let maxp = match field(prog, "max_parens") {
        V::Tuple(_, a) => num(&a[0]),
        _ => 0,
    };
    let mut out = String::new();
    out.push_str(&format!(
        "(prog (flags {}) (xsd {}) (nullable {}) (maxparens {}) (hasbackrefs {}) (hasbol {}) (minlen {})",
        if fl.is_empty() { "-" } else { &fl },
        if xsd { 1 } else { 0 },
        if boolv(field(&v, "matches_empty_string")) { 1 } else { 0 },
        maxp,
        of & 1,
        (of >> 1) & 1,
        num(field(prog, "minimum_length"))
    ));
    match field(prog, "prefix") {
        V::Tuple(_, a) => out.push_str(&format!(" (prefix {})", chars(&a[0]))),
        _ => {}
    }
    match field(prog, "initial_char_class") {
        V::Tuple(_, a) => out.push_str(&format!(" (icc {})", invlist(&a[0]))),
        _ => {}
    }
    for pc in list(field(prog, "preconditions")) {
        ctr = (ctr / 1000 + 1) * 1000;
        let fp = match field(pc, "fixed_position") {
            V::Tuple(_, a) => num(&a[0]).to_string(),
            _ => "none".to_string(),
        };
        out.push_str(&format!(
            " (pre {} {} {})",
            op_sexp(field(pc, "operation"), &mut ctr),
            fp,
            num(field(pc, "min_position"))
        ));
    }
    out.push_str(&format!(" (pattern {})", chars(field(prog, "pattern"))));
    out.push_str(&format!(" (op {}))", op));
    out
}
