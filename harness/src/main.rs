// rxh — correspondence harness for regexml.
//
//   rxh serve [timeout_ms]   supervisor: reads request lines on stdin, runs each in a worker
//                            process with a wall-clock deadline, prints one answer line per request
//   rxh worker               the worker loop (same protocol, no watchdog)
//   rxh dump-icu             dumps the ICU data that regexml links (categories, case data)
//
// Request (TSV):  id  dialect(xp|xs)  mode(opt|noopt)  pattern  flags  api  input  repl  limit
// strings are comma-separated decimal code points ("" = empty string).
// Answer:  id <TAB> answer
use regexml::{AnalyzeEntry, MatchEntry, Regex};
use std::io::{BufRead, BufReader, Write};
use std::process::{Child, ChildStdin, Command, Stdio};
use std::sync::mpsc;
use std::time::Duration;

mod dbg;
mod icu;
mod hist;

fn uncps(s: &str) -> Option<String> {
    let mut out = String::new();
    for x in s.split(',') {
        if x.is_empty() {
            continue;
        }
        let v: u32 = x.parse().ok()?;
        out.push(char::from_u32(v)?);
    }
    Some(out)
}

pub fn cps(s: &str) -> String {
    let mut out = String::new();
    for (i, c) in s.chars().enumerate() {
        if i > 0 {
            out.push(',');
        }
        out.push_str(&(c as u32).to_string());
    }
    out
}

fn err_name(e: &regexml::Error) -> &'static str {
    match e {
        regexml::Error::Internal => "ERR:Internal",
        regexml::Error::InvalidFlags(_) => "ERR:InvalidFlags",
        regexml::Error::Syntax(_) => "ERR:Syntax",
        regexml::Error::MatchesEmptyString => "ERR:MatchesEmptyString",
        regexml::Error::InvalidReplacementString(_) => "ERR:InvalidReplacementString",
    }
}

pub fn compile(dialect: &str, mode: &str, pattern: &str, flags: &str) -> Result<Regex, regexml::Error> {
    if mode == "noopt" {
        #[cfg(regexml_verif)]
        {
            return Regex::verif_new(pattern, flags, dialect == "xs", false);
        }
        #[cfg(not(regexml_verif))]
        {
            panic!("noopt requested but hook H1 not present");
        }
    }
    if dialect == "xs" {
        Regex::xsd(pattern, flags)
    } else {
        Regex::xpath(pattern, flags)
    }
}

fn fmt_match_entries(es: &[MatchEntry], out: &mut String) {
    for (i, e) in es.iter().enumerate() {
        if i > 0 {
            out.push(' ');
        }
        match e {
            MatchEntry::String(s) => {
                out.push_str("S:");
                out.push_str(&cps(s));
            }
            MatchEntry::Group { nr, value } => {
                out.push_str(&format!("G{}(", nr));
                fmt_match_entries(value, out);
                out.push(')');
            }
        }
    }
}

pub fn fmt_analyze_entry(e: &AnalyzeEntry, out: &mut String) {
    match e {
        AnalyzeEntry::NonMatch(s) => {
            out.push_str("N:");
            out.push_str(&cps(s));
        }
        AnalyzeEntry::Match(es) => {
            out.push_str("M(");
            fmt_match_entries(es, out);
            out.push(')');
        }
    }
}

pub fn run_api(re: &Regex, api: &str, input: &str, repl: &str, limit: usize) -> String {
    match api {
        "compile" => "OK".to_string(),
        "dump" => dbg::dump_program(&format!("{:?}", re)),
        "is_match" => {
            if re.is_match(input) {
                "T".into()
            } else {
                "F".into()
            }
        }
        "replace" => match re.replace_all(input, repl) {
            Ok(s) => format!("OK:{}", cps(&s)),
            Err(e) => err_name(&e).to_string(),
        },
        "tokenize" => match re.tokenize(input) {
            Ok(it) => {
                let mut toks = Vec::new();
                let mut more = false;
                for t in it {
                    if toks.len() >= limit {
                        more = true;
                        break;
                    }
                    toks.push(cps(&t));
                }
                format!("OK:{}:{}{}", toks.len(), toks.join("|"), if more { "+MORE" } else { "" })
            }
            Err(e) => err_name(&e).to_string(),
        },
        "analyze" => match re.analyze(input) {
            Ok(it) => {
                let mut out = String::from("OK:");
                let mut n = 0;
                let mut more = false;
                let mut body = String::new();
                for e in it {
                    if n >= limit {
                        more = true;
                        break;
                    }
                    if n > 0 {
                        body.push(';');
                    }
                    fmt_analyze_entry(&e, &mut body);
                    n += 1;
                }
                out.push_str(&format!("{}:{}{}", n, body, if more { "+MORE" } else { "" }));
                out
            }
            Err(e) => err_name(&e).to_string(),
        },
        _ => "BADAPI".into(),
    }
}

fn handle(line: &str) -> String {
    let f: Vec<&str> = line.split('\t').collect();
    if f.len() < 9 {
        return format!("{}\tBADREQ", f.first().unwrap_or(&""));
    }
    let id = f[0];
    if f[5] == "history" {
        return format!("{}\t{}", id, hist::run_history(f[1], f[2], f[6], f[7]));
    }
    let (pattern, flags, input, repl) = match (uncps(f[3]), uncps(f[4]), uncps(f[6]), uncps(f[7])) {
        (Some(a), Some(b), Some(c), Some(d)) => (a, b, c, d),
        _ => return format!("{}\tBADREQ", id),
    };
    let limit: usize = f[8].parse().unwrap_or(1000);
    let dialect = f[1].to_string();
    let mode = f[2].to_string();
    let api = f[5].to_string();
    let r = std::panic::catch_unwind(move || match compile(&dialect, &mode, &pattern, &flags) {
        Err(e) => err_name(&e).to_string(),
        Ok(re) => {
            let r2 = std::panic::catch_unwind(std::panic::AssertUnwindSafe(|| run_api(&re, &api, &input, &repl, limit)));
            match r2 {
                Ok(s) => s,
                Err(_) => "PANIC".to_string(),
            }
        }
    });
    match r {
        Ok(s) => format!("{}\t{}", id, s),
        Err(_) => format!("{}\tPANIC:compile", id),
    }
}

fn worker() {
    std::panic::set_hook(Box::new(|_| {}));
    let stdin = std::io::stdin();
    let stdout = std::io::stdout();
    for line in stdin.lock().lines() {
        let line = match line {
            Ok(l) => l,
            Err(_) => break,
        };
        let ans = handle(&line);
        let mut o = stdout.lock();
        let _ = writeln!(o, "{}", ans);
        let _ = o.flush();
    }
}

struct W {
    child: Child,
    stdin: ChildStdin,
    rx: mpsc::Receiver<Option<String>>,
}

fn spawn_worker() -> W {
    let exe = std::env::current_exe().unwrap();
    let mut child = Command::new(exe)
        .arg("worker")
        .stdin(Stdio::piped())
        .stdout(Stdio::piped())
        .stderr(Stdio::null())
        .spawn()
        .expect("spawn worker");
    let stdin = child.stdin.take().unwrap();
    let stdout = child.stdout.take().unwrap();
    let (tx, rx) = mpsc::channel();
    std::thread::spawn(move || {
        let rd = BufReader::new(stdout);
        for l in rd.lines() {
            match l {
                Ok(l) => {
                    if tx.send(Some(l)).is_err() {
                        return;
                    }
                }
                Err(_) => break,
            }
        }
        let _ = tx.send(None);
    });
    W { child, stdin, rx }
}

fn serve(timeout_ms: u64) {
    let stdin = std::io::stdin();
    let stdout = std::io::stdout();
    let mut w = spawn_worker();
    for line in stdin.lock().lines() {
        let line = match line {
            Ok(l) => l,
            Err(_) => break,
        };
        if line.is_empty() {
            continue;
        }
        let id = line.split('\t').next().unwrap_or("").to_string();
        let ok = writeln!(w.stdin, "{}", line).and_then(|_| w.stdin.flush()).is_ok();
        let ans = if !ok {
            None
        } else {
            match w.rx.recv_timeout(Duration::from_millis(timeout_ms)) {
                Ok(Some(l)) => Some(l),
                Ok(None) => Some(format!("{}\tABORT", id)),
                Err(mpsc::RecvTimeoutError::Timeout) => Some(format!("{}\tHANG", id)),
                Err(_) => Some(format!("{}\tABORT", id)),
            }
        };
        let ans = ans.unwrap_or_else(|| format!("{}\tABORT", id));
        let bad = ans.ends_with("\tHANG") || ans.ends_with("\tABORT");
        {
            let mut o = stdout.lock();
            let _ = writeln!(o, "{}", ans);
            let _ = o.flush();
        }
        if bad {
            let _ = w.child.kill();
            let _ = w.child.wait();
            w = spawn_worker();
        }
    }
    let _ = w.child.kill();
    let _ = w.child.wait();
}

fn main() {
    let args: Vec<String> = std::env::args().collect();
    match args.get(1).map(|s| s.as_str()) {
        Some("worker") => worker(),
        Some("serve") => {
            let t = args.get(2).and_then(|s| s.parse().ok()).unwrap_or(3000);
            serve(t)
        }
        Some("dump-icu") => icu::dump(),
        Some("send-sync") => {
            fn assert_send_sync<T: Send + Sync>() {}
            assert_send_sync::<Regex>();
            println!("Regex: Send + Sync");
        }
        _ => {
            eprintln!("usage: rxh serve [timeout_ms] | worker | dump-icu | send-sync");
            std::process::exit(2);
        }
    }
}
