// Dump the ICU data actually linked into regexml (same crate versions, compiled data):
//   gc <Name> a b a b ...        inversion list (half-open ranges) of every GeneralCategory value
//   grp <Name> a b ...           inversion list of every GeneralCategoryGroup used by category.rs
//   lower c l                    simple_lowercase(c) = l for every scalar with l != c
//   closure c x y z ...          add_case_closure_to(c) for every scalar with a non-empty result
use icu_casemap::{CaseMapCloser, CaseMapper};
use icu_collections::codepointinvlist::CodePointInversionListBuilder;
use icu_properties::{maps, sets, GeneralCategory, GeneralCategoryGroup};

pub fn dump() {
    use GeneralCategory as G;
    let cats: [(&str, G); 30] = [
        ("Cn", G::Unassigned), ("Lu", G::UppercaseLetter), ("Ll", G::LowercaseLetter), ("Lt", G::TitlecaseLetter),
        ("Lm", G::ModifierLetter), ("Lo", G::OtherLetter), ("Mn", G::NonspacingMark), ("Mc", G::SpacingMark),
        ("Me", G::EnclosingMark), ("Nd", G::DecimalNumber), ("Nl", G::LetterNumber), ("No", G::OtherNumber),
        ("Zs", G::SpaceSeparator), ("Zl", G::LineSeparator), ("Zp", G::ParagraphSeparator), ("Cc", G::Control),
        ("Cf", G::Format), ("Co", G::PrivateUse), ("Cs", G::Surrogate), ("Pd", G::DashPunctuation),
        ("Ps", G::OpenPunctuation), ("Pe", G::ClosePunctuation), ("Pc", G::ConnectorPunctuation),
        ("Po", G::OtherPunctuation), ("Sm", G::MathSymbol), ("Sc", G::CurrencySymbol), ("Sk", G::ModifierSymbol),
        ("So", G::OtherSymbol), ("Pi", G::InitialPunctuation), ("Pf", G::FinalPunctuation),
    ];
    for (n, g) in cats {
        let s = maps::general_category().get_set_for_value(g);
        let il = s.to_code_point_inversion_list();
        let mut line = format!("gc {}", n);
        for r in il.iter_ranges() {
            line.push_str(&format!(" {} {}", r.start(), r.end() + 1));
        }
        println!("{}", line);
    }
    use GeneralCategoryGroup as GG;
    let grps: [(&str, GG); 36] = [
        ("L", GG::Letter), ("Lu", GG::UppercaseLetter), ("Ll", GG::LowercaseLetter), ("Lt", GG::TitlecaseLetter),
        ("Lm", GG::ModifierLetter), ("Lo", GG::OtherLetter), ("M", GG::Mark), ("Mn", GG::NonspacingMark),
        ("Mc", GG::SpacingMark), ("Me", GG::EnclosingMark), ("N", GG::Number), ("Nd", GG::DecimalNumber),
        ("Nl", GG::LetterNumber), ("No", GG::OtherNumber), ("P", GG::Punctuation), ("Pc", GG::ConnectorPunctuation),
        ("Pd", GG::DashPunctuation), ("Ps", GG::OpenPunctuation), ("Pe", GG::ClosePunctuation),
        ("Pi", GG::InitialPunctuation), ("Pf", GG::FinalPunctuation), ("Po", GG::OtherPunctuation),
        ("Z", GG::Separator), ("Zs", GG::SpaceSeparator), ("Zl", GG::LineSeparator), ("Zp", GG::ParagraphSeparator),
        ("S", GG::Symbol), ("Sm", GG::MathSymbol), ("Sc", GG::CurrencySymbol), ("Sk", GG::ModifierSymbol),
        ("So", GG::OtherSymbol), ("C", GG::Other), ("Cc", GG::Control), ("Cf", GG::Format), ("Co", GG::PrivateUse),
        ("Cn", GG::Unassigned),
    ];
    for (n, g) in grps {
        let set = sets::for_general_category_group(g);
        let il = set.to_code_point_inversion_list();
        let mut line = format!("grp {}", n);
        for r in il.iter_ranges() {
            line.push_str(&format!(" {} {}", r.start(), r.end() + 1));
        }
        println!("{}", line);
    }
    let cm = CaseMapper::new();
    let cc = CaseMapCloser::new();
    for cp in 0u32..0x110000 {
        if let Some(c) = char::from_u32(cp) {
            let l = cm.simple_lowercase(c);
            if l != c {
                println!("lower {} {}", cp, l as u32);
            }
            let mut b = CodePointInversionListBuilder::new();
            cc.add_case_closure_to(c, &mut b);
            let il = b.build();
            if il.size() > 0 {
                let mut line = format!("closure {}", cp);
                for r in il.iter_ranges() {
                    for x in *r.start()..=*r.end() {
                        line.push_str(&format!(" {}", x));
                    }
                }
                println!("{}", line);
            }
        }
    }
}
