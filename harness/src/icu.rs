// Dump the ICU data actually linked into regexml (same crate versions, compiled data):
//   gc <Name> a b a b ...        inversion list (half-open ranges) of every GeneralCategory value
//   grp <Name> a b ...           inversion list of every GeneralCategoryGroup used by category.rs
//   lower c l                    simple_lowercase(c) = l for every scalar with l != c
//   closure c x y z ...          add_case_closure_to(c) for every scalar with a non-empty result
use icu_casemap::{CaseMapCloser, CaseMapper};
use icu_collections::codepointinvlist::CodePointInversionListBuilder;
use icu_properties::{maps, sets, GeneralCategory, GeneralCategoryGroup};

pub fn dump() {
    use GeneralCategory as G;
    let cats: [(&str, G); 30] = [
        ("Cn", G::Unassigned), ("Lu", G::UppercaseLetter), ("Ll", G::LowercaseLetter), ("Lt", G::TitlecaseLetter),
        ("Lm", G::ModifierLetter), ("Lo", G::OtherLetter), ("Mn", G::NonspacingMark), ("Mc", G::SpacingMark),
        ("Me", G::EnclosingMark), ("Nd", G::DecimalNumber), ("Nl", G::LetterNumber), ("No", G::OtherNumber),
        ("Zs", G::SpaceSeparator), ("Zl", G::LineSeparator), ("Zp", G::ParagraphSeparator), ("Cc", G::Control),
        ("Cf", G::Format), ("Co", G::PrivateUse), ("Cs", G::Surrogate), ("Pd", G::DashPunctuation),
        ("Ps", G::OpenPunctuation), ("Pe", G::ClosePunctuation), ("Pc", G::ConnectorPunctuation),
        ("Po", G::OtherPunctuation), ("Sm", G::MathSymbol), ("Sc", G::CurrencySymbol), ("Sk", G::ModifierSymbol),
        ("So", G::OtherSymbol), ("Pi", G::InitialPunctuation), ("Pf", G::FinalPunctuation),
    ];
    for (n, g) in cats {
        let s = maps::general_category().get_set_for_value(g);
        let il = s.to_code_point_inversion_list();
        let mut line = format!("gc {} {:?}", n, g);
        for r in il.iter_ranges() {
            line.push_str(&format!(" {} {}", r.start(), r.end() + 1));
        }
        println!("{}", line);
    }
    use GeneralCategoryGroup as GG;
    let grps: [(&str, GG); 36] = [
        ("Letter", GG::Letter), ("UppercaseLetter", GG::UppercaseLetter), ("LowercaseLetter", GG::LowercaseLetter), ("TitlecaseLetter", GG::TitlecaseLetter),
        ("ModifierLetter", GG::ModifierLetter), ("OtherLetter", GG::OtherLetter), ("Mark", GG::Mark), ("NonspacingMark", GG::NonspacingMark),
        ("SpacingMark", GG::SpacingMark), ("EnclosingMark", GG::EnclosingMark), ("Number", GG::Number), ("DecimalNumber", GG::DecimalNumber),
        ("LetterNumber", GG::LetterNumber), ("OtherNumber", GG::OtherNumber), ("Punctuation", GG::Punctuation), ("ConnectorPunctuation", GG::ConnectorPunctuation),
        ("DashPunctuation", GG::DashPunctuation), ("OpenPunctuation", GG::OpenPunctuation), ("ClosePunctuation", GG::ClosePunctuation),
        ("InitialPunctuation", GG::InitialPunctuation), ("FinalPunctuation", GG::FinalPunctuation), ("OtherPunctuation", GG::OtherPunctuation),
        ("Separator", GG::Separator), ("SpaceSeparator", GG::SpaceSeparator), ("LineSeparator", GG::LineSeparator), ("ParagraphSeparator", GG::ParagraphSeparator),
        ("Symbol", GG::Symbol), ("MathSymbol", GG::MathSymbol), ("CurrencySymbol", GG::CurrencySymbol), ("ModifierSymbol", GG::ModifierSymbol),
        ("OtherSymbol", GG::OtherSymbol), ("Other", GG::Other), ("Control", GG::Control), ("Format", GG::Format), ("PrivateUse", GG::PrivateUse),
        ("Unassigned", GG::Unassigned),
    ];
    for (n, g) in grps {
        let set = sets::for_general_category_group(g);
        let il = set.to_code_point_inversion_list();
        let mut line = format!("grp {}", n);
        for r in il.iter_ranges() {
            line.push_str(&format!(" {} {}", r.start(), r.end() + 1));
        }
        println!("{}", line);
    }
    let cm = CaseMapper::new();
    let cc = CaseMapCloser::new();
    for cp in 0u32..0x110000 {
        if let Some(c) = char::from_u32(cp) {
            let l = cm.simple_lowercase(c);
            if l != c {
                println!("lower {} {}", cp, l as u32);
            }
            let mut b = CodePointInversionListBuilder::new();
            cc.add_case_closure_to(c, &mut b);
            let il = b.build();
            if il.size() > 0 {
                let mut line = format!("closure {}", cp);
                for r in il.iter_ranges() {
                    for x in *r.start()..=*r.end() {
                        line.push_str(&format!(" {}", x));
                    }
                }
                println!("{}", line);
            }
        }
    }
}
