// Call histories on a pool of shared Regex objects (property C18).
//
// script  :=  prelude '#' thread ('#' thread)*
// prelude :=  op (';' op)*      -- only compile ops:  c<k>:<xp|xs>:<pattern cps>:<flags cps>
// thread  :=  op (';' op)*
//   m<k>:<input>            is_match on object k
//   r<k>:<input>:<repl>     replace_all
//   t<k>:<j>:<input>        open tokenize iterator j (thread-local id)
//   a<k>:<j>:<input>        open analyze iterator j
//   n<j>                    next() on iterator j
//   d<j>                    drop iterator j
// mode: "seq" runs the threads one after the other on the calling thread; "par" runs each on its
// own OS thread concurrently, all sharing the same Regex objects.
// Answer: per thread, the results of its ops joined by ';', threads joined by '#'.
use crate::{cps, fmt_analyze_entry};
use regexml::Regex;
use std::collections::HashMap;

fn uncps(s: &str) -> String {
    s.split(',').filter(|x| !x.is_empty()).map(|x| char::from_u32(x.parse::<u32>().unwrap()).unwrap()).collect()
}

enum It {
    Tok(Box<dyn Iterator<Item = String>>),
    Ana(Box<dyn Iterator<Item = regexml::AnalyzeEntry>>),
}

fn run_thread(objs: &'static HashMap<usize, Result<Regex, String>>, script: &str) -> String {
    let mut its: HashMap<usize, It> = HashMap::new();
    let mut out: Vec<String> = Vec::new();
    for op in script.split(';').filter(|s| !s.is_empty()) {
        let parts: Vec<&str> = op[1..].split(':').collect();
        let kind = &op[0..1];
        let r = std::panic::catch_unwind(std::panic::AssertUnwindSafe(|| -> String {
            match kind {
                "m" | "r" | "t" | "a" => {
                    let k: usize = parts[0].parse().unwrap();
                    let re = match objs.get(&k) {
                        Some(Ok(re)) => re,
                        Some(Err(e)) => return e.clone(),
                        None => return "NOOBJ".into(),
                    };
                    match kind {
                        "m" => (if re.is_match(&uncps(parts[1])) { "T" } else { "F" }).into(),
                        "r" => match re.replace_all(&uncps(parts[1]), &uncps(parts[2])) {
                            Ok(s) => format!("OK:{}", cps(&s)),
                            Err(_) => "ERR".into(),
                        },
                        "t" => {
                            let j: usize = parts[1].parse().unwrap();
                            match re.tokenize(&uncps(parts[2])) {
                                Ok(it) => {
                                    its.insert(j, It::Tok(Box::new(it)));
                                    "OPEN".into()
                                }
                                Err(_) => "ERR".into(),
                            }
                        }
                        _ => {
                            let j: usize = parts[1].parse().unwrap();
                            match re.analyze(&uncps(parts[2])) {
                                Ok(it) => {
                                    its.insert(j, It::Ana(Box::new(it)));
                                    "OPEN".into()
                                }
                                Err(_) => "ERR".into(),
                            }
                        }
                    }
                }
                "n" => {
                    let j: usize = parts[0].parse().unwrap();
                    match its.get_mut(&j) {
                        Some(It::Tok(it)) => match it.next() {
                            Some(s) => format!("tok={}", cps(&s)),
                            None => "NONE".into(),
                        },
                        Some(It::Ana(it)) => match it.next() {
                            Some(e) => {
                                let mut s = String::new();
                                fmt_analyze_entry(&e, &mut s);
                                s.replace(';', "/")
                            }
                            None => "NONE".into(),
                        },
                        None => "NOITER".into(),
                    }
                }
                "d" => {
                    let j: usize = parts[0].parse().unwrap();
                    its.remove(&j);
                    "DROPPED".into()
                }
                _ => "BADOP".into(),
            }
        }));
        out.push(r.unwrap_or_else(|_| "PANIC".into()));
    }
    out.join(";")
}

pub fn run_history(_dialect: &str, _mode: &str, script: &str, mode: &str) -> String {
    let mut parts = script.split('#');
    let prelude = parts.next().unwrap_or("");
    let mut objs: HashMap<usize, Result<Regex, String>> = HashMap::new();
    for op in prelude.split(';').filter(|s| !s.is_empty()) {
        let p: Vec<&str> = op[1..].split(':').collect();
        let k: usize = p[0].parse().unwrap();
        let pat = uncps(p[2]);
        let fl = uncps(p.get(3).copied().unwrap_or(""));
        let r = std::panic::catch_unwind(|| if p[1] == "xs" { Regex::xsd(&pat, &fl) } else { Regex::xpath(&pat, &fl) });
        objs.insert(
            k,
            match r {
                Ok(Ok(re)) => Ok(re),
                Ok(Err(_)) => Err("CERR".into()),
                Err(_) => Err("PANIC".into()),
            },
        );
    }
    let objs: &'static HashMap<usize, Result<Regex, String>> = Box::leak(Box::new(objs));
    let threads: Vec<String> = parts.map(|s| s.to_string()).collect();
    let results: Vec<String> = if mode == "par" {
        let hs: Vec<_> = threads
            .into_iter()
            .map(|t| std::thread::spawn(move || run_thread(objs, &t)))
            .collect();
        hs.into_iter().map(|h| h.join().unwrap_or_else(|_| "PANIC".into())).collect()
    } else {
        threads.iter().map(|t| run_thread(objs, t)).collect()
    };
    results.join("#")
}
